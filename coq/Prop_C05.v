(* Property C05 — every valid point survives serialization to CSV and back unchanged.
   Codec.v follows Point._serialize_to_list / _deserialize_from_list cell by cell (prefix
   sniffing by character position, the "_none" sentinel, both key-prefix styles); Text.v adds
   the text of time and number cells as oracle pairs (isoformat/fromisoformat, float
   repr/float()) of which only the round trip is assumed; Csv.v models csv.writer / csv.reader
   for the excel dialect family.  Strings are arbitrary lists of code points (any N: commas,
   quotes, CR, LF, NUL, leading '_', 't', 'f', the reserved words as KEYS, everything).
   reserved_free p: the tag VALUE "_none" and the empty measurement are the two places where
   the format itself is not faithful (known finding F17): C05_*_refuted below. *)
From Coq Require Import List ZArith NArith Bool.
From TF Require Import Base Query Codec Csv Text proofs.CodecP proofs.CsvP proofs.TextP proofs.CodecGenP proofs.DecodeGenP.
From TF Require gen.CodecGen gen.DecodeGen.
Import ListNotations.

Theorem C05_roundtrip : forall (compact : bool) (p : point), wf_point p -> reserved_free p = true -> de (ser compact p) = Some p.
Proof. exact de_ser. Qed.
(* the serializer REGENERATED from tinyflux/point.py on every run (gen/CodecGen.v: Point._serialize_to_list evaluated
   symbolically into a normal form) is the model's, for every flag and every point *)
Theorem C05_source_serializer_is_the_model : forall compact p, CodecGen.serialize compact p = ser compact p.
Proof. exact gen_serialize_eq. Qed.
Theorem C05_text_roundtrip : forall fmt_time parse_time fmt_num parse_num,
  (forall t, parse_time (fmt_time t) = Some t) -> (forall x, parse_num (fmt_num x) = Some x) ->
  (forall x, str_eqb (fmt_num x) s_none = false) ->
  forall c p, wf_point p -> reserved_free p = true ->
  decode_row parse_time parse_num (encode_row fmt_time fmt_num c p) = Some p.
Proof. exact decode_encode. Qed.
Theorem C05_injective : forall c1 c2 p1 p2, wf_point p1 -> wf_point p2 -> reserved_free p1 = true -> reserved_free p2 = true ->
  ser c1 p1 = ser c2 p2 -> p1 = p2.
Proof. exact ser_injective. Qed.
Theorem C05_decode_injective : forall c1 c2 p1 p2, wf_point p1 -> wf_point p2 -> reserved_free p1 = true -> reserved_free p2 = true ->
  de (ser c1 p1) = de (ser c2 p2) -> p1 = p2.
Proof. exact decode_injective. Qed.
Theorem C05_csv_roundtrip : forall (D : dialect) (rows : list (list str)), wf_dialect D -> csv_read D (csv_write D rows) = Some rows.
Proof. exact csv_roundtrip. Qed.
Theorem C05_csv_injective : forall D r1 r2, wf_dialect D -> csv_write D r1 = csv_write D r2 -> r1 = r2.
Proof. exact csv_write_injective. Qed.
(* written by csv.writer, read by csv.reader, decoded row by row: the points that were written *)
Theorem C05_file_roundtrip : forall fmt_time parse_time fmt_num parse_num,
  (forall t, parse_time (fmt_time t) = Some t) -> (forall x, parse_num (fmt_num x) = Some x) ->
  (forall x, str_eqb (fmt_num x) s_none = false) ->
  forall D rows, wf_dialect D -> good_rows rows ->
  option_map (map (decode_row parse_time parse_num)) (csv_read D (csv_write D (encode_rows fmt_time fmt_num rows)))
  = Some (map (fun cp => Some (snd cp)) rows).
Proof. exact file_roundtrip. Qed.
(* the full statement (without reserved_free) is false of the faithful model: known finding F17 *)
Theorem C05_roundtrip_refuted_sentinel : exists p, wf_point p /\ de (ser false p) <> Some p.
Proof. exact de_ser_refuted_tag. Qed.
Theorem C05_roundtrip_refuted_empty_measurement : exists p, wf_point p /\ de (ser false p) <> Some p /\ p_meas p = [].
Proof. exact de_ser_refuted_meas. Qed.
Theorem C05_injective_refuted : exists p1 p2, wf_point p1 /\ wf_point p2 /\ p1 <> p2 /\ de (ser false p1) = de (ser false p2).
Proof. exact not_injective_refuted. Qed.
Example C05_nonvacuous : exists p, wf_point p /\ reserved_free p = true /\ p_tags p <> [] /\ p_fields p <> [] /\ de (ser true p) = Some p.
Proof. exact de_ser_example. Qed.

(* what the loops of Point._deserialize_from_list DECIDE, REGENERATED from tinyflux/point.py on every run (gen/DecodeGen.v): which cells are tag
   keys and which prefix is stripped, when the tag loop hands over to the field loop, the sentinel test, the prefix stripped from field keys,
   the class constants - one turn of each loop of the model's decoder, spelled with the generated decisions, for every string *)
Theorem C05_source_decoder_tag_loop : forall f k rest acc,
  de_tags (S f) (CText k :: rest) acc =
  match DecodeGen.gen_tag_key k with
  | None => None
  | Some None => Some (acc, CText k :: rest)
  | Some (Some tk) => match rest with CText v :: rest' => de_tags f rest' (dset tk (DecodeGen.gen_tag_value v) acc) | _ => None end
  end.
Proof. exact de_tags_step. Qed.
Theorem C05_source_decoder_field_loop : forall f k rest acc,
  de_fields (S f) (CText k :: rest) acc =
  match DecodeGen.gen_field_key k with
  | None => None
  | Some fk => match rest with
               | CNum x :: rest' => de_fields f rest' (dset fk (Some x) acc)
               | CText v :: rest' => if str_eqb v DecodeGen.none_str then de_fields f rest' (dset fk None acc) else None
               | _ => None
               end
  end.
Proof. exact de_fields_step. Qed.
Theorem C05_source_constants : DecodeGen.none_str = s_none /\ DecodeGen.default_tag_key_prefix = pre_tag /\ DecodeGen.default_field_key_prefix = pre_field /\
  DecodeGen.compact_tag_key_prefix = pre_ctag /\ DecodeGen.compact_field_key_prefix = pre_cfield.
Proof. exact gen_constants. Qed.

Print Assumptions C05_source_serializer_is_the_model.
Print Assumptions C05_roundtrip.
Print Assumptions C05_text_roundtrip.
Print Assumptions C05_injective.
Print Assumptions C05_decode_injective.
Print Assumptions C05_csv_roundtrip.
Print Assumptions C05_csv_injective.
Print Assumptions C05_file_roundtrip.
Print Assumptions C05_roundtrip_refuted_sentinel.
Print Assumptions C05_injective_refuted.
Print Assumptions C05_source_decoder_tag_loop.
Print Assumptions C05_source_decoder_field_loop.
Print Assumptions C05_source_constants.
