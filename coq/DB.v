(* DB.v — the TinyFlux facade (database.py) and the Measurement handle (measurement.py):
   every public operation as a step function, with both read paths (index-served and
   storage scan), the decorators' effects, and exceptions raised at the statement where
   Python raises.  Storage is a list of decoded points; `norm` is the storage's
   serialise-then-deserialise round trip (identity for MemoryStorage, the CSV codec for
   CSVStorage).  An update that fails part-way leaves the stored rows as they were (MemoryStorage
   restores the objects it changed in place).  Definitions only. *)
From Coq Require Import List ZArith NArith Bool Arith.
From TF Require Import Base Bisect Query Index.
Import ListNotations.

(* ---- update arguments ---------------------------------------------------------------- *)
Inductive uarg (A : Type) := UNone | UStatic (a : A) | UCall (id : N).
Arguments UNone {A}. Arguments UStatic {A}. Arguments UCall {A}.

Record updspec := mkUpd {
  u_time : uarg Z; u_meas : uarg str;
  u_tags : uarg (list (str * option str)); u_fields : uarg (list (str * option num));
  u_unset_fields : list str; u_unset_tags : list str }.

(* callables passed to update(): None = the callable raised or returned an invalid value
   (both end in an exception before the attribute is touched) *)
Record cenv := mkCenv {
  c_time : N -> Z -> option Z;
  c_meas : N -> str -> option str;
  c_tags : N -> list (str * option str) -> option (list (str * option str));
  c_fields : N -> list (str * option num) -> option (list (str * option num)) }.

Inductive ures := UOk (p : point) | UFail (partial : point).

Section DB.
Variable E : env.
Variable C : cenv.
Variable norm : point -> point.

Definition nonempty {A} (l : list A) : bool := match l with [] => false | _ => true end.

(* _generate_updater's "must include one of ..." test on already well-typed arguments *)
Definition upd_given (u : updspec) : bool :=
  match u_time u with UNone => false | _ => true end
  || match u_meas u with UNone => false | UStatic s => nonempty s | UCall _ => true end
  || match u_tags u with UNone => false | UStatic d => nonempty d | UCall _ => true end
  || match u_fields u with UNone => false | UStatic d => nonempty d | UCall _ => true end
  || nonempty (u_unset_fields u) || nonempty (u_unset_tags u).

Definition set_time (p : point) (t : Z) := mkPoint t (p_meas p) (p_tags p) (p_fields p).
Definition set_meas (p : point) (m : str) := mkPoint (p_time p) m (p_tags p) (p_fields p).
Definition set_tags (p : point) d := mkPoint (p_time p) (p_meas p) d (p_fields p).
Definition set_fields (p : point) d := mkPoint (p_time p) (p_meas p) (p_tags p) d.

(* perform_update(point): time, measurement, tags, fields, unset_tags, unset_fields in that
   order; a failing step leaves the earlier steps applied to the object *)
Definition perform_update (u : updspec) (p : point) : ures :=
  let s1 := match u_time u with
            | UNone => Some p
            | UStatic t => Some (set_time p t)
            | UCall id => option_map (set_time p) (c_time C id (p_time p)) end in
  match s1 with None => UFail p | Some p1 =>
  let s2 := match u_meas u with
            | UNone => Some p1
            | UStatic [] => Some p1
            | UStatic m => Some (set_meas p1 m)
            | UCall id => option_map (set_meas p1) (c_meas C id (p_meas p1)) end in
  match s2 with None => UFail p1 | Some p2 =>
  let s3 := match u_tags u with
            | UNone => Some p2
            | UStatic d => Some (set_tags p2 (dupdate (p_tags p2) d))
            | UCall id => option_map (fun d => set_tags p2 (dupdate (p_tags p2) d)) (c_tags C id (p_tags p2)) end in
  match s3 with None => UFail p2 | Some p3 =>
  let s4 := match u_fields u with
            | UNone => Some p3
            | UStatic d => Some (set_fields p3 (dupdate (p_fields p3) d))
            | UCall id => option_map (fun d => set_fields p3 (dupdate (p_fields p3) d)) (c_fields C id (p_fields p3)) end in
  match s4 with None => UFail p3 | Some p4 =>
  let p5 := set_tags p4 (fold_left (fun d k => ddel k d) (u_unset_tags u) (p_tags p4)) in
  UOk (set_fields p5 (fold_left (fun d k => ddel k d) (u_unset_fields u) (p_fields p5)))
  end end end end.

(* Point.__eq__ on well-formed points is structural equality (dicts are kept sorted). *)
Definition tags_eqb (a b : list (str * option str)) : bool :=
  Nat.eqb (length a) (length b) && forallb (fun xy => str_eqb (fst (fst xy)) (fst (snd xy)) && ostr_eqb (snd (fst xy)) (snd (snd xy))) (combine a b).
Definition fields_eqb (a b : list (str * option num)) : bool :=
  Nat.eqb (length a) (length b) && forallb (fun xy => str_eqb (fst (fst xy)) (fst (snd xy)) && onum_eqb (snd (fst xy)) (snd (snd xy))) (combine a b).
Definition point_eqb (a b : point) : bool :=
  Z.eqb (p_time a) (p_time b) && str_eqb (p_meas a) (p_meas b)
  && tags_eqb (p_tags a) (p_tags b) && fields_eqb (p_fields a) (p_fields b).

(* ---- state, operations, outputs ------------------------------------------------------ *)
Record state := mkState { st_rows : list point; st_idx : index; st_auto : bool }.

Inductive selkey := SKTime | SKMeas | SKTag (k : str) | SKField (k : str).

Inductive hop :=
| HLen | HIter | HAll (srt : bool)
| HContains (q : query) | HCount (q : query) | HGet (q : query) | HSearch (q : query) (srt : bool)
| HSelect (ks : option (list selkey)) (q : query)
| HGetFieldKeys | HGetFieldValues (k : str) | HGetTagKeys | HGetTagValues (ks : list str) | HGetTimestamps
| HInsert (ps : list (option point)) | HRemove (q : query) | HRemoveAll
| HUpdate (q : query) (u : option updspec) | HUpdateAll (u : option updspec).

Inductive op :=
| Insert (ps : list (option point)) (m : option str)      (* None element = not a Point *)
| Remove (q : query) (m : option str) | DropMeas (name : str) | RemoveAll
| Update (q : query) (u : option updspec) (m : option str) (* None = statically invalid arguments *)
| UpdateAll (u : option updspec)
| Search (q : query) (m : option str) (srt : bool) | Count (q : query) (m : option str)
| Contains (q : query) (m : option str) | Get (q : query) (m : option str)
| Select (ks : option (list selkey)) (q : query) (m : option str)   (* None = an invalid key *)
| All (srt : bool) | Len | Iter
| GetMeasurements | GetTagKeys (m : option str) | GetTagValues (ks : list str) (m : option str)
| GetFieldKeys (m : option str) | GetFieldValues (k : str) (m : option str) | GetTimestamps (m : option str)
| Reindex | Reopen (auto : bool) | IndexValid
| Handle (name : str) (h : hop).

Inductive out :=
| OPoints (l : list point) | OPoint (o : option point) | ONat (n : nat) | OBool (b : bool)
| OSel (l : list (list value)) | OStrs (l : list str) | OTagVals (l : list (str * list (option str)))
| ONums (l : list (option num)) | OTimes (l : list Z) | OUnit | ORaise.

(* `if measurement:` — None and "" both mean no filter *)
Definition meas_pass (m : option str) (p : point) : bool :=
  match truthy m with Some name => str_eqb (p_meas p) name | None => true end.
(* mq & query *)
Definition with_meas (m : option str) (q : query) : query :=
  match truthy m with Some name => QAnd (QS AMeas [] (TCmp Ceq (VStr name))) q | None => q end.

(* database.index_is_exact *)
Fixpoint index_is_exact (q : query) : bool :=
  match q with
  | QNot q' => if is_field_simple q' then false else index_is_exact q'
  | QAnd l r | QOr l r => index_is_exact l && index_is_exact r
  | QS _ path _ => path_hashable path          (* a map() in the path: _hash is None *)
  | QNoop _ => true
  end.

Definition sort_points (l : list point) : list point :=
  stable_sort (fun a b => Z.leb (p_time a) (p_time b)) l.

(* read_op: auto-reindex *)
Definition do_reindex (s : state) : state :=
  if ix_valid (st_idx s) then s else mkState (st_rows s) (ix_build (st_rows s)) (st_auto s).
Definition read_prelude (s : state) : state :=
  if st_auto s && negb (ix_valid (st_idx s)) then do_reindex s else s.

(* scan helpers: evaluate the query on each row that passes the measurement filter *)
Fixpoint scan_filter (q : query) (m : option str) (rows : list point) : option (list point) :=
  match rows with
  | [] => Some []
  | p :: r => if meas_pass m p then
                match eval E q p with
                | RRaise => None
                | RB b => option_map (fun l => if b then p :: l else l) (scan_filter q m r)
                end
              else scan_filter q m r
  end.
(* first match, stopping there (later rows are not evaluated) *)
Fixpoint scan_first (q : query) (m : option str) (rows : list point) : option (option point) :=
  match rows with
  | [] => Some None
  | p :: r => if meas_pass m p then
                match eval E q p with
                | RRaise => None
                | RB true => Some (Some p)
                | RB false => scan_first q m r
                end
              else scan_first q m r
  end.

Definition pick (items : list nat) (rows : list point) : list point :=
  map snd (filter (fun ip => mem (fst ip) items) (combine (seq 0 (length rows)) rows)).

Definition proj (ixo : option index) (ks : list selkey) (p : point) : list value :=
  map (fun k => match k with
                | SKTime => VTime (p_time p)
                | SKMeas => VStr (p_meas p)
                | SKTag t => if match ixo with Some ix => existsb (fun kb => str_eqb t (fst (fst kb))) (ix_tags ix) | None => true end
                             then match dget t (p_tags p) with Some v => tagval v | None => VNone end else VNone
                | SKField f => if match ixo with Some ix => im_has str_eqb f (ix_fields ix) | None => true end
                             then match dget f (p_fields p) with Some v => fieldval v | None => VNone end else VNone
                end) ks.

(* the common head of the index-served paths: Some (Some items) = use them,
   Some None = scan instead, None = the index search raised *)
Definition index_plan (s : state) (q : query) (m : option str) : option (option (list nat)) :=
  if ix_valid (st_idx s) && index_is_exact q then
    match isearch E (st_idx s) (with_meas m q) with
    | None => None
    | Some items => Some (Some items)
    end
  else Some None.

Definition db_contains (s : state) q m : state * out :=
  let s := read_prelude s in
  match index_plan s q m with
  | None => (s, ORaise)
  | Some (Some items) => (s, OBool (nonempty items))
  | Some None => match scan_first q m (st_rows s) with
                 | None => (s, ORaise)
                 | Some o => (s, OBool (match o with Some _ => true | None => false end)) end
  end.

Definition db_count (s : state) q m : state * out :=
  let s := read_prelude s in
  match index_plan s q m with
  | None => (s, ORaise)
  | Some (Some items) => (s, ONat (length items))
  | Some None => match scan_filter q m (st_rows s) with
                 | None => (s, ORaise) | Some l => (s, ONat (length l)) end
  end.

Definition db_get (s : state) q m : state * out :=
  let s := read_prelude s in
  match index_plan s q m with
  | None => (s, ORaise)
  | Some (Some []) => (s, OPoint None)
  | Some (Some items) =>
      if Nat.eqb (length items) (ix_n (st_idx s))
      then match scan_first q m (st_rows s) with None => (s, ORaise) | Some o => (s, OPoint o) end
      else (s, OPoint (hd_error (pick items (st_rows s))))
  | Some None => match scan_first q m (st_rows s) with None => (s, ORaise) | Some o => (s, OPoint o) end
  end.

Definition db_search (s : state) q m (srt : bool) : state * out :=
  let s := read_prelude s in
  let fin l := OPoints (if srt then sort_points l else l) in
  match index_plan s q m with
  | None => (s, ORaise)
  | Some (Some []) => (s, OPoints [])
  | Some (Some items) =>
      if Nat.eqb (length items) (ix_n (st_idx s))
      then match scan_filter q m (st_rows s) with None => (s, ORaise) | Some l => (s, fin l) end
      else (s, fin (pick items (st_rows s)))
  | Some None => match scan_filter q m (st_rows s) with None => (s, ORaise) | Some l => (s, fin l) end
  end.

(* the key strings of select(): "time", "measurement", "tags.<key>", "fields.<key>" with a non-empty <key>; anything else is a
   ValueError (None).  All keys are validated before anything is read. *)
Fixpoint str_prefix (p s : str) : bool :=
  match p, s with
  | [], _ => true
  | a :: p', b :: s' => N.eqb a b && str_prefix p' s'
  | _ :: _, [] => false
  end.
Definition s_time : str := [116; 105; 109; 101]%N.
Definition s_measurement : str := [109; 101; 97; 115; 117; 114; 101; 109; 101; 110; 116]%N.
Definition s_tags_dot : str := [116; 97; 103; 115; 46]%N.
Definition s_fields_dot : str := [102; 105; 101; 108; 100; 115; 46]%N.
Definition parse_selkey (k : str) : option selkey :=
  if str_eqb k s_time then Some SKTime
  else if str_eqb k s_measurement then Some SKMeas
  else if str_prefix s_tags_dot k && Nat.ltb 5 (length k) then Some (SKTag (skipn 5 k))
  else if str_prefix s_fields_dot k && Nat.ltb 7 (length k) then Some (SKField (skipn 7 k))
  else None.
Fixpoint parse_selkeys (ks : list str) : option (list selkey) :=
  match ks with
  | [] => Some []
  | k :: r => match parse_selkey k, parse_selkeys r with Some a, Some l => Some (a :: l) | _, _ => None end
  end.
Definition print_selkey (k : selkey) : str :=
  match k with SKTime => s_time | SKMeas => s_measurement | SKTag t => s_tags_dot ++ t | SKField f => s_fields_dot ++ f end.

Definition db_select (s : state) (ks : option (list selkey)) q m : state * out :=
  let s := read_prelude s in
  match ks with
  | None => (s, ORaise)                       (* ValueError: invalid key *)
  | Some ks =>
    match index_plan s q m with
    | None => (s, ORaise)
    | Some (Some items) => (s, OSel (map (proj (Some (st_idx s)) ks) (pick items (st_rows s))))
    | Some None => match scan_filter q m (st_rows s) with
                   | None => (s, ORaise) | Some l => (s, OSel (map (proj None ks) l)) end
    end
  end.

(* _reset_database *)
Definition reset_database (s : state) : state :=
  mkState [] (if st_auto s then ix_reset (st_idx s) else ix_invalidate (st_idx s)) (st_auto s).

(* the scan of _remove_helper: a row is removed iff it passes the measurement filter and the
   query is true; positions ascending *)
Fixpoint scan_positions (q : query) (m : option str) (i : nat) (rows : list point) : option (list nat) :=
  match rows with
  | [] => Some []
  | p :: r => if meas_pass m p then
                match eval E q p with
                | RRaise => None
                | RB b => option_map (fun l => if b then i :: l else l) (scan_positions q m (S i) r)
                end
              else scan_positions q m (S i) r
  end.

(* the tail of _remove_helper once the positions to remove are known.
   removed: ascending positions; kept rows keep their order *)
Definition remove_finish (use_index : bool) (removed : list nat) (s : state) : state * out :=
  if negb (nonempty removed) then (s, ONat 0)
  else if Nat.eqb (length removed) (length (st_rows s)) then (reset_database s, ONat (length removed))
  else
    let rows' := map snd (filter (fun ip => negb (mem (fst ip) removed)) (combine (seq 0 (length (st_rows s))) (st_rows s))) in
    let f := fun i => i - length (filter (fun r => Nat.ltb r i) removed) in
    let idx' := if st_auto s && use_index
                then ix_renumber (ix_remove (st_idx s) (fun i => mem i removed) (length removed)) f
                else ix_invalidate (st_idx s) in
    (mkState rows' idx' (st_auto s), ONat (length removed)).

(* _remove_helper after the decorators *)
Definition remove_helper (s : state) q m : state * out :=
  let use_index := ix_valid (st_idx s) && index_is_exact q in
  if use_index then
    match isearch E (st_idx s) (with_meas m q) with
    | None => (s, ORaise)
    | Some [] => (s, ONat 0)
    | Some items =>
        if Nat.eqb (length items) (ix_n (st_idx s)) then (reset_database s, ONat (length items))
        else remove_finish use_index (filter (fun i => mem i items) (seq 0 (length (st_rows s)))) s
    end
  else
    match scan_positions q m 0 (st_rows s) with
    | None => (s, ORaise)
    | Some removed => remove_finish use_index removed s
    end.

Definition db_remove (s : state) q m : state * out := remove_helper (read_prelude s) q m.
Definition db_drop (s : state) (name : str) : state * out :=
  remove_helper (read_prelude s) (QS AMeas [] (TCmp Ceq (VStr name))) (Some name).
Definition db_remove_all (s : state) : state * out := (reset_database s, OUnit).

(* the rewrite loop of _update_helper: `sel i p` says whether row i is to be updated.
   Returns the new rows and the number of changed points, or, on an exception, the rows
   as left behind in primary storage. *)
Fixpoint update_loop (u : updspec) (sel : nat -> point -> res) (i : nat) (rows : list point)
  : (list point * nat) + list point :=
  match rows with
  | [] => inl ([], 0)
  | p :: r =>
    match sel i p with
    | RRaise => inr (p :: r)
    | RB false => match update_loop u sel (S i) r with
                  | inl (l, n) => inl (p :: l, n) | inr l => inr (p :: l) end
    | RB true =>
      match perform_update u p with
      | UFail _ => inr (p :: r)
      | UOk p' =>
        let changed := negb (point_eqb p' p) in
        let stored := if changed then norm p' else p in
        match update_loop u sel (S i) r with
        | inl (l, n) => inl (stored :: l, if changed then S n else n)
        | inr l => inr (p :: l)
        end
      end
    end
  end.

Definition update_helper (s : state) (update_all : bool) q (u : option updspec) m : state * out :=
  match u with
  | None => (s, ORaise)
  | Some u =>
    if negb (upd_given u) then (s, ORaise) else
    let run (sel : nat -> point -> res) :=
      match update_loop u sel 0 (st_rows s) with
      | inr rows' => (mkState rows' (st_idx s) (st_auto s), ORaise)
      | inl (rows', 0) => (s, ONat 0)
      | inl (rows', n) =>
          (mkState rows' (if st_auto s then ix_build rows' else ix_invalidate (st_idx s)) (st_auto s), ONat n)
      end in
    let scan := run (fun _ p => if meas_pass m p then (if update_all then RB true else eval E q p) else RB false) in
    if negb update_all && ix_valid (st_idx s) && index_is_exact q then
      match isearch E (st_idx s) (with_meas m q) with
      | None => (s, ORaise)
      | Some [] => (s, ONat 0)
      | Some items => if Nat.eqb (length items) (ix_n (st_idx s)) then scan
                      else run (fun i _ => RB (mem i items))
      end
    else scan
  end.

Definition db_update (s : state) q u m : state * out := update_helper (read_prelude s) false q u m.
Definition db_update_all (s : state) u : state * out := update_helper (read_prelude s) true (QNoop ATags) u None.

(* _insert_helper *)
Fixpoint insert_loop (s : state) (ps : list (option point)) (m : option str) (count : nat) : state * out :=
  match ps with
  | [] => (s, ONat count)
  | None :: _ => (s, ORaise)                                   (* TypeError: not a Point *)
  | Some p0 :: r =>
    let p := match truthy m with Some name => set_meas p0 name | None => p0 end in
    let rows' := st_rows s ++ [norm p] in
    let ix := st_idx s in
    let ix' := if st_auto s && ix_valid ix then
                 (if negb (ix_is_empty ix) && match ix_latest ix with Some t => Z.ltb (p_time p) t | None => false end
                  then ix_invalidate ix else ix_insert ix p)
               else if ix_valid ix then ix_invalidate ix else ix in
    insert_loop (mkState rows' ix' (st_auto s)) r m (S count)
  end.
Definition db_insert (s : state) ps m : state * out := insert_loop s ps m 0.

Definition db_all (s : state) (srt : bool) : state * out :=
  let s := read_prelude s in (s, OPoints (if srt then sort_points (st_rows s) else st_rows s)).
Definition db_len (s : state) : state * out :=
  (s, ONat (if st_auto s && ix_valid (st_idx s) then ix_n (st_idx s) else length (st_rows s))).

Definition in_meas (m : option str) (rows : list point) := filter (meas_pass m) rows.

Definition db_get_measurements (s : state) : state * out :=
  let s := read_prelude s in
  (s, OStrs (if ix_valid (st_idx s) then ix_get_measurements (st_idx s) else sort_dedup (map p_meas (st_rows s)))).
Definition db_get_tag_keys (s : state) m : state * out :=
  let s := read_prelude s in
  (s, OStrs (if ix_valid (st_idx s) then ix_get_tag_keys (st_idx s) m
             else sort_dedup (flat_map (fun p => map fst (p_tags p)) (in_meas m (st_rows s))))).
Definition db_get_field_keys (s : state) m : state * out :=
  let s := read_prelude s in
  (s, OStrs (if ix_valid (st_idx s) then ix_get_field_keys (st_idx s) m
             else sort_dedup (flat_map (fun p => map fst (p_fields p)) (in_meas m (st_rows s))))).
Definition db_get_field_values (s : state) k m : state * out :=
  let s := read_prelude s in
  (s, ONums (if ix_valid (st_idx s) then ix_get_field_values (st_idx s) k m
             else flat_map (fun p => match dget k (p_fields p) with Some v => [v] | None => [] end) (in_meas m (st_rows s)))).
Definition db_get_timestamps (s : state) m : state * out :=
  let s := read_prelude s in
  (s, OTimes (if ix_valid (st_idx s) then ix_get_timestamps (st_idx s) m else map p_time (in_meas m (st_rows s)))).
(* scan branch of get_tag_values: keys = the requested ones (all empty to start with) plus,
   when none were requested, every key met; values collected over the measurement's rows *)
Definition scan_tag_values (ks : list str) (rows : list point) : list (str * list (option str)) :=
  let met := flat_map (fun p => map fst (p_tags p)) rows in
  let keys := match ks with [] => sort_dedup met | _ => sort_dedup ks end in
  map (fun k => (k, sort_none_last (flat_map (fun p => match dget k (p_tags p) with Some v => [v] | None => [] end) rows))) keys.
Definition db_get_tag_values (s : state) ks m : state * out :=
  let s := read_prelude s in
  (s, OTagVals (if ix_valid (st_idx s) then ix_get_tag_values (st_idx s) ks m
                else scan_tag_values ks (in_meas m (st_rows s)))).

Definition db_reindex (s : state) : state * out := (do_reindex s, OUnit).
Definition db_reopen (s : state) (auto : bool) : state * out :=
  let empty := negb (nonempty (st_rows s)) in
  let s0 := mkState (st_rows s) (ix_empty_valid empty) auto in
  ((if auto && negb empty then do_reindex s0 else s0), OUnit).

(* ---- Measurement handle (measurement.py) ---------------------------------------------- *)
Definition handle_step (s : state) (name : str) (h : hop) : state * out :=
  match h with
  | HLen => (s, ONat (if st_auto s && ix_valid (st_idx s)
                      then (if im_has str_eqb name (ix_meas (st_idx s))
                            then length (im_get str_eqb name (ix_meas (st_idx s))) else 0)
                      else length (filter (fun p => str_eqb (p_meas p) name) (st_rows s))))
  | HIter => (s, OPoints (filter (fun p => str_eqb (p_meas p) name) (st_rows s)))
  | HAll srt => let l := filter (fun p => str_eqb (p_meas p) name) (st_rows s) in
                (s, OPoints (if srt then sort_points l else l))
  | HContains q => db_contains s q (Some name)
  | HCount q => db_count s q (Some name)
  | HGet q => db_get s q (Some name)
  | HSearch q srt => db_search s q (Some name) srt
  | HSelect ks q => db_select s ks q (Some name)
  | HGetFieldKeys => db_get_field_keys s (Some name)
  | HGetFieldValues k => db_get_field_values s k (Some name)
  | HGetTagKeys => db_get_tag_keys s (Some name)
  | HGetTagValues ks => db_get_tag_values s ks (Some name)
  | HGetTimestamps => db_get_timestamps s (Some name)
  | HInsert ps => db_insert s ps (Some name)
  | HRemove q => db_remove s q (Some name)
  | HRemoveAll => db_drop s name
  | HUpdate q u => db_update s q u (Some name)
  | HUpdateAll u => db_update s (QNoop AMeas) u (Some name)
  end.

Definition step (s : state) (o : op) : state * out :=
  match o with
  | Insert ps m => db_insert s ps m
  | Remove q m => db_remove s q m
  | DropMeas name => db_drop s name
  | RemoveAll => db_remove_all s
  | Update q u m => db_update s q u m
  | UpdateAll u => db_update_all s u
  | Search q m srt => db_search s q m srt
  | Count q m => db_count s q m
  | Contains q m => db_contains s q m
  | Get q m => db_get s q m
  | Select ks q m => db_select s ks q m
  | All srt => db_all s srt
  | Len => db_len s
  | Iter => (s, OPoints (st_rows s))
  | GetMeasurements => db_get_measurements s
  | GetTagKeys m => db_get_tag_keys s m
  | GetTagValues ks m => db_get_tag_values s ks m
  | GetFieldKeys m => db_get_field_keys s m
  | GetFieldValues k m => db_get_field_values s k m
  | GetTimestamps m => db_get_timestamps s m
  | Reindex => db_reindex s
  | Reopen auto => db_reopen s auto
  | IndexValid => (s, OBool (ix_valid (st_idx s)))
  | Handle name h => handle_step s name h
  end.

(* the forwarding table of the handle: the database operation a handle operation stands for (None: len / iteration / all,
   which filter the stored rows themselves) *)
Definition restrict (name : str) (h : hop) : option op :=
  match h with
  | HContains q => Some (Contains q (Some name)) | HCount q => Some (Count q (Some name))
  | HGet q => Some (Get q (Some name)) | HSearch q srt => Some (Search q (Some name) srt)
  | HSelect ks q => Some (Select ks q (Some name))
  | HGetFieldKeys => Some (GetFieldKeys (Some name)) | HGetFieldValues k => Some (GetFieldValues k (Some name))
  | HGetTagKeys => Some (GetTagKeys (Some name)) | HGetTagValues ks => Some (GetTagValues ks (Some name))
  | HGetTimestamps => Some (GetTimestamps (Some name))
  | HInsert ps => Some (Insert ps (Some name)) | HRemove q => Some (Remove q (Some name))
  | HRemoveAll => Some (DropMeas name)
  | HUpdate q u => Some (Update q u (Some name))
  | HUpdateAll u => Some (Update (QNoop AMeas) u (Some name))
  | HLen | HIter | HAll _ => None
  end.


Definition init (auto : bool) : state := mkState [] (ix_empty_valid true) auto.

Fixpoint run (s : state) (ops : list op) : list out * state :=
  match ops with
  | [] => ([], s)
  | o :: r => let '(s', x) := step s o in let '(xs, sf) := run s' r in (x :: xs, sf)
  end.
End DB.
