(* ValidSem.v — the Python primitives the generated validators (gen/ValidGen.v) are written with:
   isinstance over the classes that occur in point.py (with bool a subclass of int), `is None`,
   and the keys / values of a mapping.  Definitions only. *)
From Coq Require Import List Bool.
From TF Require Import Base Valid.
Import ListNotations.

Inductive pyclass := CStr | CBool | CInt | CFloat | CMapping | CDatetime.
Definition isinst (c : pyclass) (v : pyval) : bool :=
  match c, v with
  | CStr, PvStr _ => true
  | CBool, PvBool _ => true
  | CInt, PvInt _ | CInt, PvBool _ => true          (* isinstance(True, int) *)
  | CFloat, PvFloat _ => true
  | CMapping, PvDict _ => true
  | CDatetime, PvTime _ => true
  | _, _ => false
  end.
Definition is_none (v : pyval) : bool := match v with PvNone => true | _ => false end.
Definition pv_keys (v : pyval) : list pyval := match v with PvDict d => map fst d | _ => [] end.
Definition pv_values (v : pyval) : list pyval := match v with PvDict d => map snd d | _ => [] end.
