(* Bisect.v — model of CPython's bisect.bisect_left / bisect_right (Lib/bisect.py,
   the pure-Python reference of the C accelerator) and the small run-time
   vocabulary the translated utils.py needs.  No proofs here. *)
From Coq Require Import List ZArith Bool Arith.
Import ListNotations.

(* Result of a translated Python function returning Optional[int]. *)
Inductive res := Ret (o : option Z) | Raise.

Section Bisect.
Context {T : Type}.
Variable ltb : T -> T -> bool.     (* Python's  a < b  on the element type *)

(* while lo < hi: mid = (lo+hi)//2; if a[mid] < x: lo = mid+1 else: hi = mid *)
Fixpoint bl_loop (fuel : nat) (l : list T) (x : T) (lo hi : nat) : nat :=
  match fuel with
  | O => lo
  | S f =>
    if lo <? hi then
      let mid := (lo + hi) / 2 in
      match nth_error l mid with
      | Some a => if ltb a x then bl_loop f l x (mid + 1) hi else bl_loop f l x lo mid
      | None => lo
      end
    else lo
  end.

(* while lo < hi: mid = (lo+hi)//2; if x < a[mid]: hi = mid else: lo = mid+1 *)
Fixpoint br_loop (fuel : nat) (l : list T) (x : T) (lo hi : nat) : nat :=
  match fuel with
  | O => lo
  | S f =>
    if lo <? hi then
      let mid := (lo + hi) / 2 in
      match nth_error l mid with
      | Some a => if ltb x a then br_loop f l x lo mid else br_loop f l x (mid + 1) hi
      | None => lo
      end
    else lo
  end.

Definition bisect_left_nat (l : list T) (x : T) : nat := bl_loop (length l) l x 0 (length l).
Definition bisect_right_nat (l : list T) (x : T) : nat := br_loop (length l) l x 0 (length l).

(* Python ints are Z in translated code. *)
Definition bisect_left (l : list T) (x : T) : Z := Z.of_nat (bisect_left_nat l x).
Definition bisect_right (l : list T) (x : T) : Z := Z.of_nat (bisect_right_nat l x).
End Bisect.

(* Python  len(l)  and  l[i]  (negative indices wrap; out of range raises). *)
Definition py_len {T} (l : list T) : Z := Z.of_nat (length l).
Definition py_index {T} (l : list T) (i : Z) : option T :=
  let n := py_len l in
  if (0 <=? i)%Z then (if (i <? n)%Z then nth_error l (Z.to_nat i) else None)
  else if (0 <=? n + i)%Z then nth_error l (Z.to_nat (n + i)) else None.

(* The exception monad of translated expressions: None = an exception was raised. *)
Definition ebind {A B} (m : option A) (f : A -> option B) : option B :=
  match m with Some a => f a | None => None end.
(* Python  a and b  on booleans, short-circuit. *)
Definition eand (a : option bool) (b : unit -> option bool) : option bool :=
  match a with Some true => b tt | Some false => Some false | None => None end.
Definition eor (a : option bool) (b : unit -> option bool) : option bool :=
  match a with Some true => Some true | Some false => b tt | None => None end.
(* if c: r1  else: r2   with a possibly-raising condition *)
Definition econd (c : option bool) (t e : res) : res :=
  match c with Some true => t | Some false => e | None => Raise end.
