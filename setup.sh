#!/bin/bash
# Build the Coq development from files on disk only (offline). Full .vo build.
set -e
cd "$(dirname "$0")"
/venv/bin/python harness/py2coq.py "${VERIF_REPO:-/repo}/tinyflux/utils.py" coq/gen/UtilsGen.v || true
/venv/bin/python harness/py2coq_guard.py "${VERIF_REPO:-/repo}/tinyflux/database.py" coq/gen/GuardGen.v || true
/venv/bin/python harness/py2coq_search.py "${VERIF_REPO:-/repo}/tinyflux/index.py" coq/gen/SearchGen.v || true
/venv/bin/python harness/py2coq_query.py "${VERIF_REPO:-/repo}/tinyflux/queries.py" coq/gen/QueryGen.v || true
/venv/bin/python harness/py2coq_io.py "${VERIF_REPO:-/repo}/tinyflux/storages.py" coq/gen/IOGen.v || true
/venv/bin/python harness/py2coq_index.py "${VERIF_REPO:-/repo}/tinyflux/index.py" coq/gen/IndexGen.v || true
/venv/bin/python harness/py2coq_dbget.py "${VERIF_REPO:-/repo}/tinyflux" coq/gen/DbGetGen.v || true
/venv/bin/python harness/py2coq_insert.py "${VERIF_REPO:-/repo}/tinyflux/database.py" coq/gen/InsertGen.v || true
/venv/bin/python harness/py2coq_read.py "${VERIF_REPO:-/repo}/tinyflux" coq/gen/ReadGen.v || true
/venv/bin/python harness/py2coq_remove.py "${VERIF_REPO:-/repo}/tinyflux" coq/gen/RemoveGen.v || true
/venv/bin/python harness/py2coq_update.py "${VERIF_REPO:-/repo}/tinyflux" coq/gen/UpdateGen.v || true
/venv/bin/python harness/py2coq_handle.py "${VERIF_REPO:-/repo}/tinyflux" coq/gen/HandleGen.v || true
/venv/bin/python harness/py2coq_codec.py "${VERIF_REPO:-/repo}/tinyflux/point.py" coq/gen/CodecGen.v || true
/venv/bin/python harness/py2coq_decode.py "${VERIF_REPO:-/repo}/tinyflux/point.py" coq/gen/DecodeGen.v || true
/venv/bin/python harness/py2coq_valid.py "${VERIF_REPO:-/repo}/tinyflux/point.py" coq/gen/ValidGen.v || true
/venv/bin/python harness/py2coq_updarg.py "${VERIF_REPO:-/repo}/tinyflux/database.py" coq/gen/UpdArgGen.v || true
/venv/bin/python harness/py2coq_memstore.py "${VERIF_REPO:-/repo}/tinyflux/storages.py" coq/gen/MemStoreGen.v || true
/venv/bin/python harness/py2coq_updater.py "${VERIF_REPO:-/repo}/tinyflux/database.py" coq/gen/UpdaterGen.v || true
/venv/bin/python harness/py2coq_gates.py "${VERIF_REPO:-/repo}/tinyflux/database.py" coq/gen/GatesGen.v || true
cd coq
coq_makefile -f _CoqProject -o Makefile
timeout 3000 make -j16
