#!/usr/bin/env python3
"""runmut_wt.py <seeded-id> <CHECK-ID> [tier]: apply a seeded change in a scratch worktree of /repo (never in /repo
itself), run one check against it (VERIF_REPO), remove the worktree.  Records the outcome in seeded/<id>/detected.json."""
import json, os, re, shutil, subprocess, sys
V = os.path.dirname(os.path.dirname(os.path.abspath(__file__)))
sid, chk = sys.argv[1], sys.argv[2]
tier = sys.argv[3] if len(sys.argv) > 3 else "quick"
wt = f"/tmp/vwt/{sid}-{chk}-{os.getpid()}"
os.makedirs("/tmp/vwt", exist_ok=True)
subprocess.run(["git", "-C", "/repo", "worktree", "add", "--detach", "-f", wt, "HEAD"], check=True, capture_output=True)
try:
    r = subprocess.run(["git", "-C", wt, "apply", f"{V}/seeded/{sid}/patch.diff"], capture_output=True, text=True)
    if r.returncode != 0:
        print(sid, chk, "PATCH-DOES-NOT-APPLY", r.stderr[:200])
        sys.exit(2)
    coqdir = f"{wt}-coq"                     # a private copy of the Coq development: generated files are rewritten from the tree under test
    shutil.copytree(f"{V}/coq", coqdir, symlinks=True)
    env = dict(os.environ, VERIF_REPO=wt, VERIF_EVIDENCE_DIR=f"{V}/.work/mut-evidence", VERIF_COQ_DIR=coqdir)
    p = subprocess.run([f"{V}/check", chk, tier], capture_output=True, text=True, cwd=V, timeout=3000, env=env)
finally:
    subprocess.run(["git", "-C", "/repo", "worktree", "remove", "--force", wt], capture_output=True)
    shutil.rmtree(wt, ignore_errors=True)
    shutil.rmtree(f"{wt}-coq", ignore_errors=True)
out = p.stdout + p.stderr
viol = [l for l in out.splitlines() if l.startswith("VIOLATION")]
kind = None
if viol:
    m = re.search(r"replay=(\S+)", viol[0])
    try:
        kind = json.load(open(m.group(1))).get("kind")
    except Exception:
        pass
res = {"check": chk, "tier": tier, "exit": p.returncode, "violation_lines": viol, "replay_kind": kind}
f = f"{V}/seeded/{sid}/detected.json"
cur = json.load(open(f)) if os.path.exists(f) else []
cur = [c for c in cur if not (c["check"] == chk and c["tier"] == tier)] + [res]
json.dump(cur, open(f, "w"), indent=1)
print(sid, chk, tier, "exit", p.returncode, viol[:1], kind)
