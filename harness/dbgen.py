"""Generators of points, queries and operation histories (one PRNG, replayable by (seed, index))."""
import os
import random

T0 = 1577836800000000          # 2020-01-01T00:00:00Z in microseconds
SEC = 1000000

MEAS = ["m1", "m2", "_default"]
MEAS_FILTERS = [None, None, "m1", "m2", "m3", ""]
TAG_KEYS = ["a", "b", "k", "bad"]
TAG_VALS = ["x", "y", "ab", "A", "", None, "b", "abz", "li\nne", "a\r\nb,\"q\"", "x"]
FIELD_KEYS = ["a", "b"]
FIELD_VALS = [None, 0, 1, 2, -1, 1.5, 10, float("inf"), 2.0, 0.1, -2, 1e16, 2.5e-07, -3e-05, 1e+22]       # (the last four print in exponent notation)


# the scenarios a random history draws from (some twice) and their names
SCENARIO_DRAW = ["ooo_batch", "carriers", "bad_batch", "stale_handle", "torn_update", "handle_times", "linebreaks", "zones",
                      "remove_first", "ooo_then_remove", "nested_not", "reset_then_time", "nan_fields", "epoch", "sparse_write", "sparse_write", "future_untimed", "range_ends", "noop_compose", "substring_names", "same_size", "one_us_late", "mixed_quoting", "far_sorted", "getter_memo", "handle_sorted", "odd_strings", "shared_maps", "hash_twins", "same_count", "redate", "fold_twins", "big_ties", "handle_unset", "same_row_twice", "or_not", "noop_match", "minute_marks", "none_name", "merge_rename", "tiny_float_change", "big_ints", "redate_remove", "underscore_keys", "buffered_handle"]
# scenarios that are only ever FORCED (dbtie runs every scenario once per configuration; a check names the ones it wants in both passes under
# 'scenario_also'): adding one here leaves every random history - and what it is known to catch - what it was
SCENARIO_FORCED_ONLY = ["ne_writes", "line_separators", "dotted_keys", "front_rows_removed", "raising_test_update", "torn_gap", "same_row_text"]
SCENARIOS = list(dict.fromkeys(SCENARIO_DRAW)) + SCENARIO_FORCED_ONLY


class Gen:
    def __init__(self, seed, profile=None):
        self.r = random.Random(seed)
        self.profile = profile or {}
        self.allow_known = self.profile.get("allow_known", True)
        self.ids = 0            # number of points carrying the unique tag id / field n (selective queries)

    # ---- points ----
    def time(self):
        r = self.r
        c = r.random()
        if c < 0.7:
            return T0 + r.randrange(0, 13) * SEC
        if c < 0.85:
            return T0 + r.randrange(0, 13) * SEC + r.choice([1, -1, 2])
        return T0 + r.randrange(-3, 40) * SEC + r.randrange(0, SEC)

    def point(self, t=None, untimed_ok=False):
        r = self.r
        tags = {k: r.choice(TAG_VALS) for k in r.sample(TAG_KEYS[:3], r.choice([0, 1, 1, 2, 3]))}
        if r.random() < 0.15:
            tags["bad"] = "1"
        if r.random() < 0.08:
            tags["a.b"] = r.choice(["dotted", "x"])           # a key with a dot in it: "tags.a.b" names THIS key, not the key "a"
        enc = (self.profile.get("storage_kwargs") or {}).get("encoding")
        if enc and r.random() < 0.5:
            # text outside ASCII (inside the configured encoding): a file written in another encoding than it is read in shows here
            tags[r.choice(["a", "k"])] = r.choice(["Z\u00fcrich", "\u00e9", "\u00e5\u00ff"] if enc == "latin-1" else ["Z\u00fcrich", "\u65e5\u672c", "\u00e9"])
        fields = {k: r.choice(FIELD_VALS) for k in r.sample(FIELD_KEYS, r.choice([0, 1, 1, 2]))}
        tm = self.time() if t is None else t
        if untimed_ok and r.random() < 0.1:
            tm = None
        if self.ids and r.random() < 0.8:
            tags["id"] = str(self.ids)
            fields["n"] = self.ids
            self.ids += 1
        return {"time": tm, "meas": r.choice(MEAS), "tags": tags, "fields": fields}

    def points_batch(self, n, in_order=True, start=None):
        r = self.r
        t = start if start is not None else T0 + r.randrange(0, 5) * SEC
        out = []
        for _ in range(n):
            if in_order:
                t += r.choice([0, 0, SEC, SEC, 1, 2 * SEC])
                out.append(self.point(t))
            else:
                out.append(self.point())
        return out

    # ---- queries ----
    def rhs_time(self):
        return ("t", self.time())

    def simple(self, attr=None):
        r = self.r
        attr = attr or r.choice(["time", "meas", "tags", "tags", "fields", "fields"])
        ops = ["==", "!=", "<", "<=", ">", ">="]
        if self.ids > 1 and r.random() < 0.35:
            j = r.randrange(1, self.ids + 1)
            if r.random() < 0.5:
                return ("S", "tags", [("k", "id")], ("cmp", r.choice(["==", "==", "!=", ">="]), ("s", str(j))))
            return ("S", "fields", [("k", "n")], ("cmp", r.choice(ops), ("n", j)))
        if r.random() < 0.04:
            return ("noop", attr)
        if attr == "time":
            c = r.random()
            if c < 0.04:
                return ("S", "time", [], ("cmp", r.choice(ops), ("none",)))       # a comparison value that is no datetime (None passes the builder): no bisection, a test like any other
            if c < 0.85:
                return ("S", "time", [], ("cmp", r.choice(ops), self.rhs_time()))
            if c < 0.95:
                return ("S", "time", [], ("user", 4))
            if self.allow_known:
                return ("S", "time", [("m", 4)], ("cmp", r.choice(ops), self.rhs_time()))
            return ("S", "time", [("m", 4)], ("user", r.choice([0, 4])))
        if attr == "meas":
            c = r.random()
            path = []
            if c < 0.2:
                path = [("m", r.choice([0, 1, 3]))]
            t = r.random()
            if t < 0.6:
                rhs = ("s", r.choice(MEAS + ["m3", "m", "many", "few", "_"]))
                return ("S", "meas", path, ("cmp", r.choice(ops), rhs))
            if t < 0.8:
                return ("S", "meas", path, (r.choice(["match", "search"]), r.randrange(6), r.randrange(2)))
            return ("S", "meas", path, ("user", r.choice([0, 3, 4, 1])))
        if attr == "tags":
            key = r.choice(TAG_KEYS[:3] + ["zz"])
            path = [("k", key)]
            if r.random() < 0.15:
                path.append(("m", r.choice([0, 1, 3, 5])))
            if self.allow_known and r.random() < 0.1:
                path = [("m", 3)]
            elif r.random() < 0.08:
                path = [("m", r.choice([0, 6, 6])), ("k", key)]   # a map() that is NOT the last path element: the key is looked up in what the map returns
            t = r.random()
            if t < 0.55:
                rhs = r.choice([("s", v) for v in TAG_VALS if v is not None] + [("none",), ("s", "few"), ("s", "many"), ("s", "a")])
                return ("S", "tags", path, ("cmp", r.choice(ops), rhs))
            if t < 0.7:
                return ("S", "tags", path, ("exists",))
            if t < 0.9:
                return ("S", "tags", path, (r.choice(["match", "search"]), r.randrange(6), r.randrange(2)))
            return ("S", "tags", path, ("user", r.choice([0, 3, 3, 4, 1])))
        # fields
        key = r.choice(FIELD_KEYS + ["zz"])
        path = [("k", key)]
        if r.random() < 0.15:
            path.append(("m", r.choice([0, 2, 5])))
        t = r.random()
        if t < 0.7:
            rhs = r.choice([("n", v) for v in FIELD_VALS if v is not None] + [("none",), ("n", 5), ("n", -10), ("n", True)])
            return ("S", "fields", path, ("cmp", r.choice(ops), rhs))
        if t < 0.8:
            return ("S", "fields", path, ("exists",))
        return ("S", "fields", path, ("user", r.choice([0, 1, 2, 4])))

    def query(self, depth=None):
        r = self.r
        if depth is None:
            # ask a query of this history AGAIN (built afresh, so an equal but different object): whatever the library remembers about a
            # query must not outlive the writes in between
            past = self.__dict__.setdefault("past_queries", [])
            if past and r.random() < 0.25:
                return r.choice(past)
            q = self._fresh_query()
            if len(past) < 12:
                past.append(q)
            return q
        return self._fresh_query(depth)

    def _fresh_query(self, depth=None):
        r = self.r
        if depth is None:
            if self.ids > 2 and r.random() < 0.2:
                # a sparse, explicitly chosen subset of the stored points
                js = r.sample(range(1, self.ids + 1), r.choice([2, 2, 3]))
                q = ("S", "fields", [("k", "n")], ("cmp", "==", ("n", js[0])))
                for j in js[1:]:
                    q = ("or", q, ("S", "tags", [("k", "id")], ("cmp", "==", ("s", str(j)))))
                return q
            depth = r.choice([0, 0, 0, 1, 1, 2, 3])
        if depth == 0:
            return self.simple()
        c = r.random()
        if c < 0.3:
            return ("not", self._fresh_query(depth - 1))
        return (r.choice(["and", "or"]), self._fresh_query(depth - 1), self._fresh_query(r.randrange(depth)))

    def mfilter(self):
        return self.r.choice(MEAS_FILTERS)

    # ---- update arguments ----
    def updspec(self, allow_raise=True):
        r = self.r
        u = {}
        if r.random() < 0.04:
            bad = r.choice([{"time": "chicken"}, {"measurement": 5}, {"tags": {"a": 1}}, {"fields": {"a": "x"}},
                            {"fields": {"a": True}}, {}, {"unset_tags": 5}, {"unset_fields": ("a", 2)}, {"tags": {1: "a"}}])
            return {"invalid": bad}
        n = 0
        if r.random() < 0.25:
            u["time"] = ("static", self.time()) if r.random() < 0.6 else ("call", r.choice([0, 3, 5, 5, 4] + ([1, 2] if allow_raise else [])))
            n += 1
        if r.random() < 0.25:
            u["meas"] = ("static", r.choice(MEAS + ["m3"])) if r.random() < 0.6 else ("call", r.choice([0, 2] + ([1, 3] if allow_raise else [])))
            n += 1
        if r.random() < 0.4:
            if r.random() < 0.6:
                u["tags"] = ("static", {k: r.choice(TAG_VALS) for k in r.sample(TAG_KEYS[:3], r.choice([1, 1, 2]))})
            else:
                u["tags"] = ("call", r.choice([0, 2, 4, 5, 6, 6] + ([1, 3] if allow_raise else [])))
            n += 1
        if r.random() < 0.4 or n == 0:
            if r.random() < 0.6:
                u["fields"] = ("static", {k: r.choice(FIELD_VALS) for k in r.sample(FIELD_KEYS, r.choice([1, 1, 2]))})
            else:
                u["fields"] = ("call", r.choice([0, 2, 4, 6, 6] + ([1, 3, 5] if allow_raise else [])))
        if r.random() < 0.2:
            # ("bad" is a key whose name CONTAINS the keys "a" and "b": unsetting it - given as one string - must leave them alone)
            u["unset_tags"] = r.sample(TAG_KEYS + ["b*", "?", "[ab]", "a.b"], r.choice([1, 1, 2]))        # (a key is a key: "b*" names the key spelled b*, nothing else)
            u["unset_as_str"] = r.random() < 0.5
        if r.random() < 0.2:
            u["unset_fields"] = r.sample(FIELD_KEYS + ["zz", "*", "[ab]", "?"], r.choice([1, 2]))
            u["unset_as_str"] = u.get("unset_as_str", r.random() < 0.5)
        return u

    def selkeys(self):
        r = self.r
        pool = ["time", "measurement"] + [f"tags.{k}" for k in TAG_KEYS[:3] + ["zz", "a.b"]] + [f"fields.{k}" for k in FIELD_KEYS + ["zz", "a.b"]]
        c = r.random()
        if c < 0.12:
            # a key that is not "time" / "measurement" / "tags.<key>" / "fields.<key>" with a non-empty <key>: ValueError
            bad = r.choice(["tags.", "fields."]) if r.random() < 0.5 else r.choice(["fields", "tags", "tag.a", "field.a", "Time", "", "measurement ", " time", "tags_a", "TAGS.a", "fields,a"])
            ks = r.sample(pool, r.choice([0, 1, 2]))
            ks.insert(r.randrange(len(ks) + 1), bad)
            return ks
        if c < 0.19:
            # unusual but valid spellings: the key is whatever follows the first "tags." / "fields."
            odd = r.choice(["tags..", "tags.a.b", "fields. a", "tags.tags.a", "fields.fields.a", "tags. ", "fields.time", "tags.measurement"])
            return r.sample(pool, r.choice([0, 1])) + [odd]
        return r.sample(pool, r.choice([1, 2, 3]))

    # ---- operations ----
    def read_op(self):
        r = self.r
        qreads = ["search", "search", "count", "count", "contains", "get", "select"]
        getters = ["all", "len", "get_measurements", "get_tag_keys", "get_tag_values", "get_field_keys", "get_field_values",
                   "get_timestamps"]
        bias = self.profile.get("getter_bias")
        k = r.choice(qreads + getters) if bias is None else r.choice(getters if r.random() < bias else qreads)
        if k == "search":
            return ("search", self.query(), self.mfilter(), r.random() < 0.5)
        if k in ("count", "contains", "get"):
            return (k, self.query(), self.mfilter())
        if k == "select":
            return ("select", self.selkeys(), self.query(), self.mfilter())
        if k == "all":
            return ("all", r.random() < 0.5)
        if k in ("len", "get_measurements"):
            return (k,)
        if k in ("get_tag_keys", "get_field_keys", "get_timestamps"):
            return (k, self.mfilter())
        if k == "get_tag_values":
            return (k, r.choice([[], [], ["a"], ["a", "zz"], ["k", "b", "k"]]), self.mfilter())
        return ("get_field_values", r.choice(FIELD_KEYS + ["zz"]), self.mfilter())

    def handle_op(self, write_ok=True, allow_raise=True):
        r = self.r
        name = r.choice(MEAS + ["m3"])
        ks = ["len", "iter", "all", "contains", "count", "get", "search", "select", "get_field_keys",
              "get_field_values", "get_tag_keys", "get_tag_values", "get_timestamps"]
        if write_ok:
            ks += ["insert", "remove", "remove_all", "update", "update", "update_all"]
        k = r.choice(ks)
        if r.random() < 0.18:
            # a query that itself speaks about measurements - the handle's own name or another one - as an operand of | / & / ~: the handle's
            # restriction must hold whatever the query already says
            mq = ("S", "meas", [], ("cmp", r.choice(["==", "==", "!="]), ("s", name if r.random() < 0.7 else r.choice(MEAS))))
            other = self.simple(r.choice(["tags", "fields", "time"]))
            q = r.choice([("or", mq, other), ("or", other, mq), ("and", mq, other), ("not", mq), mq, ("or", mq, ("not", other))])
            k2 = r.choice(["count", "search", "get", "contains", "select"] + (["remove", "update"] if write_ok else []))
            if k2 == "search":
                return ("handle", name, (k2, q, r.random() < 0.5))
            if k2 == "select":
                return ("handle", name, (k2, ["measurement", "time"], q))
            if k2 == "update":
                return ("handle", name, (k2, q, {"tags": ("static", {"via": name or "none"})}))
            return ("handle", name, (k2, q))
        if k in ("len", "iter", "get_field_keys", "get_tag_keys", "get_timestamps", "remove_all"):
            h = (k,)
        elif k == "all":
            h = (k, r.random() < 0.5)
        elif k in ("contains", "count", "get", "remove"):
            h = (k, self.query())
        elif k == "search":
            h = (k, self.query(), r.random() < 0.5)
        elif k == "select":
            h = (k, self.selkeys(), self.query())
        elif k == "get_field_values":
            h = (k, r.choice(FIELD_KEYS))
        elif k == "get_tag_values":
            h = (k, r.choice([[], ["a"], ["k", "zz"]]))
        elif k == "insert":
            h = (k, [self.point() for _ in range(r.choice([1, 1, 2]))])
        elif k == "update":
            h = (k, self.query(), self.full_upd(allow_raise))
        else:
            h = (k, self.full_upd(allow_raise))
        return ("handle", name, h)

    def full_upd(self, allow_raise=True):
        """update arguments with a distinct value in most positions (forwarding mix-ups show)"""
        r = self.r
        if r.random() < 0.5:
            return self.updspec(allow_raise)
        return {"time": ("static", self.time()), "meas": ("static", r.choice(MEAS)),
                "tags": ("static", {"a": r.choice(["x", "y"])}), "fields": ("static", {"b": r.choice([1, 2])}),
                "unset_fields": ["a"], "unset_tags": ["b"], "unset_as_str": r.random() < 0.5}

    def write_op(self, csv, allow_raise=True):
        r = self.r
        w = self.profile.get("writes") or {"insert": 4, "insert_multiple": 2, "remove": 3, "drop": 1, "remove_all": 0.5,
                                            "update": 3, "update_all": 1, "reindex": 1, "reopen": 1, "handle": 2}
        ks, ws = zip(*w.items())
        k = r.choices(ks, ws)[0]
        if k == "reopen" and not csv:
            k = "reindex"
        if k == "insert":
            if r.random() < 0.25:
                return ("insert", [self.point(untimed_ok=True)], r.choice([None, None, "m1"]), "compact")
            return ("insert", [self.point(untimed_ok=True)], r.choice([None, None, None, "m1", "m3", ""]))
        if k == "insert_multiple":
            pts = [self.point() for _ in range(r.choice([0, 2, 3, 4]))]
            if r.random() < 0.5:
                pts = sorted(pts, key=lambda p: p["time"])
            if r.random() < 0.25 and allow_raise:
                pts.insert(r.randrange(len(pts) + 1), None)
            return ("insert", pts, r.choice([None, None, "m2"]), "multiple") + (("compact",) if r.random() < 0.25 else ())
        if k == "remove":
            return ("remove", self.query(), self.mfilter())
        if k == "drop":
            return ("drop", r.choice(MEAS + ["m3", ""]))
        if k == "remove_all":
            return ("remove_all",)
        if k == "update":
            return ("update", self.query(), self.updspec(allow_raise), self.mfilter())
        if k == "update_all":
            return ("update_all", self.updspec(allow_raise))
        if k == "reindex":
            return ("reindex",)
        if k == "reopen":
            return ("reopen", r.random() < 0.6)
        return self.handle_op(True, allow_raise)

    # ---- scenarios: short structured openings that put the database into a state the random walk reaches rarely ----
    def battery(self):
        """unfiltered getters and the length: what a valid index must report exactly as a rebuild would"""
        return [("get_tag_keys", None), ("get_tag_values", [], None), ("get_field_keys", None), ("get_measurements",),
                ("get_timestamps", None), ("len",), ("index_valid",)]

    def scenario(self, csv):
        r = self.r
        obs = [("index_valid",), ("iter",)]
        k = r.choice(SCENARIO_DRAW)
        pref = self.profile.get("scenario_pref")
        if pref and r.random() < 0.5:
            k = r.choice(pref)
        k = self.profile.get("scenario_force") or k
        k = os.environ.get("VERIF_SCENARIO") or k          # debugging aid: one scenario in every history that has one
        ops = []
        if k == "ooo_batch":
            # one insert_multiple whose points go backwards inside the batch, then time queries straight away
            pts = self.points_batch(r.choice([3, 4, 6]), in_order=True)
            i, j = r.sample(range(len(pts)), 2)
            pts[i], pts[j] = pts[j], pts[i]
            if r.random() < 0.5:
                ops += [("insert", [self.point(T0 - 5 * SEC)], None)]
            ops += [("insert", pts, None, "multiple")] + obs
            for _ in range(6):
                ops.append(r.choice([("search", self.simple("time"), None, r.random() < 0.5), ("count", self.simple("time"), self.mfilter()),
                                     ("get_timestamps", r.choice([None, "m1"])), ("select", ["time"], self.simple("time"), None)]))
        elif k == "remove_first":
            # remove (through the index) the FIRST stored point(s): every survivor moves down, one of them into slot 0
            pts = self.points_batch(r.choice([4, 5, 7]), in_order=True)
            for i, p in enumerate(pts):
                p["tags"]["city"] = r.choice(["ams", "ber", "cai"])
                p["fields"]["v"] = i + 1
            nfirst = r.choice([1, 1, 2])
            q = ("S", "fields", [("k", "v")], ("cmp", "<=", ("n", nfirst)))
            ops += [("insert", pts, None, "multiple")] + obs + [("remove", q, None)] + obs
            for _ in range(4):
                ops.append(r.choice([("search", ("S", "tags", [("k", "city")], ("cmp", "==", ("s", r.choice(["ams", "ber", "cai"])))), None, False),
                                     ("count", self.simple("tags"), None), ("get_tag_values", ["city"], None), ("search", self.simple("fields"), None, False),
                                     ("select", ["tags.city", "fields.v"], ("S", "tags", [("k", "city")], ("exists",)), None)]))
        elif k == "ooo_then_remove":
            # storage order differs from time order; the rebuilt index then goes through a partial removal; time queries follow
            pts = self.points_batch(r.choice([4, 5, 6]), in_order=True)
            late = self.point(min(p["time"] for p in pts) - r.choice([1, 5]) * SEC)
            for i, p in enumerate(pts + [late]):
                p["tags"]["n"] = "abcdefgh"[i]
            ops += [("insert", pts, None, "multiple"), ("insert", [late], None)] + obs + [("count", ("noop", "tags"), None), ("index_valid",)]
            ops += [("remove", ("S", "tags", [("k", "n")], ("cmp", "==", ("s", r.choice("bcd")))), None)] + obs
            tq = lambda: ("S", "time", [], ("cmp", r.choice(["<", "<=", ">", ">=", "=="]), ("t", r.choice(pts)["time"])))
            ops += [("search", tq(), None, r.random() < 0.5), ("count", tq(), None), ("get_timestamps", None)]
            ops += [("remove", ("S", "time", [], ("cmp", "<", ("t", pts[0]["time"]))), None)] + obs + [("search", tq(), None, False)]
        elif k == "nested_not":
            # negations over compounds that contain a negated field test, in either operand position
            pts = self.points_batch(r.choice([5, 7]), in_order=True)
            ops += [("insert", pts, None, "multiple")] + obs
            f = lambda: ("not", self.simple("fields"))
            t = lambda: self.simple(r.choice(["tags", "meas", "time"]))
            shapes = [lambda: ("not", ("and", t(), f())), lambda: ("and", t(), f()), lambda: ("or", t(), f()), lambda: ("not", ("or", f(), t())),
                      lambda: ("not", f()), lambda: ("and", ("or", t(), t()), ("not", ("and", t(), f()))),
                      lambda: ("not", ("S", "time", [], ("cmp", r.choice(["<", "<=", ">", ">="]), ("t", r.choice(pts)["time"])))),
                      lambda: ("not", ("S", "time", [], ("cmp", r.choice(["<", "<=", ">", ">="]), ("t", r.choice(pts)["time"]))))]
            for _ in range(4):
                q = r.choice(shapes)()
                ops.append(r.choice([("search", q, self.mfilter(), False), ("count", q, None), ("get", q, None)]))
            ops += [("remove", r.choice(shapes)(), r.choice(["m1", "m2", self.mfilter()]))] + obs + [("count", ("noop", "tags"), None)]
            for _ in range(3):
                ops.append(r.choice([("search", self.simple("tags"), None, False), ("count", self.simple("fields"), self.mfilter()), ("get", self.simple("tags"), None),
                                     ("select", ["tags.a", "fields.a"], self.simple("meas"), None)]))
        elif k == "reset_then_time":
            # the database is emptied (three ways), refilled in time order, then asked by time
            pts = self.points_batch(r.choice([2, 3, 4]), in_order=True)
            name = pts[0]["meas"]
            for p in pts:
                p["meas"] = name
            ops += [("insert", pts, None, "multiple")] + obs
            ops += [r.choice([("remove_all",), ("remove", ("noop", "tags"), None), ("drop", name), ("handle", name, ("remove_all",))])] + obs
            t = max(p["time"] for p in pts) + 3600 * SEC
            new = [self.point(t + i * SEC) for i in range(r.choice([2, 3]))]
            ops += [("insert", [p], None) for p in new] + obs
            for c in ["<", "<=", ">", ">=", "==", "!="]:
                ops.append(("count", ("S", "time", [], ("cmp", c, ("t", new[0]["time"]))), None))
            ops += [("search", ("S", "time", [], ("cmp", ">", ("t", new[0]["time"]))), None, False), ("get_timestamps", None)]
        elif k == "getter_memo":
            # per-measurement getters before and after an index-answered partial removal
            pts = self.points_batch(r.choice([5, 6, 8]), in_order=True)
            for i, p in enumerate(pts):
                p["meas"] = ["m1", "m2"][i % 2]
                p["tags"]["own"] = p["meas"] + str(i)
                p["fields"]["pos"] = i
            gets = lambda name: [("get_tag_keys", name), ("get_tag_values", [], name), ("get_field_keys", name), ("get_field_values", "pos", name),
                                 ("get_timestamps", name), ("handle", name, ("get_field_values", "pos")), ("handle", name, ("len",))]
            ops += [("insert", pts, None, "multiple")] + obs + gets("m1") + gets("m2")
            rq = ("S", "fields", [("k", "pos")], ("cmp", r.choice(["<", "=="]), ("n", r.choice([1, 2, 3]))))
            ops += [r.choice([("remove", rq, None), ("remove", ("not", ("not", rq)), r.choice(["m1", "m2"])),
                              ("handle", r.choice(["m1", "m2"]), ("remove", ("not", ("S", "fields", [("k", "pos")], ("cmp", ">=", ("n", r.choice([2, 3, 4])))))))])] + obs
            ops += gets("m1") + gets("m2")
        elif k == "far_sorted":
            # instants after 2255 that differ by one microsecond but are the same double in seconds: datetimes order them, float stamps
            # cannot.  Stored later-first, then ONLY reads that sort datetimes (all(sorted=True) of the database and of a handle) - no time
            # query and no get_timestamps follows (those go through the float stamps of the index: known finding F38)
            base = 10_413_792_000 * SEC + r.randrange(0, 10 ** 6) * SEC         # 2300-01-01 + up to 11 days, a whole second
            d = next(d for d in range(1, 64) if (base + d) / 10 ** 6 == (base + d + 1) / 10 ** 6)
            a, b = self.point(base + d + 1), self.point(base + d)
            a["meas"] = b["meas"] = "m1"
            others = [self.point() for _ in range(r.choice([1, 2]))]
            ops += [("insert", [x], None) for x in others[:1] + [a, b] + others[1:]] + obs + [("count", ("noop", "tags"), None), ("index_valid",)]
            ops += [("handle", "m1", ("all", True)), ("all", True), ("handle", "m1", ("all", False)), ("handle", "m2", ("all", True))]
            self.no_tail = True
        elif k == "handle_sorted":
            # storage order differs from time order, the index is rebuilt by a read, then sorted reads through a handle
            pts = self.points_batch(r.choice([4, 5, 6]), in_order=True)
            r.shuffle(pts)
            ops += [("insert", [p], None) for p in pts] + obs + [("count", ("noop", "tags"), None), ("index_valid",)]
            for name in MEAS:
                ops += [("handle", name, ("all", True)), ("handle", name, ("search", ("noop", "tags"), True)), ("all", True)]
        elif k == "carriers":
            # remove (through the index) every point that carries some tag / field key, while other points stay
            pts = self.points_batch(r.choice([5, 7, 9]), in_order=True)
            kind = r.choice(["tag", "field"])
            key = "zk" if kind == "tag" else "zf"
            for p in r.sample(pts, r.choice([1, 2])):
                if kind == "tag":
                    p["tags"][key] = r.choice(["v", "w"])
                else:
                    p["fields"][key] = r.choice([1, 7])
            q = ("S", "tags", [("k", key)], ("exists",)) if kind == "tag" else ("S", "fields", [("k", key)], ("cmp", ">=", ("n", 0)))
            ops += [("insert", pts, None, "multiple")] + obs
            ops += [r.choice([("remove", q, None), ("remove", q, None), ("handle", r.choice(MEAS), ("remove", q))])] + obs + self.battery()
            ops += [("select", ["tags." + key, "fields." + key, "fields.a"], ("noop", "tags"), None)]
        elif k == "bad_batch":
            # a valid index, then an insert_multiple aborted by a non-Point after at least one good point
            pts = self.points_batch(r.choice([2, 3, 5]), in_order=True)
            ops += [("insert", pts, None, "multiple"), ("reindex",)] + obs
            t = max(p["time"] for p in pts)
            batch = [self.point(t + (i + 1) * SEC) for i in range(r.choice([2, 3]))]
            batch.insert(r.randrange(1, len(batch) + 1), None)
            srt = r.random() < 0.5
            same = r.choice([("noop", "tags"), ("S", "time", [], ("cmp", ">=", ("t", T0 - 100 * SEC))), ("S", "time", [], ("cmp", ">", ("t", t)))])
            ops += [("search", same, None, srt), ("count", same, None)]                       # asked before ...
            ops += [r.choice([("insert", batch, None, "multiple"), ("handle", "m1", ("insert", batch))])] + obs
            ops += [("search", same, None, srt), ("count", same, None)]                       # ... and, word for word, after the aborted batch
            ops += [("count", ("noop", "tags"), None), ("len",), ("get_timestamps", None), ("search", self.simple("tags"), None, False)]
            ops += [("insert", [self.point(t + 10 * SEC)], None)] + obs + [("search", self.simple(), None, False), ("count", self.simple(), None)]
        elif k == "stale_handle":
            # a handle obtained before the database is emptied, used again afterwards
            pts = self.points_batch(r.choice([2, 4]), in_order=True)
            name = r.choice(MEAS)
            ops += [("insert", pts, None, "multiple"), ("handle", name, ("len",)), ("handle", name, ("count", ("noop", "tags")))]
            ops += [r.choice([("remove_all",), ("remove", ("noop", "tags"), None), ("drop", name)])] + obs
            ops += [("handle", name, ("len",)), ("handle", name, ("insert", [self.point(T0 + 50 * SEC)]))] + obs
            ops += [("handle", name, ("len",)), ("handle", name, ("count", ("noop", "tags"))), ("handle", name, ("get_timestamps",)), ("len",)]
        elif k == "torn_update":
            # an update whose callable raises on a later point, then a successful update / remove
            pts = self.points_batch(r.choice([3, 4, 5]), in_order=True)
            for p in pts:
                p["fields"]["a"] = 1
            pts[r.randrange(1, len(pts))]["fields"]["a"] = 2          # fields callable 3 raises when a == 2
            torn = r.choice([{"fields": ("call", 3), "tags": ("static", {"b": "y"})}, {"fields": ("call", 3), "unset_tags": ["a", "k"]},
                             {"fields": ("call", 3), "unset_tags": ["b"], "time": ("static", self.time())},
                             {"fields": ("call", 3), "unset_fields": ["b"], "meas": ("static", "m3")},
                             # callables that EDIT the mapping they are handed (and return it) on the points before the one that fails
                             {"tags": ("call", 6), "fields": ("call", 3)}, {"tags": ("call", 6), "fields": ("call", 3)},
                             {"fields": ("call", 6), "tags": ("call", 3)}])
            if torn.get("tags") == ("call", 3):
                for p in pts:
                    p["tags"].pop("bad", None)
                pts[r.randrange(1, len(pts))]["tags"]["bad"] = "1"          # tags callable 3 raises on this one
            for p in pts:
                p["tags"].setdefault("k", "x")
                p["fields"].setdefault("b", 1)
            ops = [("insert", pts, None, "multiple")] + obs
            ops += [("update_all", torn)] + obs
            ops += [r.choice([("update_all", {"tags": ("static", {"k": "after"})}),
                              ("remove", ("S", "fields", [("k", "a")], ("cmp", "==", ("n", 2))), None),
                              ("update", ("S", "fields", [("k", "a")], ("cmp", "==", ("n", 1))), {"fields": ("static", {"b": 5})}, None)])] + obs
            ops += [("len",), ("count", ("noop", "fields"), None)]
        elif k == "handle_times":
            # storage order differs from time order, index rebuilt, per-measurement timestamps through a handle
            pts = self.points_batch(r.choice([4, 6]), in_order=True)
            r.shuffle(pts)
            ops += [("insert", [p], None) for p in pts] + obs
            ops += [("count", ("noop", "tags"), None), ("index_valid",)]
            for name in r.sample(MEAS, 2):
                ops += [("handle", name, ("get_timestamps",)), ("get_timestamps", name), ("handle", name, ("all", False))]
        elif k == "linebreaks":
            # strings containing line breaks, length answered by storage
            pts = self.points_batch(r.choice([2, 3]), in_order=True)
            for p in pts:
                p["tags"]["nl"] = r.choice(["a\nb", "c\r\nd", "e\rf"])
            ops += [("insert", pts, None, "multiple"), ("insert", [self.point(T0 - 9 * SEC)], None)] + obs + [("len",), ("all", False), ("len",)]
        elif k == "handle_unset":
            # unset_tags / unset_fields through a handle, with keys that exist as a tag only, as a field only, and as both
            pts = self.points_batch(r.choice([3, 4]), in_order=True)
            for i, p in enumerate(pts):
                p["meas"] = "m1" if i % 2 == 0 else "m2"
                p["tags"].update({"only_tag": "t", "both": "x"})
                p["fields"].update({"only_field": 1, "both": 2})
            ops += [("insert", pts, None, "multiple")] + obs
            q = ("S", "tags", [("k", "both")], ("exists",))
            ops += [r.choice([("handle", "m1", ("update", q, {"unset_tags": ["only_tag"]})), ("handle", "m1", ("update_all", {"unset_fields": ["only_field"]})),
                              ("handle", "m2", ("update", q, {"unset_tags": ["both"], "fields": ("static", {"n": 1})})),
                              ("handle", "m1", ("update_all", {"unset_fields": ["both"], "unset_tags": ["only_tag"]}))])] + obs
            ops += [("handle", "m2", ("update_all", {"unset_tags": ["both"]}))] + obs + [("get_tag_keys", None), ("get_field_keys", None), ("get_tag_keys", "m1")]
        elif k == "same_row_twice":
            # a point, an update of it, then a point IDENTICAL to the original (same text in the file): two different stored points
            p0 = self.point(T0 + 5 * SEC)
            p0["tags"]["dup"], p0["fields"]["v"] = "yes", 1
            twin = {"time": p0["time"], "meas": p0["meas"], "tags": dict(p0["tags"]), "fields": dict(p0["fields"])}
            ops += [("insert", [self.point(T0), p0], None, "multiple")] + obs
            ops += [("update", ("S", "tags", [("k", "dup")], ("exists",)), {"tags": ("static", {"dup": "changed"}), "fields": ("static", {"v": 2})}, None)] + obs
            ops += [("insert", [twin], None)] + obs + [("all", False), ("get_tag_values", ["dup"], None), ("get_field_values", "v", None), ("iter",)]
            ops += [(("reopen", r.random() < 0.5) if csv else ("reindex",)), ("all", False), ("get_field_values", "v", None), ("handle", p0["meas"], ("all", False))]
        elif k == "big_ties":
            # a dozen points, several sharing an instant; sparse answers whose storage positions go beyond 8: order among equal instants is
            # insertion order (sorted reads), storage order otherwise
            n = r.choice([10, 12, 14])
            pts = []
            for i in range(n):
                p = self.point(T0 + (i // 3) * SEC)
                p["tags"]["pos"], p["tags"]["grp"], p["fields"]["i"] = str(i), "abc"[i % 3], i
                pts.append(p)
            ops += [("insert", pts, None, "multiple")] + obs
            for _ in range(5):
                q = r.choice([("S", "tags", [("k", "grp")], ("cmp", "==", ("s", r.choice("abc")))),
                              ("or", ("S", "fields", [("k", "i")], ("cmp", "==", ("n", 1))), ("S", "fields", [("k", "i")], ("cmp", ">=", ("n", n - 3)))),
                              ("S", "fields", [("k", "i")], ("cmp", ">", ("n", r.choice([5, 7, 8])))),
                              # two or three positions, one of them 8 or more: among them pairs that share an instant (6, 7, 8 do)
                              ("or", ("S", "fields", [("k", "i")], ("cmp", "==", ("n", r.choice([6, 7])))), ("S", "fields", [("k", "i")], ("cmp", "==", ("n", 8)))),
                              ("or", ("S", "fields", [("k", "i")], ("cmp", "==", ("n", r.choice([1, 2, 3, 5])))), ("S", "fields", [("k", "i")], ("cmp", "==", ("n", r.choice([8, 9]))))),
                              ("or", ("S", "tags", [("k", "pos")], ("cmp", "==", ("s", "7"))), ("or", ("S", "tags", [("k", "pos")], ("cmp", "==", ("s", "8"))),
                                                                                                 ("S", "tags", [("k", "pos")], ("cmp", "==", ("s", "3")))))])
                ops.append(r.choice([("search", q, None, True), ("search", q, None, False), ("select", ["tags.pos", "time"], q, None),
                                     ("handle", r.choice(MEAS), ("search", q, True)), ("get", q, None)]))
        elif k == "fold_twins":
            # comparison values that are EQUAL as datetimes of their zone but different instants (the two readings of a repeated hour), asked
            # one right after the other; points stored at both instants
            import dbmodel as _M
            a, b = r.choice(_M.FOLD_PAIRS)
            pts = self.points_batch(r.choice([3, 4]), in_order=True)
            extra = [self.point(a), self.point(b), self.point(a + 1), self.point(b - 1)]
            allp = sorted(pts + extra, key=lambda p: p["time"]) if r.random() < 0.7 else pts + extra
            ops += [("insert", allp, None, "multiple")] + obs
            tq = lambda c, v: ("S", "time", [], ("cmp", c, ("t", v)))
            for c in r.sample(["==", "!=", "<", "<=", ">", ">="], 3):
                first, second = (a, b) if r.random() < 0.5 else (b, a)
                kind = r.choice(["count", "search", "select"])
                for v in (first, second):
                    ops.append(("count", tq(c, v), None) if kind == "count" else ("search", tq(c, v), None, r.random() < 0.5) if kind == "search"
                               else ("select", ["time"], tq(c, v), None))
            ops += [("count", ("or", tq("==", a), tq("==", b)), None), ("count", ("and", tq(">=", a), tq("<", b)), None),
                    ("search", ("or", ("not", tq("<=", a)), tq("<=", b)), None, True)]
            ops += [("remove", tq("==", r.choice([a, b])), None)] + obs + [("count", tq("==", a), None), ("count", tq("==", b), None), ("get_timestamps", None)]
        elif k == "redate":
            # every insert arrives in time order; then update() moves one point in time (past the newest / before the oldest): sorted reads must
            # follow the new times although nothing was ever inserted out of order
            pts = self.points_batch(r.choice([4, 5, 6]), in_order=True)
            for i, p in enumerate(pts):
                p["time"] = T0 + i * 10 * SEC
                p["tags"]["id"] = str(i)
            ops += [("insert", pts, None, "multiple")] + obs
            which = r.randrange(len(pts))
            newt = r.choice([T0 + 1000 * SEC, T0 - 1000 * SEC, T0 + 15 * SEC, T0 + (len(pts) - 1) * 10 * SEC + 1])
            ops += [("update", ("S", "tags", [("k", "id")], ("cmp", "==", ("s", str(which)))), {"time": ("static", newt)}, None)] + obs
            ops += [("search", ("noop", "tags"), None, True), ("all", True), ("search", ("S", "tags", [("k", "id")], ("exists",)), r.choice([None, "m1"]), True),
                    ("handle", r.choice(MEAS), ("search", ("noop", "tags"), True)), ("handle", r.choice(MEAS), ("all", True)), ("get_timestamps", None),
                    ("select", ["time", "tags.id"], ("noop", "tags"), None)]
        elif k == "same_count":
            # a query is answered by the index, one point is removed and one inserted (the number of points is what it was, every position
            # behind the removed one has shifted), and the same query is used again - for a read, an update or a removal
            pts = self.points_batch(r.choice([4, 5, 6]), in_order=True)
            for i, p in enumerate(pts):
                p["tags"]["site"] = "ab"[i % 2] if i else "b"
                p["tags"]["id"] = str(i)
                p["fields"]["n"] = i
            q = ("S", "tags", [("k", "site")], ("cmp", "==", ("s", "a")))
            ops += [("insert", pts, None, "multiple")] + obs + [r.choice([("count", q, None), ("search", q, None, False), ("contains", q, None)])]
            ops += [("remove", ("S", "tags", [("k", "id")], ("cmp", "==", ("s", str(r.choice([0, 1]))))), None)] + obs
            late = self.point(max(p["time"] for p in pts) + 5 * SEC)
            late["tags"]["site"], late["tags"]["id"], late["fields"]["n"] = r.choice("ab"), "new", 99
            ops += [("insert", [late], None)] + obs
            ops += [r.choice([("update", q, {"fields": ("static", {"hit": 1})}, None), ("remove", q, None), ("search", q, None, False),
                              ("update", q, {"tags": ("static", {"seen": "y"})}, None)])] + obs
            ops += [("count", q, None), ("select", ["tags.id", "fields.n"], q, None), ("count", ("noop", "tags"), None)]
        elif k == "hash_twins":
            # comparison values whose Python hashes coincide (-1 / -2, 0 / 0.0 / False-like, 1 / 1.0): the same shape of query asked with one
            # value and then with the other, between two writes, on both read paths
            pts = self.points_batch(r.choice([4, 6]), in_order=True)
            for i, p in enumerate(pts):
                p["fields"]["level"] = [-1, -2, 0, 1, -1, -2][i % 6]
                p["tags"]["lv"] = ["-1", "-2", "0"][i % 3]
            ops += [("insert", pts, None, "multiple")] + obs
            fq = lambda c, v: ("S", "fields", [("k", "level")], ("cmp", c, ("n", v)))
            for c in r.sample(["==", "<", "<=", ">", "!=", ">="], 3):
                a, b = r.choice([(-1, -2), (-2, -1), (1, 1.0), (0, 0.0)])
                kind = r.choice(["search", "count", "select"])
                for v in (a, b):
                    ops.append(("search", fq(c, v), None, False) if kind == "search" else ("count", fq(c, v), r.choice([None, "m1"])) if kind == "count"
                               else ("select", ["fields.level", "time"], fq(c, v), None))
            ops += [("search", ("and", fq("==", -1), ("S", "tags", [("k", "lv")], ("exists",))), None, False),
                    ("search", ("and", fq("==", -2), ("S", "tags", [("k", "lv")], ("exists",))), None, False),
                    ("count", ("not", fq("==", -1)), None), ("count", ("not", fq("==", -2)), None)]
            # ... and a WRITE selected by the twin of a query just answered (nothing written in between): what the library remembers about
            # one query must not decide what the other removes or updates
            a, b = r.choice([(-1, -2), (-2, -1)])
            c = r.choice(["==", "==", "<=", ">="])
            ops += [r.choice([("count", fq(c, a), None), ("search", fq(c, a), None, False), ("contains", fq(c, a), None)])]
            w = r.random()
            if w < 0.45:
                ops += [("remove", fq(c, b), None)]
            elif w < 0.8:
                ops += [("update", fq(c, b), {"tags": ("static", {"seen": "1"})}, None)]
            else:
                ops += [("handle", "m1", ("count", fq(c, a))), ("handle", "m1", ("remove", fq(c, b)))]
            ops += obs + [("count", fq("==", -1), None), ("count", fq("==", -2), None), ("len",)]
        elif k == "bulk":
            # a database of a few hundred points, sized around powers of two (row counts, survivor counts, posting lists, batches of 128 /
            # 256 / 512): removals that leave exactly 2^k points, updates of the newest rows, per-measurement getters whose newest point
            # carries the key, ties of eight
            n = self.profile.get("bulk_n") or r.choice([131, 259, 260, 260])
            t = T0
            pts = []
            for i in range(n):
                t += 0 if (40 <= i < 47) else SEC                      # eight points share one instant
                meas = "m2" if (i % 7 == 3 or i == n - 1) else "m1"
                p = {"time": t, "meas": meas, "tags": {"g": str(i % 5)}, "fields": {"v": i}}
                if i == n - 1:
                    p["fields"]["w"] = 1
                pts.append(p)
            cut = r.choice([n, 256, 128]) if n > 256 else r.choice([n, 128])
            ops += [("insert", pts[:cut], None, "multiple")] + ([("insert", pts[cut:], None, "multiple")] if cut < n else []) + [("index_valid",), ("len",)]
            fv = lambda c, v: ("S", "fields", [("k", "v")], ("cmp", c, ("n", v)))
            tie_t = pts[40]["time"]
            ops += [("count", fv(">=", n - 3), None), ("count", ("S", "time", [], ("cmp", "<=", ("t", tie_t))), None),
                    ("count", ("S", "time", [], ("cmp", ">", ("t", tie_t))), None), ("count", ("S", "time", [], ("cmp", "==", ("t", tie_t))), "m1"),
                    ("handle", "m2", ("get_field_values", "v")), ("handle", "m2", ("get_field_keys",)), ("handle", "m2", ("get_tag_values", ["g"])),
                    ("handle", "m2", ("get_timestamps",)), ("get_field_keys", "m2"), ("get_tag_keys", "m2")]
            keep = 256 if n > 256 else 128
            ops += [("remove", fv("<", n - keep), None), ("index_valid",), ("len",), ("count", ("noop", "tags"), None),
                    ("count", fv("<", n - keep + 2), None)]
            ops += [("update", fv(">=", n - 2), {"fields": ("static", {"x": 1})}, None), ("index_valid",), ("len",),
                    ("count", ("S", "fields", [("k", "x")], ("cmp", "==", ("n", 1))), None), ("handle", "m2", ("get_field_values", "v")),
                    ("handle", "m2", ("len",))]
            if r.random() < 0.5:
                ops += [("remove", fv(">=", n - 1), None), ("len",), ("handle", "m2", ("get_field_keys",))]
            obs = [("index_valid",)]
        elif k == "nan_fields":
            # NaN is a float like any other to the validators: stored under a field key it is unordered and unequal to everything, itself included;
            # whatever the index sorts or bisects on must not be upset by it
            pts = self.points_batch(r.choice([5, 6, 8]), in_order=True)
            vals = [float("nan"), 1, -2, float("nan"), 0.5, float("inf"), 3, float("-inf")]
            for i, p in enumerate(pts):
                p["fields"]["v"] = vals[i % len(vals)]
                p["meas"] = "m1"
            ops += [("insert", pts, None, "multiple")] + obs
            fv = lambda c, x: ("S", "fields", [("k", "v")], ("cmp", c, ("n", x)))
            for c in ("<", "<=", ">", ">=", "==", "!="):
                x = r.choice([0, 1, 0.5, -2, float("inf")])
                ops.append(r.choice([("count", fv(c, x), None), ("search", fv(c, x), None, False), ("select", ["fields.v"], fv(c, x), None)]))
            ops += [("count", fv("==", float("nan")), None), ("count", fv("!=", float("nan")), None), ("count", fv("<", float("nan")), None),
                    ("count", ("not", fv(">", 0)), None), ("get_field_values", "v", None), ("remove", fv(">=", 1), None)] + obs + [("count", fv("<", 1), None)]
        elif k == "epoch":
            # the newest stored instant is EXACTLY 1970-01-01T00:00:00Z (POSIX timestamp 0.0), then earlier points arrive: zero is a time like any other
            ops += [("insert", [self.point(-3 * SEC + r.choice([0, 250000, 1])), self.point(-1 * SEC - r.choice([0, 300001, 999999])), self.point(0)], None, "multiple")] + obs
            ops += [("insert", [self.point(-2 * SEC)], None), ("index_valid",)]            # (no second late insert here: it would invalidate the index and hide what the first did)
            tq = lambda c, x: ("S", "time", [], ("cmp", c, ("t", x)))
            ops += [("count", tq(">=", 0), None), ("count", tq("==", 0), None), ("count", tq("<", 0), None), ("search", tq("<", -1 * SEC), None, True),
                    ("get_timestamps", None), ("remove", tq(r.choice(["<", "<="]), r.choice([-1 * SEC - 500000, -2 * SEC, -2 * SEC + 1])), None)] + obs + [("count", tq("<=", 0), None),
                    ("remove", tq(">=", r.choice([0, -1, 1])), None)] + obs + [("insert", [self.point(5 * SEC)], None), ("index_valid",), ("count", tq(">", -1), None)]
        elif k == "sparse_write":
            # a dozen or more points; a removal / an update that selects a FEW of them, early and late ones (positions below and above 8, in an order a
            # small set of ints does not iterate in): everything between must stay
            n = r.choice([10, 12, 13, 17, 20])
            pts = self.points_batch(n, in_order=True)
            for i, p in enumerate(pts):
                p["tags"]["pos"] = str(i)
                p["fields"]["pos"] = i
            lo, hi = r.choice([1, 2, 3, 5]), r.choice([8, 9, n - 2, n - 1])
            picks = [lo, hi] + ([r.choice([16, 10, 11][: max(1, n - 10)]) % n] if r.random() < 0.4 else [])
            q = None
            for j in picks:
                a = ("S", "tags", [("k", "pos")], ("cmp", "==", ("s", str(j)))) if r.random() < 0.5 else ("S", "fields", [("k", "pos")], ("cmp", "==", ("n", j)))
                q = a if q is None else ("or", q, a)
            ops += [("insert", pts, None, "multiple")] + obs
            ops += [r.choice([("remove", q, None), ("update", q, {"tags": ("static", {"hit": "1"})}, None), ("remove", q, r.choice(MEAS))])] + obs
            ops += [("count", ("S", "tags", [("k", "hit")], ("exists",)), None), ("len",), ("count", q, None)]
        elif k == "future_untimed":
            # a point dated a fraction of a second in the FUTURE (a forecast), then a point without a time: it receives the time of its insertion
            p1, p2, p3, p4, p5 = (self.point() for _ in range(5))
            p1["time"], p1["rel_now"] = None, r.choice([0.4, 0.6, 0.8])
            p4["time"], p4["rel_now"] = None, r.choice([30.0, 86400.0])
            p2["time"] = p3["time"] = p5["time"] = None
            ops += [("insert", [self.point()], None), ("insert", [p1], None), ("index_valid",), ("insert", [p2], None), ("index_valid",), ("iter",),
                    ("insert", [p3], r.choice([None, "m1"])), ("all", True), ("search", ("S", "time", [], ("cmp", ">", ("t", T0))), None, True), ("index_valid",),
                    ("insert", [p4], None), ("insert", [p5], None), ("get_timestamps", None), ("all", True), ("select", ["time"], ("noop", "tags"), None)]
            # time comparisons with bounds between "now" and the forecasts (the wall clock of the moment the history is generated: the replay file
            # holds the concrete values)
            import time as _time
            g_now = int(_time.time() * 1000000)
            tq = lambda c, x: ("S", "time", [], ("cmp", c, ("t", x)))
            for off in (12 * 3600 * SEC, 20 * SEC, 2 * 86400 * SEC):
                ops += [("count", tq("<", g_now + off), None), ("count", tq(">=", g_now + off), None)]
            ops += [("search", tq("<=", g_now + 3600 * SEC), None, False), ("remove", tq(">", g_now + 3600 * SEC), None), ("len",)]
        elif k == "range_ends":
            # points in the first hours of year 1 and in the last hours of year 9999 (valid instants at the ends of the datetime range; the
            # process may be in any zone), then points in between, in time order: getters, time tests and the validity of the index
            lo = -62135596800 * SEC + r.choice([2, 5, 13]) * 3600 * SEC
            hi = 253402300795 * SEC - r.choice([3, 7, 12]) * 3600 * SEC        # (whole seconds divisible by 5: the harness hands these instants in as UTC datetimes)
            pts = [self.point(lo), self.point(lo + 40 * SEC), self.point(T0), self.point(T0 + SEC)] + ([self.point(hi)] if r.random() < 0.6 else [])
            ops += [("insert", pts[:2], None, "multiple"), ("index_valid",), ("get_timestamps", None), ("count", ("S", "time", [], ("user", 4)), None),
                    ("insert", pts[2:], None, "multiple"), ("index_valid",), ("get_timestamps", None), ("get_timestamps", "m1"),
                    ("count", ("S", "time", [], ("cmp", "<", ("t", T0))), None), ("search", ("S", "time", [], ("user", 4)), None, True),
                    ("insert", [self.point(hi + 3600 * SEC + 5 * SEC)] if len(pts) == 5 else [self.point(T0 + 2 * SEC)], None), ("index_valid",), ("len",)]
        elif k == "noop_compose":
            # filters composed from a noop() base value (`q = noop(); q = q & cond`): noop on the LEFT of & and |, several such queries in a row with
            # no write in between, then a write selected by one of them, then "not equal to an absent instant" (true of everything)
            pts = self.points_batch(r.choice([5, 6, 8]), in_order=True)
            for i, p in enumerate(pts):
                p["tags"]["room"] = ["hall", "lab", "hall", "roof"][i % 4]
            ops += [("insert", pts, None, "multiple")] + obs
            rq = lambda v: ("S", "tags", [("k", "room")], ("cmp", "==", ("s", v)))
            nz = lambda: ("noop", r.choice(["tags", "fields", "time", "meas"]))
            far = ("S", "time", [], ("cmp", "!=", ("t", T0 - 777 * SEC)))
            ops += [("count", ("and", nz(), rq("hall")), None), ("count", ("and", nz(), rq("lab")), None), ("search", ("and", nz(), rq("roof")), None, False),
                    ("count", nz(), None), ("count", far, None), ("count", ("and", far, rq("hall")), None), ("count", far, None), ("count", ("or", nz(), rq("nope")), None),
                    ("count", ("not", ("and", nz(), rq("lab"))), None)]
            ops += [r.choice([("remove", ("and", nz(), rq("hall")), None), ("update", ("and", nz(), rq("lab")), {"tags": ("static", {"seen": "1"})}, None),
                              ("remove", ("not", ("and", nz(), rq("lab"))), None)])] + obs + [("count", nz(), None), ("count", far, None), ("len",)]
        elif k == "substring_names":
            # measurement names of which one is a piece of another ("cpu", "cpu_load", "pu"): every filter and every handle means equality
            names = ["cpu", "cpu_load", "pu", "cpu"]
            pts = self.points_batch(r.choice([6, 8]), in_order=True)
            for i, p in enumerate(pts):
                p["meas"] = names[i % 4]
                p["fields"]["v"] = i
            ops += [("insert", pts, None, "multiple")] + obs
            for name in r.sample(["cpu", "cpu_load", "pu", "load"], 3):
                ops += [("handle", name, ("len",)), ("handle", name, ("count", ("noop", "tags"))), ("count", ("not", ("S", "fields", [("k", "v")], ("cmp", "<", ("n", 0)))), name),
                        ("handle", name, ("get_field_values", "v")), ("get_timestamps", name), ("handle", name, ("search", ("S", "fields", [("k", "v"), ("m", 0)], ("cmp", ">=", ("n", 0))), False))]
            name = r.choice(["cpu_load", "cpu", "pu"])
            ops += [r.choice([("handle", name, ("update_all", {"tags": ("static", {"via": name})})), ("handle", name, ("remove_all",)), ("drop", name),
                              ("handle", name, ("remove", ("not", ("S", "fields", [("k", "v")], ("cmp", "<", ("n", 0))))))])] + obs + [("get_measurements",), ("len",)]
        elif k == "same_size":
            # one long row goes, two short rows come whose text is together exactly as long: the file is back at a size it had before with another
            # number of rows (a row of this shape is 32 characters plus its padding); the length is asked at every stage
            mk = lambda i, pad: {"time": T0 + i * SEC, "meas": "m1", "tags": {"p": "x" * pad}, "fields": {}}
            short = r.choice([3, 4, 7])
            ops += [("insert", [mk(0, 9), mk(1, 32 + 2 * short), mk(2, 9)], None, "multiple"), ("len",), ("index_valid",),
                    ("remove", ("S", "time", [], ("cmp", "==", ("t", T0 + 1 * SEC))), None)] + ([("len",)] if r.random() < 0.3 else []) + [("insert", [mk(3, short)], None),
                    ("insert", [mk(4, short)], None), ("len",), ("handle", "m1", ("len",)), ("get_timestamps", None)]
        elif k == "one_us_late":
            # a point arrives exactly ONE microsecond before the newest indexed one (for several microsecond values: floats carry them inexactly):
            # it is out of order, whatever the index does about it the time comparisons that follow must be those of a rebuild
            t = T0
            ops += [("insert", [self.point(T0 - 100 * SEC)], None)]
            for us in r.sample([333333, 1, 999999, 500001, 123457, 654321, 7, 250000], 4):
                t += 3 * SEC
                a = t + us
                ops += [("insert", [self.point(a)], None), ("count", ("S", "time", [], ("cmp", ">=", ("t", T0))), None), ("index_valid",),
                        ("insert", [self.point(a - 1)], None), ("index_valid",),
                        ("count", ("S", "time", [], ("cmp", "<", ("t", a))), None), ("contains", ("S", "time", [], ("cmp", "==", ("t", a - 1))), None),
                        ("count", ("S", "time", [], ("cmp", "<=", ("t", a - 1))), None), ("get_timestamps", None)]
        elif k == "or_not":
            # disjunctions and conjunctions with ONE negated operand, in both operand orders, answered by the index
            pts = self.points_batch(r.choice([6, 8]), in_order=True)
            ops += [("insert", pts, None, "multiple")] + obs
            atom = lambda: self.simple(r.choice(["tags", "tags", "meas", "time"]))
            for _ in range(4):
                a, b = atom(), atom()
                for q in [("or", a, ("not", b)), ("or", ("not", b), a), ("and", a, ("not", b)), ("or", ("not", a), ("not", b)), ("not", ("or", a, ("not", b)))]:
                    ops.append(r.choice([("count", q, None), ("search", q, None, False), ("count", q, self.mfilter()), ("select", ["time"], q, None)]))
        elif k == "noop_match":
            # an index-answered update that matches SOME rows, the first of which it leaves as they are while later ones change
            pts = self.points_batch(r.choice([5, 6, 8]), in_order=True)
            for i, p in enumerate(pts):
                p["time"] = T0 + i * SEC
                p["tags"]["grp"] = "g" if i >= 1 else "h"
                p["tags"]["seen"] = "1" if i in (1, 2) else "0"
            mid = r.choice([1, 2])
            ops += [("insert", pts, None, "multiple")] + obs
            if r.random() < 0.5:
                ops += [("update", ("S", "tags", [("k", "grp")], ("cmp", "==", ("s", "g"))), {"tags": ("static", {"seen": "1"})}, None)] + obs + [("all", False)]
            ops += [("update", ("S", "time", [], ("cmp", ">=", ("t", pts[mid]["time"]))), {"time": r.choice([("static", pts[mid]["time"]), ("call", 0)])}, None)] + obs
            ops += [("all", False), ("get_timestamps", None), ("count", ("S", "time", [], ("cmp", "==", ("t", pts[mid]["time"]))), None)]
        elif k == "minute_marks":
            # instants on a full minute / a full hour that still carry microseconds, written with compact key prefixes
            pts = []
            for i in range(r.choice([4, 5])):
                base = T0 + r.choice([60, 3600, 86400]) * (i + 1) * SEC
                pts.append(self.point(base + r.choice([1, 999999, 500000, 0, 17])))
            pts.sort(key=lambda p: p["time"])
            ops += [("insert", pts[:2], None, "multiple", "compact"), ("insert", pts[2:], None, "multiple", "compact")] + self.file_obs() + obs + [("all", False), ("get_timestamps", None)]
            for p in pts[:3]:
                ops.append(("count", ("S", "time", [], ("cmp", "==", ("t", p["time"]))), None))
            ops += [(("reopen", r.random() < 0.5) if csv else ("reindex",)), ("all", False), ("get_timestamps", None)]
            for p in pts[:3]:
                ops.append(("count", ("S", "time", [], ("cmp", r.choice(["==", "<=", ">"]), ("t", p["time"]))), None))
        elif k == "none_name":
            # a measurement literally named like the placeholder the file format uses for an EMPTY name: it is a name like any other
            pts = self.points_batch(r.choice([4, 6]), in_order=True)
            for i, p in enumerate(pts):
                p["meas"] = ["_none", "m1", "_none", "none"][i % 4]
            gets = lambda name: [("handle", name, ("len",)), ("handle", name, ("count", ("noop", "tags"))), ("handle", name, ("all", False)), ("count", ("noop", "tags"), name),
                                 ("get_tag_keys", name), ("get_timestamps", name), ("handle", name, ("search", self.simple("tags"), False))]
            ops += [("insert", pts, None, "multiple")] + obs + gets("_none") + [("get_measurements",)]
            ops += [(("reopen", r.random() < 0.5) if csv else ("reindex",))] + gets("_none") + gets("m1") + [("get_measurements",), ("all", False)]
            ops += [("handle", "_none", ("update_all", {"tags": ("static", {"seen": "1"})}))] + obs + gets("_none")
        elif k == "merge_rename":
            # every point of one measurement is renamed - through its handle, by a plain string and nothing else - into a measurement that already has points
            pts = self.points_batch(r.choice([4, 6]), in_order=True)
            for i, p in enumerate(pts):
                p["meas"] = ["m1", "m2"][i % 2]
            gets = lambda name: [("handle", name, ("len",)), ("handle", name, ("count", ("noop", "tags"))), ("handle", name, ("all", False)), ("get_timestamps", name),
                                 ("handle", name, ("get_tag_keys",)), ("count", self.simple("tags"), name)]
            ops += [("insert", pts, None, "multiple")] + obs + [("handle", "m1", ("update_all", {"meas": ("static", "m2")}))] + obs + gets("m2") + gets("m1") + [("get_measurements",), ("len",)]
            ops += [("handle", "m2", ("update", self.simple("tags"), {"fields": ("static", {"z": 1})}))] + obs + gets("m2")
        elif k == "tiny_float_change":
            # a large float field corrected by a tiny relative amount: the content changed, the count must say so and the new value must be stored
            pts = self.points_batch(r.choice([3, 4]), in_order=True)
            for i, p in enumerate(pts):
                p["fields"]["epoch"] = 1700000000.0 + i
                p["fields"]["cal"] = 1000.0
                p["tags"]["grp"] = "g" if i else "h"
            ops += [("insert", pts, None, "multiple")] + obs
            q = ("S", "tags", [("k", "grp")], ("cmp", "==", ("s", "g")))
            ops += [("update", q, {"fields": ("static", {"epoch": 1700000001.0 + len(pts)})}, None)] + obs + [("all", False)]
            ops += [("update_all", {"fields": ("static", {"cal": 1000.0000001})})] + obs + [("all", False), ("get_field_values", "cal", None)]
            ops += [("update_all", {"fields": ("static", {"cal": 1000.0000001})})] + obs
        elif k == "big_ints":
            # integer field values a double cannot tell apart (in memory; on CSV, which stores text read back as float, values a double holds exactly)
            base = 2 ** 52 if csv else 2 ** 62
            pts = self.points_batch(r.choice([4, 5]), in_order=True)
            for i, p in enumerate(pts):
                p["fields"]["trace"] = base + 2 * i if not csv else base + i
                p["tags"]["grp"] = "g" if i else "h"
            ops += [("insert", pts, None, "multiple")] + obs
            fq = lambda c, v: ("S", "fields", [("k", "trace")], ("cmp", c, ("n", v)))
            grp = ("S", "tags", [("k", "grp")], ("cmp", "==", ("s", "g")))
            step = 1 if csv else 2
            # the write first (a proper subset for the index to name), the reads after it
            w = r.choice(["update", "remove", "reads"])
            if w == "update":
                ops += [("update", ("and", fq("==", base + step), grp), {"tags": ("static", {"hit": "1"})}, None)] + obs + [("all", False)]
            elif w == "remove":
                ops += [("remove", ("and", grp, fq("==", base + 2 * step)), None)] + obs + [("all", False)]
            for c, v in [("==", base + step), ("==", base), (">", base), ("!=", base + step), ("<", base + 2 * step)]:
                ops.append(r.choice([("count", fq(c, v), None), ("search", fq(c, v), None, False), ("count", ("and", grp, fq(c, v)), None)]))
            ops += [("update", ("and", grp, fq("==", base + step)), {"tags": ("static", {"hit": "2"})}, None)] + obs + [("all", False)]
            ops += [("remove", fq("==", base + step), None)] + obs + [("count", ("noop", "tags"), None), ("get_field_values", "trace", None)]
        elif k == "redate_remove":
            # an update moves points OUT of the time span the inserts covered; then removals (and reads) selected by time, with bounds in the gap
            pts = self.points_batch(r.choice([4, 5, 6]), in_order=True)
            for i, p in enumerate(pts):
                p["tags"]["n"] = "abcdefgh"[i]
            lo, hi = min(p["time"] for p in pts), max(p["time"] for p in pts)
            ops += [("insert", pts, None, "multiple")] + obs
            later = r.random() < 0.5
            new_t = hi + 100 * SEC if later else lo - 100 * SEC
            ops += [("update", ("S", "tags", [("k", "n")], ("cmp", "==", ("s", r.choice("bc")))), {"time": ("static", new_t)}, None)] + obs
            bound = hi + 50 * SEC if later else lo - 50 * SEC
            tq = ("S", "time", [], ("cmp", ">" if later else "<", ("t", bound)))
            ops += [r.choice([("remove", tq, None), ("remove", ("and", tq, ("S", "tags", [("k", "n")], ("exists",))), None), ("remove", ("S", "time", [], ("cmp", "==", ("t", new_t))), None)])] + obs
            ops += [("count", tq, None), ("all", False), ("get_timestamps", None)]
        elif k == "ne_writes":
            # writes selected by `!=`: a time that is exactly the NEWEST stored instant (held by two points), a field some points hold as None and
            # others not at all - alone and inside &; what `!=` leaves behind must stay
            pts = self.points_batch(r.choice([5, 6]), in_order=True)
            pts[-1]["time"] = pts[-2]["time"]
            for i, p in enumerate(pts):
                p["tags"]["n"] = "abcdefgh"[i]
                p["fields"].pop("v", None)
                if i % 3 != 2:
                    p["fields"]["v"] = [1, None, 2, 1.0, None, 3][i]
            newest = pts[-1]["time"]
            ops += [("insert", pts, None, "multiple")] + obs
            tne = ("S", "time", [], ("cmp", "!=", ("t", r.choice([newest, newest, pts[0]["time"]]))))
            fne = ("S", "fields", [("k", "v")], ("cmp", "!=", ("n", r.choice([1, 1, 7]))))
            has = ("S", "tags", [("k", "n")], ("exists",))
            for q in r.sample([tne, fne], 2):
                q2 = r.choice([q, ("and", q, has), ("and", has, q)])
                ops += [("count", q, None), r.choice([("remove", q2, None), ("update", q2, {"tags": ("static", {"hit": "1"})}, None), ("remove", q2, None)])] + obs + [("all", False)]
                ops += [("insert", pts[:3], None, "multiple")] + obs
            ops += [("count", tne, None), ("count", fne, None), ("search", ("and", fne, tne), None, False)]
        elif k == "line_separators":
            # strings holding the characters str.splitlines() breaks at but the csv module does not (VT, FF, FS, GS, RS, NEL, U+2028, U+2029): they are
            # ordinary characters of a cell; scans, getters, rewrites and a reopen must see the rows whole
            pts = self.points_batch(r.choice([4, 5]), in_order=True)
            seps = ["\x0b", "\x0c", "\x1c", "\x1d", "\x1e", "\x85", "\u2028", "\u2029"]
            for i, p in enumerate(pts):
                a, b = r.sample(seps, 2)
                p["tags"]["note"] = ["east" + a + "wing", a, "x" + a + b + "y", b + "lead", "trail" + a][i % 5]
                p["tags"]["n"] = "abcdefgh"[i]
                if i % 2:
                    p["meas"] = "m" + b + "1"
            ops += [("insert", pts[:2], None, "multiple"), ("insert", pts[2:], None, "multiple")] + self.file_obs() + obs
            ops += [("all", False), ("get_measurements",), ("get_tag_values", ["note"], None), ("len",), ("count", ("S", "tags", [("k", "note")], ("exists",)), None)]
            ops += [(("reopen", r.random() < 0.5) if csv else ("reindex",)), ("len",), ("get_measurements",), ("get_tag_values", [], None), ("all", False)]
            w = r.choice(["a", "b"])
            ops += [("update", ("S", "tags", [("k", "n")], ("cmp", "==", ("s", w))), {"fields": ("static", {"seen": 1})}, None)] + self.file_obs() + obs + [("all", False)]
            ops += [("remove", ("S", "tags", [("k", "n")], ("cmp", "==", ("s", "c"))), None)] + self.file_obs() + obs + [("all", False)]
            if csv:
                ops += [("reopen", True), ("all", False), ("get_tag_values", ["note"], None)]
        elif k == "dotted_keys":
            # tag keys that start with "tags." and field keys that start with "fields." (flattened documents), next to their undotted namesakes:
            # a getter asked for a key answers for exactly that key
            pts = self.points_batch(r.choice([4, 5]), in_order=True)
            for i, p in enumerate(pts):
                p["tags"]["tags.city"], p["tags"]["city"] = "dotted" + str(i % 2), "plain" + str(i % 3)
                p["fields"]["fields.temp"], p["fields"]["temp"] = 100 + i, i
                if i % 2:
                    p["tags"]["tags.tags.x"] = "deep"
                    p["fields"]["fields."] = -1
            ops += [("insert", pts, None, "multiple")] + obs
            reads = [("get_field_values", "fields.temp", None), ("get_field_values", "temp", None), ("get_tag_values", ["tags.city"], None), ("get_tag_values", ["city"], None),
                     ("get_tag_values", ["tags.city", "city"], None), ("get_field_values", "fields.", None), ("get_tag_values", ["tags.tags.x", "tags.x", "x"], None),
                     ("get_field_keys", None), ("get_tag_keys", None), ("handle", pts[0]["meas"], ("get_field_values", "fields.temp")), ("handle", pts[0]["meas"], ("get_tag_values", ["tags.city"]))]
            ops += reads + [(("reopen", False) if csv else ("reindex",))] + reads
        elif k == "front_rows_removed":
            # storage NOT in time order (a late insert, then a rebuild), then a removal - named by tag, through the index - of exactly the FIRST rows of
            # storage, which are not the oldest points: the time arrays must lose those points and no others
            pts = self.points_batch(r.choice([5, 6]), in_order=True)
            for i, p in enumerate(pts):
                p["tags"]["n"] = "abcdefgh"[i]
            order = [pts[3], pts[4]] + pts[:3] + pts[5:]          # rows 0, 1 hold the 4th and 5th oldest instants
            for j, p in enumerate(order):
                p["tags"]["row"] = "front" if j < 2 else "back"
            ops += [("insert", order[:2], None, "multiple"), ("insert", order[2:], None, "multiple"), ("index_valid",), ("get_timestamps", None), ("index_valid",)]
            kq = r.choice([("S", "tags", [("k", "row")], ("cmp", "==", ("s", "front"))), ("S", "tags", [("k", "n")], ("cmp", "==", ("s", "d")))])
            ops += [("remove", kq, None), ("index_valid",), ("get_timestamps", None), ("count", ("S", "time", [], ("cmp", "<=", ("t", pts[2]["time"]))), None),
                    ("search", ("S", "time", [], ("cmp", ">=", ("t", pts[3]["time"]))), None, True), ("count", ("S", "time", [], ("cmp", "==", ("t", pts[4]["time"]))), None),
                    ("all", True), ("iter",)]
        elif k == "raising_test_update":
            # an update (or removal) whose QUERY holds a user test that raises on a later point - after earlier points were already matched and changed:
            # the call raises and the contents are what they were
            pts = self.points_batch(r.choice([4, 5]), in_order=True)
            for i, p in enumerate(pts):
                p["fields"]["a"] = [3, 5, None, 2, 4][i % 5]          # test 1 (x > 0, numbers only) raises on the None
                p["tags"]["n"] = "abcdefgh"[i]
            ops += [("insert", pts, None, "multiple")] + obs
            bad = ("S", "fields", [("k", "a")], ("user", 1))
            q = r.choice([bad, ("not", ("not", bad)), ("and", ("S", "tags", [("k", "n")], ("exists",)), bad)])
            ops += [("update", q, {"fields": ("static", {"a": 9})}, None)] + obs + [("all", False)]
            ops += [("update", ("not", bad), {"tags": ("static", {"hit": "1"})}, None)] + obs + [("all", False)]
            ops += [("remove", r.choice([("not", bad), bad]), None)] + obs + [("all", False), ("get_field_values", "a", None)]
        elif k == "torn_gap":
            # a failing update decided by SCANNING (a negated field test) whose selected rows are not adjacent: a changed point, then a point the query does
            # NOT select, then the point on which the callable raises; also through a handle, with a row of ANOTHER measurement stored first (positions
            # in storage are not positions among the handle's rows) - the contents afterwards are what they were
            pts = self.points_batch(5, in_order=True)
            vals = [1, -5, 1, -7, 2]                                   # fields callable 3 raises when a == 2; the query selects a > 0
            for i, p in enumerate(pts):
                p["fields"]["a"], p["meas"] = vals[i], "m1"
                p["tags"]["n"] = "abcdefgh"[i]
            other = self.point(pts[0]["time"] - SEC)
            other["meas"], other["fields"]["a"] = "m2", 1
            lead = r.random() < 2          # (always: the leading row of another measurement is the point of the handle variants)
            ops += [("insert", ([other] if lead else []) + pts, None, "multiple")] + obs
            q = r.choice([("not", ("S", "fields", [("k", "a")], ("cmp", "<=", ("n", 0)))), ("and", ("not", ("S", "fields", [("k", "a")], ("cmp", "<=", ("n", 0)))), ("S", "tags", [("k", "n")], ("exists",)))])
            torn = r.choice([{"fields": ("call", 3)}, {"fields": ("call", 3), "tags": ("static", {"seen": "1"})}])
            ops += [r.choice([("update", q, torn, "m1"), ("handle", "m1", ("update", q, torn)), ("handle", "m1", ("update_all", torn)), ("update", q, torn, None)])] + obs + [("all", False)]
            ops += [("count", ("S", "fields", [("k", "a")], ("cmp", "==", ("n", 1))), None), ("get_field_values", "a", None), ("handle", "m2", ("all", False))]
            ops += [("handle", "m1", ("update", q, torn))] + obs + [("all", False), ("handle", "m2", ("all", False))]
        elif k == "same_row_text":
            # a point is updated, then a point IDENTICAL to what it was before the update (instant included) is inserted; removals / counts decided by
            # scanning must see the new row as what its text says, not as what an equal text once became
            pts = self.points_batch(r.choice([3, 4]), in_order=True)
            for i, p in enumerate(pts):
                p["fields"]["x"] = i + 1
                p["tags"]["n"] = "abcdefgh"[i]
            ops += [("insert", pts, None, "multiple")] + obs
            first = ("S", "tags", [("k", "n")], ("cmp", "==", ("s", "a")))
            ops += [("update", first, {"fields": ("static", {"x": 50})}, None)] + obs
            ops += [("insert", [dict(pts[0], tags=dict(pts[0]["tags"]), fields=dict(pts[0]["fields"]))], None)] + obs
            scan = ("not", ("S", "fields", [("k", "x")], ("cmp", "!=", ("n", 1))))          # a negated field test: decided by scanning
            ops += [("count", scan, None), ("search", scan, None, False), ("all", False), ("remove", scan, None)] + obs + [("all", False), ("get_field_values", "x", None)]
        elif k == "underscore_keys":
            # tag / field keys with underscores in them, written with compact key prefixes; removals and updates decided by SCANNING (a negated field
            # test is not answered by the index; so is everything when automatic indexing is off)
            pts = self.points_batch(r.choice([4, 6]), in_order=True)
            for i, p in enumerate(pts):
                p["tags"]["room_id"] = "r" + str(i % 3)
                p["tags"]["t_x_y"] = "v"
                p["fields"]["temp_f"] = 70.0 if i % 2 else 60.5
                p["fields"]["f_a_b"] = i
            half = len(pts) // 2
            ops += [("insert", pts[:half], None, "multiple", "compact"), ("insert", pts[half:], None, "multiple", "compact")] + self.file_obs() + obs
            tq = ("S", "tags", [("k", "room_id")], ("cmp", "==", ("s", "r" + str(r.randrange(3)))))
            nf = ("not", ("S", "fields", [("k", "temp_f")], ("cmp", "==", ("n", 70.0))))
            ops += [("count", ("and", tq, nf), None), r.choice([("remove", ("and", tq, nf), None), ("remove", ("and", nf, tq), None), ("remove", ("S", "fields", [("k", "f_a_b")], ("cmp", "<=", ("n", 1))), None)])] + self.file_obs() + obs
            ops += [("update", ("not", ("S", "fields", [("k", "f_a_b")], ("cmp", ">", ("n", 3)))), {"tags": ("static", {"seen_it": "1"})}, None)] + self.file_obs() + obs
            ops += [(("reopen", r.random() < 0.5) if csv else ("reindex",)), ("all", False), ("get_tag_keys", None), ("get_field_keys", None)]
        elif k == "buffered_handle":
            # after every insert the FIRST thing asked is a read through a Measurement handle (or the length) - before any read through the database has
            # touched storage: with flush_on_insert=False the new row may still sit in the writer's buffer, and must be seen all the same
            pts = self.points_batch(r.choice([4, 5, 6]), in_order=True)
            for i, p in enumerate(pts):
                p["meas"] = ["m1", "m2"][i % 2]
            first = lambda name: r.choice([("handle", name, ("all", False)), ("handle", name, ("iter",)), ("handle", name, ("len",)),
                                           ("handle", name, ("count", ("noop", "tags"))), ("len",), ("handle", name, ("all", True))])
            ops += [("insert", pts[:2], None, "multiple"), first("m1"), first("m2")]
            for p in pts[2:]:
                ops += [r.choice([("insert", [p], None), ("handle", p["meas"], ("insert", [p]))]), first(p["meas"]), first(p["meas"])]
            ops += obs + [("handle", "m1", ("all", False)), ("handle", "m2", ("iter",))]
        elif k == "mixed_quoting":
            # a file written over several sessions with different (read-compatible) quoting policies - the driver reopens with QUOTE_ALL every other
            # time: then the NEWEST rows are removed through the index, the rest re-serialised
            a = self.points_batch(r.choice([2, 3]), in_order=True)
            t_last = a[-1]["time"]
            b = self.points_batch(r.choice([2, 3]), in_order=True, start=t_last + SEC)
            c = self.points_batch(2, in_order=True, start=b[-1]["time"] + SEC)
            ops += [("insert", a, None, "multiple")] + self.file_obs()
            if csv:
                ops += [("reopen", True)]
            ops += [("insert", b, None, "multiple")] + self.file_obs()
            if csv:
                ops += [("reopen", True)]
            ops += [("insert", c, None, "multiple"), ("count", ("noop", "tags"), None), ("index_valid",),
                    ("remove", ("S", "time", [], ("cmp", ">=", ("t", r.choice([c[0]["time"], c[-1]["time"], b[-1]["time"]])))), None)] + self.file_obs() + obs
            if csv:
                ops += [("reopen", r.random() < 0.5), ("all", False)]
        elif k == "shared_maps":
            # a batch of points built from ONE tags mapping and ONE fields mapping (the harness hands equal mappings of a batch over as one
            # object): updates of a subset, of all, unsets, and an update that fails part-way must treat every point as having its own
            pts = self.points_batch(r.choice([3, 4, 5]), in_order=True)
            tags, fields = {"site": r.choice(["a", "b"]), "k": "x"}, {"a": r.choice([1, 2]), "b": 1.5}
            for p in pts:
                p["tags"], p["fields"], p["meas"] = dict(tags), dict(fields), "m1"
            ops += [("insert", pts, None, "multiple")] + obs
            tq = ("S", "time", [], ("cmp", r.choice(["<=", "<", ">="]), ("t", pts[len(pts) // 2]["time"])))
            ops += [("update", tq, {"tags": ("static", {"checked": "yes"})}, None)] + obs
            ops += [("update_all", {"fields": ("call", r.choice([0, 2]))})] + obs
            ops += [("update", tq, {"unset_tags": ["k"], "fields": ("static", {"c": 3})}, None)] + obs
            ops += [("update_all", {"tags": ("static", {"z": "1"}), "time": ("call", 4)})] + obs      # fails part-way on some point
            ops += [("update_all", {"tags": ("static", {"z": "1"}), "fields": ("call", r.choice([1, 3]))})] + obs
            ops += [("update", tq, {"unset_fields": ["a"], "tags": ("call", r.choice([0, 2]))}, None)] + obs + self.battery()
        elif k == "odd_strings":
            # keys spelled like the key prefixes of the file format, strings with leading / trailing blanks and quote characters; written in both
            # prefix styles, read back after a reopen, after a rewrite (update) and after another reopen
            pts = self.points_batch(r.choice([3, 4]), in_order=True)
            okeys = ["t_zone", "f_out", "_tag_a", "_field_b", "t", "f", "tt", "ft", "t_", "f_", " k", "k ", "_", "t_t_x", "_tag_t_y", "cle\u0301", "\u212b"]
            ovals = [" x", "x ", " ", "  a  b ", "\tq", "'", "''", '"', "#c", " _none", "_none ", "t_v", "f_v", "=1", "\\", "C:\\temp\\new", "a\\", "a\\,b", "\\\"q",
                     "__none", "___none", "\\_none", "_None", "a\n#b", "a\r\n# b", "\\n", "C:\\new\\readme", "\\r?\\n"]
            for p in pts:
                for key in r.sample(okeys, r.choice([1, 2, 3])):
                    p["tags"][key] = r.choice(ovals)
                for key in r.sample(okeys, r.choice([1, 2])):
                    p["fields"][key] = r.choice([1, 2.5, None, -3])
                if r.random() < 0.4:
                    p["meas"] = r.choice([" m1", "m1 ", "t_m", "f_m", "_tag_", "'m'"])
            if len(pts) >= 3 and r.random() < 0.6:
                # two measurement names that are the same text to a reader but different strings (NFC / NFD): two measurements
                pts[-1]["meas"], pts[-2]["meas"] = "Z\u00fcrich", "Zu\u0308rich"
            if r.random() < 0.6:
                # an instant far outside 1700-2240 (year 999 / 1 / 9999): only its text form in the file is at stake here, no time query follows
                # (whole seconds: beyond 1700-2240 the index's float stamps do not resolve microseconds - known finding F38 - and the reads that
                # follow a scenario may go through the index; the microsecond text of far instants is exercised by C05 on storage alone)
                pts[0]["time"] = r.choice([-30628713600000000, -62135510400000000, 253370764800000000]) + r.randrange(60) * SEC
            half = len(pts) // 2
            ops += [("insert", pts[:half], None, "multiple"), ("insert", pts[half:], None, "multiple", "compact")] + self.file_obs() + obs
            ops += [(("reopen", r.random() < 0.5) if csv else ("reindex",)), ("all", False), ("get_tag_keys", None), ("get_field_keys", None), ("get_measurements",)]
            for name in ("Z\u00fcrich", "Zu\u0308rich"):
                ops += [("handle", name, ("len",)), ("handle", name, ("count", ("noop", "tags"))), ("count", ("noop", "tags"), name), ("handle", name, ("all", False))]
            ops += [("update", ("S", "tags", [("k", r.choice(okeys))], ("exists",)), {"tags": ("static", {"t_new": " v"})}, None)] + self.file_obs() + obs
            ops += [("update_all", {"fields": ("static", {"f_new": 7})})] + self.file_obs() + obs
            ops += [(("reopen", r.random() < 0.5) if csv else ("reindex",)), ("all", False), ("get_tag_values", [], None), ("get_field_keys", None), ("iter",)]
        else:
            # the same instant handed in through different zones; callable producing a non-UTC datetime
            pts = self.points_batch(r.choice([3, 5]), in_order=True)
            ops += [("insert", pts, None, "multiple")] + obs
            ops += [("update", self.simple("time"), {"time": ("call", 5)}, None)] + obs
            ops += [("update_all", {"time": ("static", self.time())})] + obs + [("get_timestamps", None), ("search", self.simple("time"), None, True)]
            # a new time AND a new measurement given by the same call, both as plain values
            ops += [("update", self.simple("time"), {"time": ("static", self.time()), "meas": ("static", r.choice(["m3", "m1"]))}, None)] + obs + [("get_timestamps", None)]
            ops += [("update_all", {"time": ("static", T0 + 77 * SEC), "meas": ("static", "moved")})] + obs + [("get_timestamps", "moved"), ("get_measurements",)]
        return ops

    def file_obs(self):
        """C04: what an independent reader sees in the file (after closing, when inserts are not flushed)"""
        if not self.profile.get("file_obs"):
            return []
        kw = self.profile.get("storage_kwargs") or {}
        if kw.get("flush_on_insert", True):
            return [("file",)]
        return [("reopen", self.r.random() < 0.6), ("file",), ("all", False)]

    def history(self, csv, n_ops=None):
        r = self.r
        ops = []
        if r.random() < (1.0 if os.environ.get("VERIF_SCENARIO") else self.profile.get("p_scenario", 0.35)):
            self.ids = 0
            self.no_tail = False
            ops = self.scenario(csv)
            for _ in range(0 if self.no_tail else r.choice([0, 2, 4])):
                ops.append(self.read_op())
            ops += self.file_obs() + [("all", False), ("len",), ("index_valid",)]
            return ops
        n0 = r.choice([0, 2, 3, 5, 8, 11, 14])
        if r.random() < self.profile.get("p_selective", 0.4):
            self.ids = 1
            n0 = r.choice([6, 9, 10, 12, 14, 17])
        if n0:
            in_order = r.random() < (0.85 if self.ids else 0.7)
            pts = self.points_batch(n0, in_order)
            if r.random() < 0.5:
                ops.append(("insert", pts, None, "multiple"))
            else:
                ops += [("insert", [p], None) for p in pts]
            ops += self.file_obs() + [("index_valid",), ("iter",)]
        n_ops = n_ops or r.choice([4, 6, 8, 12])
        allow_raise = self.profile.get("allow_raise", True)
        for _ in range(n_ops):
            c = r.random()
            if c < self.profile.get("p_write", 0.45):
                ops.append(self.write_op(csv, allow_raise))
                if r.random() < 0.3:
                    # the length, or a read through a handle, asked FIRST after the write - before any other read has touched storage
                    ops.append(r.choice([("len",), ("len",), ("handle", r.choice(MEAS), ("len",)), ("handle", r.choice(MEAS), ("iter",)), ("handle", r.choice(MEAS), ("all", False))]))
                # the file first: reading through the database seeks, which flushes what the handle still buffers
                ops += self.file_obs() + [("index_valid",), ("iter",)]
            elif c < self.profile.get("p_plain", 0.9):
                ops.append(self.read_op())
                if r.random() < 0.3:
                    ops.append(("index_valid",))
            else:
                ops.append(self.handle_op(self.profile.get("handle_writes", False)))
                if self.profile.get("handle_writes"):
                    ops += [("index_valid",), ("iter",)]
        ops += [("all", False), ("len",), ("index_valid",)]
        return ops
