#!/usr/bin/env python3
"""Fail-closed translator: tinyflux/database.py (the PER-POINT UPDATER, the closure `perform_update` built by TinyFlux._generate_updater) -> coq/gen/UpdaterGen.v

The body of perform_update is a sequence of blocks, each guarded by the truth value of one update argument: time, measurement, tags, fields, unset_tags,
unset_fields.  Every block is translated - which argument guards it, which attribute of the point it reads, what it hands to the callable, which
attribute it assigns, how the two mappings are merged (`{**a, **b}` is a updated by b) or filtered - into one step `point -> option point` (None: the
step raised), and the steps are chained IN THE ORDER OF THE SOURCE into `gen_perform_update C u point : ures` (a failing step leaves the earlier steps
applied: UFail).  proofs/UpdaterGenP.v proves it equal to the model's DB.perform_update for every argument record and every point whose mappings
have distinct keys - so the C03 theorems about what an update does to a point are about the updater the source builds now.

By template (checked literally, not translated): `old_point = copy.deepcopy(point)` first and `return point != old_point` last; around a callable, the
try / except ValueError that re-raises ValueError, `assert old_time`, the fresh dict `new_x = {}` filled with `.update(<callable>(old_x))` and passed to
`validate_x` (the callable's result is valid or the step raises: DB.cenv); `if point.time: point.time = point.time.astimezone(timezone.utc)` (instants are
carried in UTC); `drop = ({x} if isinstance(x, str) else x); drop = set(drop)` (a key given as one string is the one-element collection).
Anything else: REFUSED (exit 3), harness/UpdaterGen.fallback.v stands in.
Usage: py2coq_updater.py <path/to/database.py> <out.v>
"""
import ast
import os
import sys

FALLBACK_FILE = os.path.join(os.path.dirname(os.path.abspath(__file__)), "UpdaterGen.fallback.v")
# argument -> (truthiness, projection of updspec, attribute of the point, kind)
ARG = {"time": ("truthy_time", "u_time", "time", "scalar"), "measurement": ("truthy_str", "u_meas", "measurement", "scalar"),
       "tags": ("truthy_dict", "u_tags", "tags", "dict"), "fields": ("truthy_dict", "u_fields", "fields", "dict"),
       "unset_tags": ("truthy_keys", "u_unset_tags", "tags", "unset"), "unset_fields": ("truthy_keys", "u_unset_fields", "fields", "unset")}
ATTR = {"time": ("p_time", "set_time", "c_time"), "measurement": ("p_meas", "set_meas", "c_meas"), "tags": ("p_tags", "set_tags", "c_tags"), "fields": ("p_fields", "set_fields", "c_fields")}


class Refuse(Exception):
    pass


def U(n):
    return ast.unparse(n)


def strip(body):
    return [s for s in body if not (isinstance(s, ast.Expr) and isinstance(s.value, ast.Constant) and isinstance(s.value.value, str))]


def point_attr(e, private=False):
    """point.<attr> (or point._<attr>) -> attr"""
    if isinstance(e, ast.Attribute) and isinstance(e.value, ast.Name) and e.value.id == "point":
        a = e.attr
        if private:
            return a[1:] if a.startswith("_") and a[1:] in ATTR else None
        return a if a in ATTR else None
    return None


def merge(e, cur, names):
    """{**a, **b} with a, b in {point.<attr>} + names -> (coq term, attr read)"""
    if not (isinstance(e, ast.Dict) and len(e.keys) == 2 and e.keys == [None, None]):
        raise Refuse(f"not a two-way merge: `{U(e)}`")
    out, read = [], None
    for v in e.values:
        if point_attr(v):
            read = point_attr(v)
            out.append(f"({ATTR[read][0]} {cur})")
        elif isinstance(v, ast.Name) and v.id in names:
            out.append(names[v.id])
        else:
            raise Refuse(f"merge operand `{U(v)}`")
    return f"(dupdate {out[0]} {out[1]})", read


def is_reraise(h, what=None):
    return isinstance(h, ast.ExceptHandler) and h.type is not None and U(h.type) == "ValueError" and h.name is None and len(h.body) == 1 \
        and isinstance(h.body[0], ast.Raise) and U(h.body[0]).startswith("raise ValueError(")


def block(st, cur):
    """one `if <arg>:` block -> (guard, step term : option point)"""
    if not (isinstance(st, ast.If) and isinstance(st.test, ast.Name) and st.test.id in ARG and not st.orelse):
        raise Refuse(f"a block that is not `if <update argument>:` - `{U(st)[:50]}`")
    arg = st.test.id
    truthy, proj, attr, kind = ARG[arg]
    guard = f"{truthy} ({proj} u)"
    body = strip(st.body)
    if kind == "unset":
        want = [f"drop = {{{arg}}} if isinstance({arg}, str) else {arg}", "drop = set(drop)"]
        if len(body) != 3 or [U(s) for s in body[:2]] != want:
            raise Refuse(f"unset block of `{arg}`: expected the two `drop = ..` statements and one assignment")
        a = body[2]
        if not (isinstance(a, ast.Assign) and len(a.targets) == 1 and point_attr(a.targets[0], private=True) and isinstance(a.value, ast.DictComp)):
            raise Refuse(f"unset block of `{arg}`: `{U(a)[:60]}`")
        wattr = point_attr(a.targets[0], private=True)
        c = a.value
        g = c.generators[0]
        if len(c.generators) != 1 or U(c.key) != "k" or U(c.value) != "v" or U(g.target) != "(k, v)" or [U(i) for i in g.ifs] != ["k not in drop"] \
                or not (isinstance(g.iter, ast.Call) and isinstance(g.iter.func, ast.Attribute) and g.iter.func.attr == "items" and point_attr(g.iter.func.value) and not g.iter.args):
            raise Refuse(f"unset block of `{arg}`: comprehension `{U(c)}`")
        rattr = point_attr(g.iter.func.value)
        if ATTR[rattr][0] != ATTR[wattr][0]:
            raise Refuse(f"unset block of `{arg}`: reads {rattr}, writes {wattr}")
        return guard, f"Some ({ATTR[wattr][1]} {cur} (dict_without ({proj} u) ({ATTR[rattr][0]} {cur})))", arg
    # time / measurement / tags / fields: `if callable(arg): .. else: ..` (+ for time the UTC normalisation)
    if not body or not (isinstance(body[0], ast.If) and U(body[0].test) == f"callable({arg})" and body[0].orelse):
        raise Refuse(f"block of `{arg}` does not start with `if callable({arg}): .. else: ..`")
    rest = body[1:]
    if rest:
        if not (arg == "time" and [U(s) for s in rest] == ["if point.time:\n    point.time = point.time.astimezone(timezone.utc)"]):
            raise Refuse(f"block of `{arg}`: statements after the callable / static branches: `{U(rest[0])[:60]}`")
    cb, sb = strip(body[0].body), strip(body[0].orelse)
    # static branch
    if len(sb) != 1 or not (isinstance(sb[0], ast.Assign) and len(sb[0].targets) == 1):
        raise Refuse(f"static branch of `{arg}`")
    t, v = sb[0].targets[0], sb[0].value
    if kind == "scalar":
        w = point_attr(t)
        if w != attr or not (isinstance(v, ast.Name) and v.id == arg):
            raise Refuse(f"static branch of `{arg}`: `{U(sb[0])}`")
        static = f"Some ({ATTR[w][1]} {cur} v)"
    else:
        w = point_attr(t, private=True)
        m, r = merge(v, cur, {arg: "v"})
        if w != attr or r != attr:
            raise Refuse(f"static branch of `{arg}`: `{U(sb[0])}`")
        static = f"Some ({ATTR[w][1]} {cur} {m})"
    # callable branch
    if kind == "scalar":
        old = f"old_{arg}"
        if len(cb) != 2 or not (isinstance(cb[0], ast.Assign) and U(cb[0].targets[0]) == old and point_attr(cb[0].value)) or not isinstance(cb[1], ast.Try):
            raise Refuse(f"callable branch of `{arg}`")
        rattr = point_attr(cb[0].value)
        tr = cb[1]
        tb = [s for s in strip(tr.body) if U(s) != f"assert {old}"]
        if len(tr.handlers) != 1 or not is_reraise(tr.handlers[0]) or tr.orelse or tr.finalbody or len(tb) != 1 \
                or not (isinstance(tb[0], ast.Assign) and len(tb[0].targets) == 1 and point_attr(tb[0].targets[0]) and U(tb[0].value) == f"{arg}({old})"):
            raise Refuse(f"callable branch of `{arg}`: the try statement")
        wattr = point_attr(tb[0].targets[0])
        if rattr != attr or wattr != attr:
            raise Refuse(f"callable branch of `{arg}`: reads {rattr}, writes {wattr}")
        call = f"option_map (fun v => {ATTR[wattr][1]} {cur} v) ({ATTR[attr][2]} C id ({ATTR[rattr][0]} {cur}))"
    else:
        old, new = f"old_{arg}", f"new_{arg}"
        if len(cb) != 3 or U(cb[0]).split(" = ")[0] != old or not isinstance(cb[1], ast.Try) or not isinstance(cb[2], ast.Assign):
            raise Refuse(f"callable branch of `{arg}`")
        ov = cb[0].value
        if not (isinstance(ov, ast.Call) and U(ov.func) == "copy.deepcopy" and len(ov.args) == 1 and point_attr(ov.args[0])):
            raise Refuse(f"callable branch of `{arg}`: `{U(cb[0])}`")
        rattr = point_attr(ov.args[0])
        tr = cb[1]
        tb = [U(s) for s in strip(tr.body)]
        if len(tr.handlers) != 1 or not is_reraise(tr.handlers[0]) or tr.orelse or tr.finalbody or len(tb) != 3 or not tb[0].startswith(f"{new}:") or not tb[0].endswith("= {}") \
                or tb[1] != f"{new}.update({arg}({old}))" or tb[2] != f"validate_{arg}({new})":
            raise Refuse(f"callable branch of `{arg}`: the try statement {tb}")
        w = point_attr(cb[2].targets[0], private=True)
        m, r = merge(cb[2].value, cur, {new: "v"})
        if rattr != attr or w != attr or r != attr:
            raise Refuse(f"callable branch of `{arg}`: reads {rattr} / {r}, writes {w}")
        call = f"option_map (fun v => {ATTR[w][1]} {cur} {m}) ({ATTR[attr][2]} C id ({ATTR[rattr][0]} {cur}))"
    step = f"match {proj} u with UCall id => {call} | UStatic v => {static} | UNone => Some {cur} end"
    return guard, step, arg


def translate(src):
    tree = ast.parse(src)
    cls = [n for n in tree.body if isinstance(n, ast.ClassDef) and n.name == "TinyFlux"]
    if len(cls) != 1:
        raise Refuse("class TinyFlux not found")
    gu = [n for n in cls[0].body if isinstance(n, ast.FunctionDef) and n.name == "_generate_updater"]
    if len(gu) != 1:
        raise Refuse("_generate_updater not found")
    inner = [n for n in gu[0].body if isinstance(n, ast.FunctionDef)]
    if len(inner) != 1 or inner[0].name != "perform_update" or [a.arg for a in inner[0].args.args] != ["point"]:
        raise Refuse("perform_update(point) not found")
    if U(gu[0].body[-1]) != "return perform_update":
        raise Refuse("_generate_updater does not end with `return perform_update`")
    # the closure's free variables must be the arguments of _generate_updater unchanged: no assignment to them between the checks and the closure, except the tuple() conversion
    for s in gu[0].body:
        if isinstance(s, ast.FunctionDef):
            break
        for n in ast.walk(s):
            if isinstance(n, (ast.Assign, ast.AugAssign, ast.AnnAssign)):
                tg = n.targets if isinstance(n, ast.Assign) else [n.target]
                for t in tg:
                    if isinstance(t, ast.Name) and t.id in ARG and U(n) not in (f"{t.id} = tuple({t.id})",):
                        raise Refuse(f"`{U(n)[:50]}` rebinds an update argument before the updater is built")
    body = strip(inner[0].body)
    if len(body) < 3 or U(body[0]) != "old_point = copy.deepcopy(point)" or U(body[-1]) != "return point != old_point":
        raise Refuse("perform_update does not start with the deep copy / end with `return point != old_point`")
    steps, seen = [], []
    for st in body[1:-1]:
        guard, step, arg = block(st, "point0")
        if arg in seen:
            raise Refuse(f"two blocks for `{arg}`")
        seen.append(arg)
        steps.append((arg, guard, step))
    if set(seen) != set(ARG):
        raise Refuse(f"no block for {sorted(set(ARG) - set(seen))}")
    if seen != list(ARG):
        # (the equivalence proof is written for this order; another order may or may not mean the same - the correspondence decides)
        raise Refuse(f"the blocks come in the order {seen}, not {list(ARG)}")
    out = [HEADER, "Definition refused : bool := false.\n\n", "Section Updater.\nVariable C : cenv.\n\n"]
    for arg, guard, step in steps:
        out.append(f"(* the block `if {arg}:` *)\nDefinition gen_step_{arg} (u : updspec) (point0 : point) : option point :=\n  if {guard} then {step} else Some point0.\n\n")
    out.append("(* the blocks in the order of the source; a step that raises leaves the earlier steps applied *)\nDefinition gen_perform_update (u : updspec) (point0 : point) : ures :=\n")
    for i, (arg, _, _) in enumerate(steps):
        out.append(f"  match gen_step_{arg} u point{i} with\n  | None => UFail point{i}\n  | Some point{i + 1} =>\n")
    out.append(f"  UOk point{len(steps)}\n" + "  " + " ".join("end" for _ in steps) + ".\n\nEnd Updater.\n")
    return "".join(out)


HEADER = """(* GENERATED on every run by harness/py2coq_updater.py from tinyflux/database.py (the closure perform_update of TinyFlux._generate_updater) - do not edit.
   proofs/UpdaterGenP.v proves it the model's DB.perform_update. *)
From Coq Require Import List Bool ZArith NArith.
From TF Require Import Base Query DB UpdaterSem.
Import ListNotations.

"""


def main():
    src, out_path = sys.argv[1], sys.argv[2]
    refused = None
    try:
        text = translate(open(src).read())
    except (Refuse, SyntaxError, OSError) as r:
        refused = str(r)
        snap = open(FALLBACK_FILE).read().replace("Definition refused : bool := false.", "Definition refused : bool := true.")
        text = "(* REFUSED by the translator: " + refused[:140].replace("*", "x").replace("(", "[").replace(")", "]").replace('"', "'") + \
               " - the last verified translation (harness/UpdaterGen.fallback.v) stands in *)\n" + snap
    try:
        old = open(out_path).read()
    except FileNotFoundError:
        old = None
    if old != text:
        open(out_path, "w").write(text)
    if refused:
        print(f"REFUSED per-point updater: {refused}")
    return 3 if refused else 0


if __name__ == "__main__":
    sys.exit(main())
