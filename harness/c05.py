"""C05: every valid Point survives serialization to CSV and back unchanged."""
import csv
import json
import math
import os
import random
import struct
import tempfile
from datetime import datetime, timezone

from common import *  # noqa
import csvtie
import dbmodel as M
import dbgen
import dbtie

ALPHA = csvtie.ALPHA + ["_none", "_tag_", "_field_", "t_", "f_", "tt", "ft", "_t", "é", " ", "\x1c", "\U0001F600"]
KEY_HEADS = ["", "t", "f", "_", "t_", "f_", "_tag_", "_field_", "tf", "ft", "a", "_none", ",", '"', "\n",
             "cafe\u0301", "caf\u00e9", "\u212b", "\u00c5", "\u2126", "\u03a9", "\u1100\u1161", "\\"]          # strings that differ only in their Unicode normal form are different keys
SENTINEL_LIKE = ["\\x_none", "\\_none", "x_none", "_none_", "\\\\a_none", "_None", "__none", "\\", "\\\\", "_none\\", "\\n_none", "none", "_non"]
def _us(y, mo, d, h=0, mi=0, s=0, us=0):
    from datetime import datetime, timezone, timedelta
    return (datetime(y, mo, d, h, mi, s, us, tzinfo=timezone.utc) - datetime(1970, 1, 1, tzinfo=timezone.utc)) // timedelta(microseconds=1)


FAR_INSTANTS = [_us(1, 1, 2), _us(1, 6, 15, 12, 0, 0, 123456), _us(999, 12, 31, 23, 59, 59, 999999), _us(1000, 1, 1), _us(1582, 10, 10),
                _us(2999, 2, 28, 1, 2, 3, 4), _us(9999, 12, 30, 23, 59, 59, 999999)]
EDGE = SENTINEL_LIKE + [" x", "x ", " ", "  ", "\tx", "x\t", '"', '""', "'", "''", 'a"b', "\r", "\n", "\r\n", "x\ny", ",", ";", "|", "\\", "\\n", "#x", "\ufeffx", "=1+1",
        "C:\\temp\\new", "a\\", "a\\,b", "\\\"", "cafe\u0301", "caf\u00e9", "\u212b", "\u00c5", "_none ", " _none", "0", "-1", "1e5", "nan", "inf", "None", "t_x", "f_x", "_tag_x", "_field_x", "t", "f", "_", "é ", " \U0001F600",
        "a\n#b", "x\r\n# y", "\n#", "#\n#", "a\r#b", "\\n", "\\r?\\n", "C:\\new\\readme.txt", "\\nu", "\\\n", "__none", "\\_none"]          # a line break followed by a comment sign; a backslash followed by the letter n or r
DIALECTS = [dict(), dict(), dict(delimiter=";"), dict(delimiter="\t", quotechar="'"), dict(quoting=csv.QUOTE_ALL), dict(delimiter="|", quotechar="'", quoting=csv.QUOTE_ALL),
            dict(lineterminator="\n"), dict(lineterminator="\r"),
            dict(escapechar="\\"), dict(escapechar="\\", quoting=csv.QUOTE_NONE), dict(escapechar="!"), dict(escapechar="\\", doublequote=False)]


def rstr(rng, lo=0, hi=6):
    return "".join(rng.choice(ALPHA) for _ in range(rng.randrange(lo, hi + 1)))


def rkey(rng):
    return rng.choice(KEY_HEADS) + rstr(rng, 0, 3)


def rfloat(rng):
    c = rng.random()
    if c < 0.25:
        return rng.choice([0.0, -0.0, 1.0, -1.0, float("inf"), float("-inf"), 5e-324, -5e-324, 2.2250738585072014e-308, 1.7976931348623157e308,
                           0.1, 1e16, 1e22, 123456789.125, 2.0 ** 53, 2.0 ** 53 + 2, 1 / 3])
    if c < 0.5:
        return rng.choice([0, 1, -1, 7, 10, -255, 2 ** 31, 2 ** 53, -(2 ** 53), 10 ** 15])
    bits = rng.getrandbits(64)
    x = struct.unpack("<d", struct.pack("<Q", bits))[0]
    return 1.5 if math.isnan(x) else x


def rpoint(rng, reserved_ok):
    t = dbgen.T0 + rng.randrange(-8_500_000_000, 6_900_000_000) * 1_000_000 + rng.choice([0, 0, 1, 999999, rng.randrange(1000000)])
    meas = rng.choice(["m", "_default", rstr(rng, 1, 5) or "m", "_none", "t", "f"])
    tags = {}
    for _ in range(rng.choice([0, 1, 1, 2, 3])):
        v = rng.choice([None, "", rstr(rng), rstr(rng, 1, 4), rng.choice(SENTINEL_LIKE)])
        tags[rkey(rng)] = v
    fields = {rkey(rng): (None if rng.random() < 0.15 else rfloat(rng)) for _ in range(rng.choice([0, 1, 1, 2, 3]))}
    p = {"time": t, "meas": meas, "tags": tags, "fields": fields}
    p = finish_point(p, reserved_ok, rng)
    # the model keeps dictionaries sorted by key (key order is not observable through the API); hand the keys over in that order
    p["tags"] = dict(sorted(p["tags"].items()))
    p["fields"] = dict(sorted(p["fields"].items()))
    return p


def finish_point(p, reserved_ok, rng):
    if reserved_ok and rng.random() < 0.5:
        if rng.random() < 0.5:
            p["tags"][rkey(rng)] = "_none"
        else:
            p["meas"] = ""
    elif not reserved_free(p):
        p["tags"] = {k: (None if v == "_none" else v) for k, v in p["tags"].items()}
        p["meas"] = p["meas"] or "m"
    return p


def reserved_free(p):
    return p["meas"] != "" and all(v != "_none" for v in p["tags"].values())


def py_equal(a, b):
    def nf(d):
        return {k: (None if v is None else float(v)) for k, v in d.items()}
    return a["time"] == b["time"] and a["meas"] == b["meas"] and a["tags"] == b["tags"] and nf(a["fields"]) == nf(b["fields"]) \
        and all((v is None) == (b["fields"][k] is None) for k, v in a["fields"].items())


def cell_args(s, i):
    """a cell of the implementation's row, with the readings the oracle pairs of Text.v stand for"""
    from datetime import datetime, timezone
    t = None
    if i == 0:
        try:
            t = M.us_of(datetime.fromisoformat(s).replace(tzinfo=timezone.utc))
        except Exception:
            t = None
    try:
        x = float(s)
        if math.isnan(x):
            x = None
    except Exception:
        x = None
    return f"({M.cstr(s)}, {M.copt(t, M.cz)}, {M.copt(x, M.cnum)})"


COQ_HEAD = """From Coq Require Import List ZArith NArith Bool.
From TF Require Import Base Query Index DB Codec Csv Text Twins Run.
Import ListNotations.
Definition cell_ok (c : cell) (a : str * option Z * option num) : bool :=
  let '(s, t, x) := a in
  match c with CText u => str_eqb u s | CTime z => opt_eqb Z.eqb (Some z) t | CNum y => opt_eqb num_same (Some y) x end.
Fixpoint row_ok (cs : list cell) (row : list (str * option Z * option num)) : bool :=
  match cs, row with [], [] => true | c :: cs', a :: row' => cell_ok c a && row_ok cs' row' | _, _ => false end.
(* (compact, point, the implementation's row, what the implementation decodes that row to) *)
Definition chk (k : bool * point * list (str * option Z * option num) * option point) : bool :=
  let '(c, p, row, back) := k in
  row_ok (ser c p) row && opt_eqb point_same (de (ser c p)) back.
Fixpoint bad (i : nat) (cs : list (bool * point * list (str * option Z * option num) * option point)) : list nat :=
  match cs with [] => [] | c :: r => if chk c then bad (S i) r else i :: bad (S i) r end.
"""


def main(tier, seed):
    ck = Check("C05", tier, seed)
    tf = use_impl()
    rng = random.Random(seed)
    # the serializer is regenerated from point.py and proved equal to the model's (proofs/CodecGenP.v)
    refused = []

    def regen():
        rc, out = sh([PY, str(VERIF / "harness" / "py2coq_codec.py"), str(REPO / "tinyflux" / "point.py"), str(COQ / "gen" / "CodecGen.v")], timeout=60)
        rc2, out2 = sh([PY, str(VERIF / "harness" / "py2coq_decode.py"), str(REPO / "tinyflux" / "point.py"), str(COQ / "gen" / "DecodeGen.v")], timeout=60)
        out = out + out2
        refused.extend(l for l in out.splitlines() if l.startswith("REFUSED"))
    b = ck.build_proofs("Prop_C05", pre=regen, extra_targets=["Run.vo", "Text.vo"])
    n_codec = 1200 if tier == "quick" else 30000
    n_file = 40 if tier == "quick" else 600
    # (1) the csv layer: Csv.v against the standard library's writer and reader
    cres = csvtie.run(ck, rng, 1200 if tier == "quick" else 20000, 1200 if tier == "quick" else 20000)
    # (2) the row codec: Codec.v against Point._serialize_to_list / _deserialize_from_list, and the property stated directly
    cases, direct_bad, seen_rows, stats = [], [], {}, {"reserved": 0, "guarded": 0, "with_none": 0, "compact": 0}
    for i in range(n_codec):
        p = rpoint(rng, reserved_ok=(i % 5 == 0))
        compact = rng.random() < 0.5
        if i % 6 == 1:
            # a tag VALUE that is, letter for letter, a key CELL of this very row (a prefixed field or tag key of the point, in either prefix style; a bare
            # prefix): values sit in value positions - a decoder that looks cells up by their text takes the wrong one.  (A private stream: the draws above
            # stay what they were.)
            r2 = random.Random(seed * 100003 + i)
            own = list(p["fields"]) + list(p["tags"]) + [""]
            val = r2.choice(["_field_", "f_", "_tag_", "t_"] if r2.random() < 0.3 else (["f_", "t_"] if compact else ["_field_", "_tag_"])) + r2.choice(own[:1] + own)
            if not p["fields"]:
                p["fields"] = {val.split("_")[-1] or "v": 1.5}
            p["tags"][r2.choice(list(p["tags"]) + ["src", "zz"])] = val
            p["tags"] = dict(sorted(p["tags"].items()))
            stats["tag_values_that_look_like_key_cells"] = stats.get("tag_values_that_look_like_key_cells", 0) + 1
        rp = M.real_point(tf, dict(p, dt=M.dt_of(p["time"])))          # the codec sees UTC-normalised times (insert normalises)
        row = list(rp._serialize_to_list(compact_key_prefixes=compact))
        try:
            back = M.canon_point(tf.Point()._deserialize_from_list(row))
            back["fields"] = {k: v for k, v in back["fields"].items()}
        except Exception:
            back = None
        cases.append((compact, p, row, back))
        rf = reserved_free(p)
        stats["guarded" if rf else "reserved"] += 1
        stats["compact"] += compact
        stats["with_none"] += any(v is None for v in list(p["tags"].values()) + list(p["fields"].values()))
        if rf:
            why = None
            if back is None:
                why = "the row written for a valid point does not decode"
            elif not py_equal(p, back):
                why = "a valid point does not survive serialisation and deserialisation"
            elif any(type(v) not in (int, float, type(None)) or isinstance(v, bool) for v in back["fields"].values()) or \
                    any(not (v is None or isinstance(v, str)) for v in back["tags"].values()):
                why = "tags/fields come back with another type"
            key = json.dumps(row)
            if why is None and key in seen_rows and not py_equal(seen_rows[key], p):
                why = "two distinct points are written as the same row"
            seen_rows.setdefault(key, p)
            if why and len(direct_bad) < 4:
                direct_bad.append({"kind": "failing-input", "why": why, "point": p, "compact_key_prefixes": compact, "row_written": row, "decoded": back})
    files, mism, evaluated, failed = [], [], 0, list(cres["failed"])
    shard = 300
    for i in range(0, len(cases), shard):
        f = ck.work / f"cases_c05_{i // shard}.v"
        body = ";\n".join(f"({M.cbool(c)}, {M.cpoint(p)}, {M.clist(list(enumerate(row)), lambda ic: cell_args(ic[1], ic[0]))}, {M.copt(back, M.cpoint)})"
                          for c, p, row, back in cases[i:i + shard])
        f.write_text(COQ_HEAD + "Definition cases := [\n" + body + "\n].\nEval vm_compute in (length cases, bad 0 cases).\n")
        files.append((f, i))
    outs = ck.run_case_files([f for f, _ in files])
    for f, base in files:
        rc, out = outs[f]
        nums = parse_nat_list(out) if rc == 0 else None
        if nums is None:
            failed.append((f.name, out[-500:]))
            continue
        evaluated += nums[0]
        mism += [base + k for k in nums[1:]]
    # (3) through a real CSV file: insert, close, reopen, read (several dialects, both prefix styles, mixed in one file)
    file_runs = 0
    for i in range(n_file + len(DIALECTS)):
        kw = rng.choice(DIALECTS) if i >= len(DIALECTS) else DIALECTS[i]
        pts = [rpoint(rng, reserved_ok=False) for _ in range(rng.choice([1, 2, 4]))]
        if i < len(DIALECTS):
            # a fixed battery per dialect: strings a reader option could eat (blanks at either end, quote and escape characters, comment and
            # formula leaders, the key prefixes of the format as keys and values), spread over measurement, tag keys, tag values and field keys
            pts = []
            for j in range(0, len(EDGE), 3):
                e = EDGE[j:j + 3]
                pts.append({"time": dbgen.T0 + j * 1000000, "meas": e[0] if j % 2 == 0 else "m",
                            "tags": dict(sorted({"k": e[0], e[-1]: e[1 % len(e)], "t_" + e[0]: "v"}.items())),
                            "fields": dict(sorted({e[-1]: 1.5, "f_" + e[0]: None, "n": j}.items()))})
        if i < len(DIALECTS):
            # instants far outside the 1700-2240 range of the ordering property: the text form of the time must still round-trip
            for j, us in enumerate(FAR_INSTANTS):
                pts.append({"time": us, "meas": "far", "tags": {"y": str(j)}, "fields": {"n": j}})
        pts = dbtie.sanitize_for(kw, pts)          # known finding F32: the other line-break character under a one-character lineterminator
        d = ck.work / f"file{i}"
        d.mkdir()
        path = str(d / "db.csv")
        db = tf.TinyFlux(path, auto_index=rng.random() < 0.5, **kw)
        for p in pts:
            db.insert(M.real_point(tf, p), compact_key_prefixes=rng.random() < 0.5)
        got_live = None
        if i % 2 == 1:
            # a rewrite on the live object (another point is inserted and removed again), then a read through the same handle
            extra = rpoint(rng, reserved_ok=False)
            extra["tags"], extra["meas"] = {"zz_extra": "1"}, "zz_extra"
            extra = dbtie.sanitize_for(kw, extra)      # (F32 applies to this point's strings as well)
            try:
                db.insert(M.real_point(tf, extra))
                db.remove(tf.MeasurementQuery() == "zz_extra")
                got_live = [M.canon_point(q) for q in db.all(sorted=False)]
            except Exception as e:  # noqa
                got_live = ("raise", type(e).__name__)
        db.close()
        try:
            db2 = tf.TinyFlux(path, **kw)
            try:
                first = db2.all(sorted=False)
                got = [M.canon_point(q) for q in first]
                # what a caller does with returned points is the caller's business: editing them in place must not show in a later read
                for q in first:
                    q.tags["edited-by-caller"] = "x"
                    q.tags.pop(next(iter(q.tags)), None)
                    q.fields["edited-by-caller"] = -1.0
                again = [M.canon_point(q) for q in db2.all(sorted=False)]
                if not isinstance(got, tuple) and again != got and len(direct_bad) < 4:
                    direct_bad.append({"kind": "failing-input", "why": "points returned by a read were edited in place by the caller; a later read of the same database "
                                       "returns the edits instead of what the file holds", "csv_kwargs": {k: str(v) for k, v in kw.items()}, "points": pts,
                                       "first_read": got, "second_read": again})
            finally:
                db2.close()
        except Exception as e:  # noqa
            got = ("raise", type(e).__name__)
        file_runs += 1
        same = lambda g: not isinstance(g, tuple) and len(g) == len(pts) and all(py_equal(a, x) for a, x in zip(pts, g))
        ok = same(got) and (got_live is None or same(got_live))
        if not ok and len(direct_bad) < 4:
            direct_bad.append({"kind": "failing-input", "why": "points written to a CSV database and read back after reopening differ", "csv_kwargs": {k: str(v) for k, v in kw.items()},
                               "points": pts, "read_back": got, "read_on_the_live_object_after_a_rewrite": got_live})
    # (3a) consecutive points with the SAME set of keys handed over in a DIFFERENT insertion order (a dict remembers its order), with other values:
    # every key keeps its own value, in both prefix styles, with four keys and more
    order_runs = 0
    for style in (False, True, None):
        for nkeys in (2, 4, 5, 7):
            d = ck.work / f"order{order_runs}"
            d.mkdir()
            path = str(d / "db.csv")
            keys = ["k%d" % j for j in range(nkeys)]
            pts, reals = [], []
            for i in range(4):
                order = list(keys)
                rng.shuffle(order)
                if i == 1:
                    order = list(reversed(pts[0]["_order"]))
                tags = {k: f"{k}-v{i}" for k in order}
                fields = {k: float(10 * i + int(k[1:])) for k in reversed(order)}
                pts.append({"time": dbgen.T0 + i * 1000000, "meas": "m", "tags": dict(sorted(tags.items())), "fields": dict(sorted(fields.items())), "_order": order})
                reals.append(tf.Point(time=M.zoned_dt(dbgen.T0 + i * 1000000), measurement="m", tags=tags, fields=fields))
            try:
                db = tf.TinyFlux(path)
                for i, rp in enumerate(reals):
                    db.insert(rp, compact_key_prefixes=(style if style is not None else i % 2 == 0))
                live = [M.canon_point(q) for q in db.all(sorted=False)]
                db.close()
                db2 = tf.TinyFlux(path)
                try:
                    got = [M.canon_point(q) for q in db2.all(sorted=False)]
                finally:
                    db2.close()
            except Exception as e:  # noqa
                got = live = ("raise", type(e).__name__)
            order_runs += 1
            want = [{k: v for k, v in p.items() if k != "_order"} for p in pts]
            same2 = lambda g: not isinstance(g, tuple) and len(g) == len(want) and all(py_equal(a, x) for a, x in zip(want, g))
            if not (same2(got) and same2(live)) and len(direct_bad) < 4:
                direct_bad.append({"kind": "failing-input", "why": "points with the same keys in another insertion order, written one after the other and read back, differ",
                                   "compact_key_prefixes": style, "points": want, "key_orders": [p["_order"] for p in pts], "read_back": got, "read_on_the_live_object": live})
    # (3c) the storage option newline="\n" (no translation of line ends by the text layer, like the default ""): strings holding CR, LF, CRLF - alone,
    # at the end of the last cell, in keys and in the measurement - written, read on the live object, after a rewrite, and after reopening
    nl_runs = 0
    for style in (False, True):
        d = ck.work / f"nl{nl_runs}"
        d.mkdir()
        path = str(d / "db.csv")
        texts = ["ready\r", "a\rb", "a\nb", "a\r\nb", "\r", "\n", "plain", "x\r\r\ny", "\r\n"]
        pts = [{"time": dbgen.T0 + i * 1000000, "meas": ("m\r" if i == 4 else "m"), "tags": dict(sorted({"k": v, ("z\rk" if i == 2 else "z"): texts[-1 - i]}.items())),
                "fields": {"n": float(i)}} for i, v in enumerate(texts)]
        got = live = after_rewrite = None
        try:
            db = tf.TinyFlux(path, newline="\n")
            try:
                for p in pts:
                    db.insert(M.real_point(tf, p), compact_key_prefixes=style)
                live = [M.canon_point(q) for q in db.all(sorted=False)]
                db.update(tf.FieldQuery().n == 0.0, fields={"n": 0.5})
                after_rewrite = [M.canon_point(q) for q in db.all(sorted=False)]
            finally:
                db.close()
            db2 = tf.TinyFlux(path, newline="\n")
            try:
                got = [M.canon_point(q) for q in db2.all(sorted=False)]
            finally:
                db2.close()
        except Exception as e:  # noqa
            got = ("raise", type(e).__name__, str(e)[:100])
        nl_runs += 1
        want2 = [dict(p, fields={"n": 0.5}) if i == 0 else p for i, p in enumerate(pts)]
        same3 = lambda g, w: g is not None and not isinstance(g, tuple) and len(g) == len(w) and all(py_equal(a, x) for a, x in zip(w, g))
        if not (same3(live, pts) and same3(after_rewrite, want2) and same3(got, want2)) and len(direct_bad) < 4:
            direct_bad.append({"kind": "failing-input", "why": "points with line breaks in their strings, written to a CSV database opened with newline='\\n' and read back, differ",
                               "storage_kwargs": {"newline": "\n"}, "compact_key_prefixes": style, "points": pts, "read_on_the_live_object": live,
                               "read_after_an_update": after_rewrite, "read_back_after_reopening": got, "file": open(path, newline="").read()[:600] if os.path.exists(path) else None})
    stats["newline_option_round_trips"] = nl_runs
    # (3b) the same round trip with the PROCESS in another time zone (the file holds UTC wall-clock text; nothing may depend on the local zone)
    import time as _time
    old_tz = os.environ.get("TZ")
    try:
        for tzname in ("America/Los_Angeles", "Asia/Kathmandu", "Australia/Lord_Howe"):
            os.environ["TZ"] = tzname
            _time.tzset()
            d = ck.work / f"tz{file_runs}"
            d.mkdir()
            path = str(d / "db.csv")
            pts = [rpoint(rng, reserved_ok=False) for _ in range(4)] + [{"time": _us(2021, 11, 7, 8, 30), "meas": "fold", "tags": {}, "fields": {"n": 1}},
                                                                        {"time": _us(2021, 3, 14, 10, 30), "meas": "gap", "tags": {}, "fields": {"n": 2}}]
            try:
                db = tf.TinyFlux(path)
                try:
                    for p in pts:
                        db.insert(M.real_point(tf, p), compact_key_prefixes=rng.random() < 0.5)
                    live = [M.canon_point(q) for q in db.all(sorted=False)]
                finally:
                    db.close()
            except Exception as e:  # noqa  writing valid points and reading them on the live object must not fail
                live = ("raise", type(e).__name__)
            try:
                db2 = tf.TinyFlux(path)
                try:
                    got = [M.canon_point(q) for q in db2.all(sorted=False)]
                finally:
                    db2.close()
            except Exception as e:  # noqa  reading back what was just written must not fail
                got = ("raise", type(e).__name__)
            file_runs += 1
            same = lambda g: not isinstance(g, tuple) and len(g) == len(pts) and all(py_equal(a, x) for a, x in zip(pts, g))
            if not (same(got) and same(live)) and len(direct_bad) < 4:
                direct_bad.append({"kind": "failing-input", "why": f"with the process in time zone {tzname}, points written to a CSV database and read back differ",
                                   "TZ": tzname, "points": pts, "read_back": got, "read_on_the_live_object": live})
    finally:
        if old_tz is None:
            os.environ.pop("TZ", None)
        else:
            os.environ["TZ"] = old_tz
        _time.tzset()
    # (4) several CSV databases with DIFFERENT csv options open at the same time, written alternately: the options belong to the database
    for a_kw, b_kw in ((DIALECTS[0], DIALECTS[2]), (DIALECTS[3], DIALECTS[0]), (DIALECTS[5], DIALECTS[2])):
        d = ck.work / f"pair{file_runs}"
        d.mkdir()
        pa, pb = str(d / "a.csv"), str(d / "b.csv")
        dba = tf.TinyFlux(pa, **a_kw)
        pts_a = [{"time": dbgen.T0 + i, "meas": "it's; a,b", "tags": {"q": "x;y,z'\""}, "fields": {"n": float(i)}} for i in range(2)]
        pts_b = [{"time": dbgen.T0 + 10 + i, "meas": "b|m", "tags": {"q": "'semi;colon'", "r": "a,b"}, "fields": {"n": float(i)}} for i in range(2)]
        dba.insert(M.real_point(tf, pts_a[0]))
        dbb = tf.TinyFlux(pb, **b_kw)                       # the second database is opened while the first is live
        dbb.insert(M.real_point(tf, pts_b[0]))
        dba.insert(M.real_point(tf, pts_a[1]))
        dbb.insert(M.real_point(tf, pts_b[1]))
        try:
            live_a = [M.canon_point(q) for q in dba.all(sorted=False)]
        except Exception as e:  # noqa
            live_a = ("raise", type(e).__name__)
        dba.close()
        dbb.close()
        got = {}
        for nm, path, kw in (("first", pa, a_kw), ("second", pb, b_kw)):
            try:
                db2 = tf.TinyFlux(path, **kw)
                try:
                    got[nm] = [M.canon_point(q) for q in db2.all(sorted=False)]
                finally:
                    db2.close()
            except Exception as e:  # noqa
                got[nm] = ("raise", type(e).__name__)
        file_runs += 1
        same = lambda g, pts: not isinstance(g, tuple) and len(g) == len(pts) and all(py_equal(a, x) for a, x in zip(pts, g))
        if not (same(got["first"], pts_a) and same(got["second"], pts_b) and same(live_a, pts_a)) and len(direct_bad) < 4:
            direct_bad.append({"kind": "failing-input", "why": "two CSV databases with different csv options were open at the same time and written alternately; "
                               "after reopening, one of them does not give back its points",
                               "csv_kwargs_first": {k: str(v) for k, v in a_kw.items()}, "csv_kwargs_second": {k: str(v) for k, v in b_kw.items()},
                               "points_first": pts_a, "points_second": pts_b, "read_back_first": got["first"], "read_back_second": got["second"], "first_read_while_both_open": live_a})
    # verdicts
    for name, tail in failed:
        ck.violation({"kind": "model-evaluation-failed", "what_no_longer_checks": name, "log": tail}, no_input=True)
    # strings that are instances of a str SUBCLASS whose str() / format() is not their text (a member of `class Unit(str, Enum)`, a subclass with
    # its own __str__): valid measurements, keys and tag values like any other string - the file holds their text, and they read back as it
    from enum import Enum as _Enum

    class _Unit(str, _Enum):
        ON = "on"
        DEG = "deg C"

    class _Loud(str):
        def __str__(self):
            return self.upper() + "!"

        def __format__(self, spec):
            return "<" + str.__str__(self) + ">"
    text = lambda x: str.__str__(x)
    sub_checked = 0
    for compact in (False, True):
        for kw in ({}, {"delimiter": ";"}):
            d = tempfile.mkdtemp(dir=str(ck.work))
            path = os.path.join(d, "db.csv")
            pts = [tf.Point(time=datetime(2020, 1, 1, 0, 0, k, tzinfo=timezone.utc), measurement=m, tags={tk: tv, "plain": "x"}, fields={fk: 1.5})
                   for k, (m, tk, tv, fk) in enumerate([(_Unit.ON, _Unit.DEG, _Unit.ON, _Unit.DEG), (_Loud("m"), _Loud("key"), _Loud("val"), _Loud("f")), ("m", "k", _Unit.DEG, "f")])]
            want = [(text(p.measurement), {text(a): (None if b is None else text(b)) for a, b in p.tags.items()}, {text(a): b for a, b in p.fields.items()}) for p in pts]
            db = tf.TinyFlux(path, **kw)
            try:
                db.insert_multiple(pts, compact_key_prefixes=compact)
                db.close()
                db = tf.TinyFlux(path, **kw)
                got = [(p.measurement, dict(p.tags), dict(p.fields)) for p in db.all()]
                n_upd = db.update(tf.TagQuery().plain == "x", tags={"more": _Unit.ON})
                db.close()
                db = tf.TinyFlux(path, **kw)
                got2 = [(p.measurement, {a: b for a, b in p.tags.items() if a != "more"}, dict(p.fields), p.tags.get("more")) for p in db.all()]
            except Exception as e:  # noqa
                got, got2, n_upd = f"raised {type(e).__name__}: {e}"[:200], None, None
            finally:
                try:
                    db.close()
                except Exception:  # noqa
                    pass
            sub_checked += 1
            if (got != want or got2 != [w + ("on",) for w in want]) and len(direct_bad) < 4:
                direct_bad.append({"kind": "failing-input", "why": "strings that are instances of a str subclass whose str() is not their text (a str-mixin enum member, a subclass with its own "
                                   "__str__ / __format__) do not survive the CSV round trip as their text", "compact_key_prefixes": compact, "csv_kwargs": kw,
                                   "text_of_the_points (measurement, tags, fields)": want, "read_back": got, "read_back_after_an_update": got2,
                                   "file": open(path, newline="").read()[:600] if os.path.exists(path) else None})
    stats["str_subclass_round_trips"] = sub_checked
    if direct_bad:
        ck.violation(dict(direct_bad[0], more=direct_bad[1:]))
    elif mism:
        c, p, row, back = cases[mism[0]]
        ck.violation({"kind": "correspondence-broken", "what_no_longer_checks": "correspondence Codec.v ser/de (theorems C05_*) vs Point._serialize_to_list/_deserialize_from_list",
                      "point": p, "compact_key_prefixes": c, "implementation_row": row, "implementation_decodes_to": back, "disagreeing_cases": len(mism)}, no_input=True)
    elif cres["bad"]:
        kind, kw, rows, text, parsed = cres["bad"][0]
        ck.violation({"kind": "correspondence-broken", "what_no_longer_checks": "correspondence Csv.v (theorems C05_csv_*) vs the standard library's csv writer/reader",
                      "dialect": {k: str(v) for k, v in kw.items()}, "rows": rows, "text": text, "stdlib_parses_to": parsed}, no_input=True)
    if not b["ok"]:
        ck.violation({"kind": "proof-broken", "what_no_longer_checks": f"Prop_C05.v {b['theorems']} (or the definitions regenerated from point.py)", "log": b["log"][-1500:],
                      "forbidden": b["forbidden"], "translator_refused": refused}, no_input=True)
    for f in load_known_findings():
        if f.get("status") == "known" and "C05" in f.get("properties", []) and f.get("repro"):
            rc, out = sh([PY, str(VERIF / "findings" / "repro.py"), f["repro"]], env=impl_env(), timeout=120)
            if "DEFECT" in out:
                ck.known_finding(f"{f['id']}: {f['what']}")
    ck.cov = {
        "obligations": b["obligations"], "discharged": b["discharged"],
        "checker_cmd": "make -C /verif/coq Prop_C05.vo Text.vo Run.vo; Print Assumptions per theorem; ser/de and csv_write/csv_read evaluated with vm_compute",
        "trusted_base": TRUSTED_BASE_COMMON + [
            "hand models Codec.v (row codec), Text.v (text of time / number cells: oracle pairs with round-trip hypotheses), Csv.v (stdlib csv for the excel dialect family), tied by correspondence",
            "float repr / float(), datetime.isoformat / fromisoformat, the csv module: standard-library behaviour, modelled not verified",
            "Print Assumptions: " + json.dumps(b["assumptions"])],
        "theorems": b["theorems"], "forbidden_tokens_found": b["forbidden"],
        "translator": {"source": "tinyflux/point.py: Point._serialize_to_list -> coq/gen/CodecGen.v (regenerated on this run, symbolic evaluation into a normal form)",
                       "refused": refused, "equivalence_theorem": "gen_serialize_eq"},
        "evaluations": len(cases) + len(cres["cases"]) + file_runs,
        "distinct_nontrivial": len({json.dumps(r) for c, p, r, bk in cases if p["tags"] and p["fields"]}),
        "rule": "random points over an adversarial alphabet (delimiters, quotes, CR, LF, NUL, the reserved words, keys starting with t f _ and empty keys), "
                "floats from raw bit patterns and special values, ints up to 2**53, microsecond instants 1750-2238, both key-prefix styles: the row written by the "
                "implementation is compared cell by cell with the model's, its decoding with the model's, and the property is checked directly (equality, types, "
                "injectivity over the run); csv text for random rows and raw texts over 6 dialects is compared with the model's writer and reader; points are "
                "also taken through a real CSV file and a reopened database; non-trivial = the point has both tags and fields; distinct by written row",
        "codec_cases": len(cases), "codec_model_rows_checked": evaluated, "csv_cases": len(cres["cases"]), "csv_model_cases_checked": cres["evaluated"],
        "file_round_trips": file_runs, "point_classes": stats,
        "traces_validated_against_impl": evaluated + cres["evaluated"],
        "samples": [{"point": cases[0][1], "row": cases[0][2]}],
    }
    return ck.finish(level="proof", extra_assumptions=["NaN field values are outside the property (nan != nan); cells longer than csv.field_size_limit are known finding F23"])
