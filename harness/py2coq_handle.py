#!/usr/bin/env python3
"""Fail-closed translator: tinyflux/measurement.py (the forwarding methods of Measurement) + the signatures of
tinyflux/database.py -> coq/gen/HandleGen.v

A Measurement handle forwards almost every call to the database with its own name as the measurement filter.  Which
database method is called, and which argument lands in which parameter, is read from the source on every run:

  * each forwarding method must consist (after its docstring) of exactly `return self._db.<method>(<args>)`;
  * its own parameters must be the documented ones, in the documented order, with the documented defaults;
  * every argument is a parameter of the method, `self._name`, or `<X>Query().noop()`;
  * positional and keyword arguments are bound to the parameter NAMES of the database method as database.py declares them;
    a parameter left unbound takes its declared default (None / True / False only).

Anything else is refused (exit 3; the hand-written table DB.restrict stands in and the check reports the refusal in its
evidence: the tie is then the correspondence check alone).
The generated `forward name h : option op` is proved equal to the model's forwarding in proofs/HandleGenP.v.

Usage: py2coq_handle.py <path/to/tinyflux> <out.v>
"""
import ast
import sys


class Refuse(Exception):
    pass


UPD = ["time", "measurement", "tags", "fields", "unset_fields", "unset_tags"]
UPD_PROJ = {"time": "u_time", "measurement": "u_meas", "tags": "u_tags", "fields": "u_fields", "unset_fields": "u_unset_fields", "unset_tags": "u_unset_tags"}

# Measurement method -> (hop pattern, [(parameter, binder or "U", declared default or NODEF)])
class _NoDefault:
    def __repr__(self):
        return "<required>"


NODEF = _NoDefault()
M_METHODS = {
    "contains": ("HContains q", [("query", "q", NODEF)]),
    "count": ("HCount q", [("query", "q", NODEF)]),
    "get": ("HGet q", [("query", "q", NODEF)]),
    "search": ("HSearch q srt", [("query", "q", NODEF), ("sorted", "srt", True)]),
    "select": ("HSelect ks q", [("keys", "ks", NODEF), ("query", "q", NODEF)]),
    "get_field_keys": ("HGetFieldKeys", []),
    "get_field_values": ("HGetFieldValues k", [("field_key", "k", NODEF)]),
    "get_tag_keys": ("HGetTagKeys", []),
    "get_tag_values": ("HGetTagValues ks", [("tag_keys", "ks", [])]),
    "get_timestamps": ("HGetTimestamps", []),
    "insert": ("HInsert ps", [("point", "ps", NODEF)]),
    "insert_multiple": ("HInsert ps", [("points", "ps", NODEF)]),
    "remove": ("HRemove q", [("query", "q", NODEF)]),
    "remove_all": ("HRemoveAll", []),
    "update": ("HUpdate q u", [("query", "q", NODEF)] + [(p, "U", None) for p in UPD]),
    "update_all": ("HUpdateAll u", [(p, "U", None) for p in UPD]),
}
# database method -> (op constructor, [slot]) ; a slot is a parameter name, or "UPD" (the update arguments as one record)
D_METHODS = {
    "contains": ("Contains", ["query", "measurement"]),
    "count": ("Count", ["query", "measurement"]),
    "get": ("Get", ["query", "measurement"]),
    "search": ("Search", ["query", "measurement", "sorted"]),
    "select": ("Select", ["select_keys", "query", "measurement"]),
    "get_field_keys": ("GetFieldKeys", ["measurement"]),
    "get_field_values": ("GetFieldValues", ["field_key", "measurement"]),
    "get_tag_keys": ("GetTagKeys", ["measurement"]),
    "get_tag_values": ("GetTagValues", ["tag_keys", "measurement"]),
    "get_timestamps": ("GetTimestamps", ["measurement"]),
    "insert": ("Insert", ["point", "measurement"]),
    "insert_multiple": ("Insert", ["points", "measurement"]),
    "remove": ("Remove", ["query", "measurement"]),
    "drop_measurement": ("DropMeas", ["name"]),
    "update": ("Update", ["query", "UPD", "_measurement"]),
}
OPT_MEAS = {"measurement", "_measurement"}        # parameters of type Optional[str]: self._name arrives as (Some name)
IGNORED_WHEN_DEFAULT = {"compact_key_prefixes": False}   # not part of the model's operations; must stay at its default
NOOP = {"MeasurementQuery": "AMeas", "TimeQuery": "ATime", "TagQuery": "ATags", "FieldQuery": "AFields"}


def const(e):
    if e is None:
        return NODEF
    if isinstance(e, ast.Constant):
        return e.value
    if isinstance(e, ast.List) and not e.elts:
        return []
    raise Refuse(f"unsupported default {ast.dump(e)}")


def signature(fn):
    a = fn.args
    if a.vararg or a.kwarg or a.kwonlyargs or a.posonlyargs:
        raise Refuse(f"{fn.name}: unexpected kind of parameter")
    names = [x.arg for x in a.args]
    if not names or names[0] != "self":
        raise Refuse(f"{fn.name}: no self")
    defaults = [None] * (len(names) - len(a.defaults)) + list(a.defaults)
    return [(n, const(d)) for n, d in zip(names[1:], defaults[1:])]


def body_of(fn):
    body = list(fn.body)
    if body and isinstance(body[0], ast.Expr) and isinstance(body[0].value, ast.Constant) and isinstance(body[0].value.value, str):
        body = body[1:]
    return body


def translate(mfn, dsigs):
    name = mfn.name
    pat, params = M_METHODS[name]
    if mfn.decorator_list:
        raise Refuse(f"{name}: decorated")
    sig = signature(mfn)
    want = [(p, d) for p, _, d in params]
    if [(p, (NODEF if d is NODEF else d)) for p, d in sig] != want:
        raise Refuse(f"{name}: parameters {sig} are not the documented {want}")
    binder = {p: b for p, b, _ in params}
    body = body_of(mfn)
    if len(body) != 1 or not isinstance(body[0], ast.Return) or not isinstance(body[0].value, ast.Call):
        raise Refuse(f"{name}: body is not a single `return self._db.<method>(...)`")
    call = body[0].value
    f = call.func
    if not (isinstance(f, ast.Attribute) and isinstance(f.value, ast.Attribute) and f.value.attr == "_db"
            and isinstance(f.value.value, ast.Name) and f.value.value.id == "self"):
        raise Refuse(f"{name}: does not call a method of self._db")
    target = f.attr
    if target not in D_METHODS or target not in dsigs:
        raise Refuse(f"{name}: forwards to unknown database method {target}")
    dsig = dsigs[target]
    dnames = [n for n, _ in dsig]
    bound = {}
    if any(isinstance(a, ast.Starred) for a in call.args) or any(k.arg is None for k in call.keywords):
        raise Refuse(f"{name}: star arguments")
    if len(call.args) > len(dnames):
        raise Refuse(f"{name}: too many positional arguments for {target}")
    for pn, a in zip(dnames, call.args):
        bound[pn] = a
    for k in call.keywords:
        if k.arg not in dnames or k.arg in bound:
            raise Refuse(f"{name}: bad keyword {k.arg} for {target}")
        bound[k.arg] = k.value

    def value(e, slot):
        """argument expression -> ("term", coq) | ("upd", parameter of the handle method)"""
        if isinstance(e, ast.Name):
            if e.id not in binder:
                raise Refuse(f"{name}: unknown name {e.id}")
            return ("upd", e.id) if binder[e.id] == "U" else ("term", binder[e.id])
        if isinstance(e, ast.Attribute) and e.attr == "_name" and isinstance(e.value, ast.Name) and e.value.id == "self":
            return ("term", "(Some name)" if slot in OPT_MEAS else "name")
        if isinstance(e, ast.Call) and not e.args and not e.keywords and isinstance(e.func, ast.Attribute) and e.func.attr == "noop" \
                and isinstance(e.func.value, ast.Call) and not e.func.value.args and not e.func.value.keywords \
                and isinstance(e.func.value.func, ast.Name) and e.func.value.func.id in NOOP:
            return ("term", f"(QNoop {NOOP[e.func.value.func.id]})")
        raise Refuse(f"{name}: unsupported argument {ast.dump(e)}")

    def default_term(pn):
        d = dict(dsig)[pn]
        if d is None and pn in OPT_MEAS:
            return "None"
        if d is True:
            return "true"
        if d is False:
            return "false"
        raise Refuse(f"{name}: parameter {pn} of {target} left unbound (default {d!r})")

    for pn, dv in IGNORED_WHEN_DEFAULT.items():
        if pn in bound:
            raise Refuse(f"{name}: passes {pn}")
        if pn in dict(dsig) and dict(dsig)[pn] != dv:
            raise Refuse(f"{target}: default of {pn} changed")
    ctor, slots = D_METHODS[target]
    covered = set()
    args = []
    for slot in slots:
        if slot == "UPD":
            comps = []
            for pn in UPD:
                covered.add(pn)
                if pn not in bound:
                    raise Refuse(f"{name}: update argument {pn} not forwarded")
                kind, v = value(bound[pn], pn)
                if kind != "upd":
                    raise Refuse(f"{name}: update argument {pn} is not one of the handle's update arguments")
                comps.append(f"({UPD_PROJ[v]} u0)")
            args.append("(option_map (fun u0 : updspec => mkUpd " + " ".join(comps) + ") u)")
            continue
        covered.add(slot)
        if slot not in dnames:
            raise Refuse(f"{target}: parameter {slot} no longer exists")
        if slot in bound:
            kind, v = value(bound[slot], slot)
            if kind != "term":
                raise Refuse(f"{name}: an update argument flows into {slot}")
            args.append(v)
        else:
            args.append(default_term(slot))
    extra = set(dnames) - covered - set(IGNORED_WHEN_DEFAULT)
    if extra:
        raise Refuse(f"{target}: parameters {sorted(extra)} are not part of the model")
    return pat, f"{ctor} " + " ".join(args), target


HEADER = """(* GENERATED on every run by harness/py2coq_handle.py from tinyflux/measurement.py and the signatures of
   tinyflux/database.py - do not edit.  proofs/HandleGenP.v proves `forward` equal to the model's forwarding
   (Prop_C10.restrict / DB.handle_step): which database operation a handle method becomes, argument by argument. *)
From Coq Require Import List Bool.
From TF Require Import Base Query Index DB.
Import ListNotations.

"""


def generate(pkg):
    mtree = ast.parse(open(f"{pkg}/measurement.py").read())
    dtree = ast.parse(open(f"{pkg}/database.py").read())
    mcls = [n for n in mtree.body if isinstance(n, ast.ClassDef) and n.name == "Measurement"]
    dcls = [n for n in dtree.body if isinstance(n, ast.ClassDef) and n.name == "TinyFlux"]
    if len(mcls) != 1 or len(dcls) != 1:
        raise Refuse("class Measurement / TinyFlux not found")
    mfns = {n.name: n for n in mcls[0].body if isinstance(n, ast.FunctionDef)}
    dsigs = {}
    for n in dcls[0].body:
        if isinstance(n, ast.FunctionDef) and n.name in D_METHODS:
            dsigs[n.name] = signature(n)
    lines, multi, targets = [], None, {}
    for m in M_METHODS:
        if m not in mfns:
            raise Refuse(f"Measurement.{m} not found")
        pat, term, target = translate(mfns[m], dsigs)
        targets[m] = target
        if m == "insert_multiple":
            multi = term
            if target != "insert_multiple":
                raise Refuse("insert_multiple does not forward to insert_multiple")
            continue
        if m == "insert" and target != "insert":
            raise Refuse("insert does not forward to insert")
        lines.append(f"  | {pat} => Some ({term})")
    text = HEADER + "Definition forward (name : str) (h : hop) : option op :=\n  match h with\n" + "\n".join(lines) + \
        "\n  | HLen | HIter | HAll _ => None      (* not forwarders: they filter the stored rows themselves *)\n  end.\n\n" + \
        "(* Measurement.insert_multiple (the model has one insert operation for both) *)\n" + \
        f"Definition forward_insert_multiple (name : str) (ps : list (option point)) : op := {multi}.\n"
    return text, targets


FALLBACK = """(* REFUSED by the translator: %s - the hand-written table stands in (the check reports the refusal;
   the tie is then the correspondence check alone) *)
Definition forward (name : str) (h : hop) : option op := restrict name h.
Definition forward_insert_multiple (name : str) (ps : list (option point)) : op := Insert ps (Some name).
"""


def main():
    pkg, out_path = sys.argv[1], sys.argv[2]
    refused = None
    try:
        text, _ = generate(pkg)
    except (Refuse, SyntaxError, OSError) as r:
        refused = str(r)
        text = HEADER + FALLBACK % refused[:120].replace("*", "x").replace("(", "[").replace(")", "]").replace('"', "'")
    try:
        old = open(out_path).read()
    except FileNotFoundError:
        old = None
    if old != text:
        open(out_path, "w").write(text)
    if refused:
        print(f"REFUSED handle forwarding: {refused}")
    return 3 if refused else 0


if __name__ == "__main__":
    sys.exit(main())
