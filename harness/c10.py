"""C10: decided on the database-level Coq model (DB.v) — theorems in coq/Prop_C10.v, tie by correspondence."""
from common import *  # noqa
import dbtie

PROFILE = {'scenario_pref': ['buffered_handle', 'none_name', 'merge_rename', 'odd_strings', 'substring_names', 'substring_names', 'handle_unset', 'stale_handle', 'getter_memo', 'handle_sorted', 'far_sorted', 'handle_times'], 'p_write': 0.3, 'p_plain': 0.5, 'handle_writes': True, 'writes': {'insert': 3, 'insert_multiple': 1, 'remove': 1, 'drop': 1, 'remove_all': 0.3, 'update': 1, 'reindex': 0.5, 'reopen': 0.5, 'handle': 5}}


def main(tier, seed):
    # which database operation each handle method becomes is regenerated from measurement.py / database.py and proved
    # equal to the model's forwarding table (proofs/HandleGenP.v)
    refused = []

    def regen():
        rc, out = sh([PY, str(VERIF / "harness" / "py2coq_handle.py"), str(REPO / "tinyflux"), str(COQ / "gen" / "HandleGen.v")], timeout=60)
        refused.extend(l for l in out.splitlines() if l.startswith("REFUSED"))
        # len(handle) and iteration over a handle (and over the database) are compiled from measurement.py / database.py (proofs/DbGetGenP.v)
        run_translator("py2coq_index.py", "tinyflux/index.py", "gen/IndexGen.v", refused)
        run_translator("py2coq_dbget.py", "tinyflux", "gen/DbGetGen.v", refused)
    return dbtie.db_check("C10", tier, seed, PROFILE, 650, 6000, "Prop_C10",
                          "user callables and re are an environment the theorems quantify over; the tie instantiates them with the twin table",
                          pre=regen, extra_cov={"translator": {"source": "tinyflux/measurement.py (forwarding methods) + signatures of tinyflux/database.py -> coq/gen/HandleGen.v (regenerated on this run)",
                                                               "refused": refused, "equivalence_theorem": "gen_forward_eq"}})

