"""C10: decided on the database-level Coq model (DB.v) — theorems in coq/Prop_C10.v, tie by correspondence."""
from common import *  # noqa
import dbtie

PROFILE = {'scenario_also': ['dotted_keys'], 'scenario_pref': ['buffered_handle', 'none_name', 'merge_rename', 'odd_strings', 'substring_names', 'substring_names', 'handle_unset', 'stale_handle', 'getter_memo', 'handle_sorted', 'far_sorted', 'handle_times'], 'p_write': 0.3, 'p_plain': 0.5, 'handle_writes': True, 'writes': {'insert': 3, 'insert_multiple': 1, 'remove': 1, 'drop': 1, 'remove_all': 0.3, 'update': 1, 'reindex': 0.5, 'reopen': 0.5, 'handle': 5}}


def direct_handle_alone(ck, tf):
    """a Measurement handle is the view of its database for as long as the caller holds the HANDLE: `TinyFlux(..).measurement(name)` kept from a
    function, `del db`, a rebound name - inserts through it, its length, iteration and reads answer as the restricted database does"""
    import gc
    from datetime import datetime, timedelta, timezone
    t0 = datetime(2022, 5, 1, tzinfo=timezone.utc)
    bad = []
    for csv in (False, True):
        def make():
            if csv:
                d = ck.work / "alone"
                d.mkdir(exist_ok=True)
                db = tf.TinyFlux(str(d / "db.csv"))
            else:
                db = tf.TinyFlux(storage=tf.storages.MemoryStorage)
            db.insert(tf.Point(time=t0, measurement="other", fields={"v": 0}))
            return db.measurement("cpu")
        h = make()
        gc.collect()
        got = []
        try:
            h.insert(tf.Point(time=t0 + timedelta(seconds=1), tags={"k": "x"}, fields={"v": 1}))
            h.insert_multiple([tf.Point(time=t0 + timedelta(seconds=2), fields={"v": 2})])
            got = [len(h), len(h.all()), sum(1 for _ in h), h.count(tf.FieldQuery().v >= 1), h.get_field_values("v"), [p.measurement for p in h.all()]]
        except Exception as e:  # noqa
            got = [type(e).__name__, str(e)[:120]]
        want = [2, 2, 2, 2, [1, 2], ["cpu", "cpu"]]
        if got != want:
            bad.append({"storage": "csv" if csv else "memory", "got": got, "want [len(h), len(h.all()), points iterated, count(v >= 1), get_field_values('v'), measurements]": want})
    for item in bad[:1]:
        ck.violation({"kind": "failing-input", "why": "a handle obtained as TinyFlux(..).measurement('cpu') - the caller keeps the handle, not the database object - "
                      "does not answer as the restricted database", "steps": "db = TinyFlux(..); db.insert(Point(measurement='other')); h = db.measurement('cpu'); del db; "
                      "gc.collect(); h.insert(p1); h.insert_multiple([p2]); reads through h", **item})
    return {"handle_kept_without_its_database_checked": 2}


def main(tier, seed):
    # which database operation each handle method becomes is regenerated from measurement.py / database.py and proved
    # equal to the model's forwarding table (proofs/HandleGenP.v)
    refused = []

    def regen():
        rc, out = sh([PY, str(VERIF / "harness" / "py2coq_handle.py"), str(REPO / "tinyflux"), str(COQ / "gen" / "HandleGen.v")], timeout=60)
        refused.extend(l for l in out.splitlines() if l.startswith("REFUSED"))
        # len(handle) and iteration over a handle (and over the database) are compiled from measurement.py / database.py (proofs/DbGetGenP.v)
        run_translator("py2coq_index.py", "tinyflux/index.py", "gen/IndexGen.v", refused)
        run_translator("py2coq_dbget.py", "tinyflux", "gen/DbGetGen.v", refused)
    return dbtie.db_check("C10", tier, seed, PROFILE, 650, 6000, "Prop_C10",
                          "user callables and re are an environment the theorems quantify over; the tie instantiates them with the twin table",
                          pre=regen, direct=direct_handle_alone, extra_cov={"translator": {"source": "tinyflux/measurement.py (forwarding methods) + signatures of tinyflux/database.py -> coq/gen/HandleGen.v (regenerated on this run)",
                                                               "refused": refused, "equivalence_theorem": "gen_forward_eq"}})

