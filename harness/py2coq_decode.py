#!/usr/bin/env python3
"""Fail-closed translator: tinyflux/point.py (Point._deserialize_from_list) -> coq/gen/DecodeGen.v

Reading a row back is two loops over (key cell, value cell) pairs: the tag loop sniffs the key's prefix by character position
(`row[i][1] == "t"` -> strip the default prefix, `row[i][0] == "t"` -> strip the compact one, else hand over to the field loop), turns
the sentinel into None; the field loop strips the field prefix and reads the value as int, float or None.  The translator checks the
skeleton of the function (time and measurement cells, two `while i < row_len` loops that advance by 2, the final assignments) and
translates what the loops DECIDE:

   gen_tag_key k      : option (option str)   None = IndexError, Some None = not a tag key (break), Some (Some key)
   gen_tag_value v    : option str            the sentinel becomes None
   gen_field_key k    : option str            None = IndexError
   gen_field_is_int   : how a value is recognised as an integer (over the primitives is_digits / first character / tail)
   the class constants (sentinel, four key prefixes) as the source spells them.

proofs/DecodeGenP.v proves these equal to what Codec.de_tags / de_fields / Text.tag_key compute, for every string.
Accepted fragment: exactly the shapes named above; anything else: REFUSED (exit 3), the last verified translation stands in.
Usage: py2coq_decode.py <path/to/point.py> <out.v>
"""
import ast
import os
import sys

CONSTS = ["_none_str", "_default_tag_key_prefix", "_default_field_key_prefix", "_compact_tag_key_prefix", "_compact_field_key_prefix"]
FALLBACK_FILE = os.path.join(os.path.dirname(os.path.abspath(__file__)), "DecodeGen.fallback.v")


class Refuse(Exception):
    pass


def strlit(s):
    return "[" + "; ".join(str(ord(c)) for c in s) + "]%N" if s else "(@nil N)"


def strip_doc(body):
    body = list(body)
    while body and isinstance(body[0], ast.Expr) and isinstance(body[0].value, ast.Constant) and isinstance(body[0].value.value, str):
        body = body[1:]
    return body


class Tr:
    def __init__(self, fn, consts):
        self.fn, self.consts = fn, consts
        if [a.arg for a in fn.args.args] != ["self", "row"]:
            raise Refuse("unexpected signature")

    # ---- expressions over the key cell k = row[i] and the value cell v = row[i + 1] -----------------
    def is_row_i(self, e):
        return isinstance(e, ast.Subscript) and ast.unparse(e) == "row[i]"

    def is_row_i1(self, e):
        return isinstance(e, ast.Subscript) and ast.unparse(e) == "row[i + 1]"

    def char_test(self, e, cellname="k"):
        """row[i][n] == "c"  ->  (n, coq code point)"""
        if isinstance(e, ast.Compare) and len(e.ops) == 1 and isinstance(e.ops[0], ast.Eq) and isinstance(e.left, ast.Subscript) \
                and self.is_row_i(e.left.value) and isinstance(e.left.slice, ast.Constant) and isinstance(e.left.slice.value, int) \
                and not isinstance(e.left.slice.value, bool) and e.left.slice.value >= 0 \
                and isinstance(e.comparators[0], ast.Constant) and isinstance(e.comparators[0].value, str) and len(e.comparators[0].value) == 1:
            return e.left.slice.value, ord(e.comparators[0].value)
        raise Refuse(f"unsupported key test {ast.unparse(e)}")

    def strip_prefix(self, e):
        """row[i][len(self.<const>):]  ->  coq term"""
        if isinstance(e, ast.Subscript) and self.is_row_i(e.value) and isinstance(e.slice, ast.Slice) and e.slice.upper is None and e.slice.step is None \
                and isinstance(e.slice.lower, ast.Call) and ast.unparse(e.slice.lower.func) == "len" and len(e.slice.lower.args) == 1:
            a = e.slice.lower.args[0]
            if isinstance(a, ast.Attribute) and isinstance(a.value, ast.Name) and a.value.id == "self" and a.attr in self.consts:
                return f"(skipn (length {a.attr.lstrip('_')}) k)"
            if isinstance(a, ast.Constant) and isinstance(a.value, str):
                return f"(skipn {len(a.value)} k)"
        if isinstance(e, ast.Subscript) and self.is_row_i(e.value) and isinstance(e.slice, ast.Slice) and e.slice.upper is None and e.slice.step is None \
                and isinstance(e.slice.lower, ast.Constant) and isinstance(e.slice.lower.value, int) and e.slice.lower.value >= 0:
            return f"(skipn {e.slice.lower.value} k)"
        raise Refuse(f"unsupported key expression {ast.unparse(e)}")

    def key_chain(self, stmt, target, allow_break):
        """if/elif/else chain assigning `target` from the key cell -> coq term : option (option str)"""
        if isinstance(stmt, ast.If):
            n, c = self.char_test(stmt.test)
            then = self.key_branch(stmt.body, target, allow_break)
            if len(stmt.orelse) == 1 and isinstance(stmt.orelse[0], ast.If):
                els = self.key_chain(stmt.orelse[0], target, allow_break)
            else:
                els = self.key_branch(stmt.orelse, target, allow_break)
            return f"(match nth_error k {n} with None => None | Some c => if N.eqb c {c}%N then {then} else {els} end)"
        raise Refuse("expected an if / elif / else chain on the key cell")

    def key_branch(self, body, target, allow_break):
        body = [s for s in body if not (isinstance(s, ast.Expr) and isinstance(s.value, ast.Constant))]
        if len(body) == 1 and isinstance(body[0], ast.Break) and allow_break:
            return "(Some None)"
        if len(body) == 1 and isinstance(body[0], ast.Assign) and len(body[0].targets) == 1 and ast.unparse(body[0].targets[0]) == target:
            return f"(Some (Some {self.strip_prefix(body[0].value)}))"
        raise Refuse(f"unsupported branch of the key chain: {[ast.unparse(s)[:50] for s in body]}")

    def run(self):
        body = strip_doc(self.fn.body)
        src = [ast.unparse(s) for s in body]
        # skeleton: time, measurement, empty mappings, length, i = 2, two loops, four assignments, return self
        want_head = ["p_time = datetime.fromisoformat(row[0]).replace(tzinfo=timezone.utc)", "p_measurement = row[1]"]
        if src[:2] != want_head:
            raise Refuse(f"time / measurement cells are not read as expected: {src[:2]}")
        loops = [s for s in body if isinstance(s, ast.While)]
        if len(loops) != 2 or any(ast.unparse(l.test) not in ("i < row_len", "i < len(row)") or l.orelse for l in loops):
            raise Refuse("expected two `while i < row_len` loops")
        pre = [ast.unparse(s) for s in body[2:body.index(loops[0])]]
        norm = lambda l: sorted(x.replace(": TagSet", "").replace(": FieldSet", "") for x in l)
        if norm(pre) != norm(["p_tags = {}", "p_fields = {}", "row_len = len(row)", "i = 2"]) or body.index(loops[1]) != body.index(loops[0]) + 1:
            raise Refuse(f"unexpected statements before / between the loops: {pre}")
        tail = [ast.unparse(s) for s in body[body.index(loops[1]) + 1:]]
        if tail != ["self._time = p_time", "self._measurement = p_measurement", "self._tags = p_tags", "self._fields = p_fields", "return self"]:
            raise Refuse(f"unexpected tail {tail}")
        out = []
        # ---- tag loop
        tb = [s for s in loops[0].body if not (isinstance(s, ast.Expr) and isinstance(s.value, ast.Constant))]
        if len(tb) != 4 or [ast.unparse(s) for s in tb[2:]] != ["p_tags[t_key] = t_value", "i += 2"]:
            raise Refuse(f"tag loop: unexpected body {[ast.unparse(s)[:40] for s in tb]}")
        out.append("Definition gen_tag_key (k : str) : option (option str) :=\n  " + self.key_chain(tb[0], "t_key", True) + ".\n")
        tv = tb[1]
        ok = isinstance(tv, ast.Assign) and ast.unparse(tv.targets[0]) == "t_value" and isinstance(tv.value, ast.IfExp) \
            and isinstance(tv.value.body, ast.Constant) and tv.value.body.value is None \
            and ast.unparse(tv.value.test) in ("row[i + 1] == self._none_str", "self._none_str == row[i + 1]") \
            and ast.unparse(tv.value.orelse) in ("str(row[i + 1])", "row[i + 1]")
        if not ok:
            raise Refuse(f"tag value: unexpected `{ast.unparse(tv)}`")
        out.append("Definition gen_tag_value (v : str) : option str :=\n  if str_eqb v none_str then None else Some v.\n")
        # ---- field loop
        fb = [s for s in loops[1].body if not (isinstance(s, ast.Expr) and isinstance(s.value, ast.Constant))]
        if len(fb) != 5:
            raise Refuse(f"field loop: unexpected body {[ast.unparse(s)[:40] for s in fb]}")
        fk = self.key_chain(fb[0], "f_key", False)
        out.append("Definition gen_field_key (k : str) : option str :=\n  match " + fk + " with Some (Some x) => Some x | _ => None end.\n")
        if ast.unparse(fb[1]) != "f_value = row[i + 1]":
            raise Refuse(f"field value: unexpected `{ast.unparse(fb[1])}`")
        # integer branch
        ib = fb[2]
        if not (isinstance(ib, ast.If) and not ib.orelse and [ast.unparse(s) for s in ib.body] == ["p_fields[f_key] = int(f_value)", "i += 2", "continue"]):
            raise Refuse("field value: the integer branch is not `p_fields[f_key] = int(f_value); i += 2; continue`")
        t = ast.unparse(ib.test)
        if t != "f_value.isdigit() or (f_value[0] == '-' and f_value[1:].isdigit())":
            raise Refuse(f"field value: unexpected integer test `{t}`")
        out.append("(* the value is read as an integer when it is all digits, or a minus sign followed by digits *)\n"
                   "Definition gen_field_is_int (is_digits : str -> bool) (v : str) : option bool :=\n"
                   "  if is_digits v then Some true else match v with [] => None (* IndexError *) | c :: r => Some (N.eqb c 45%N && is_digits r) end.\n")
        fl = fb[3]
        ok = isinstance(fl, ast.Try) and [ast.unparse(s) for s in fl.body] == ["p_fields[f_key] = float(f_value)"] and len(fl.handlers) == 1 \
            and [ast.unparse(s) for s in fl.handlers[0].body] == ["p_fields[f_key] = None"] and not fl.orelse and not fl.finalbody \
            and (fl.handlers[0].type is None or ast.unparse(fl.handlers[0].type) in ("Exception", "ValueError"))
        if not ok or ast.unparse(fb[4]) != "i += 2":
            raise Refuse("field value: the float / None branch is not `try: float(f_value) except: None; i += 2`")
        return "\n".join(out)


HEADER = """(* GENERATED on every run by harness/py2coq_decode.py from tinyflux/point.py (Point._deserialize_from_list and the class constants) -
   do not edit.  proofs/DecodeGenP.v proves these equal to what the model's decoder (Codec.de_tags / de_fields, Text.tag_key) computes. *)
From Coq Require Import List ZArith NArith Bool.
From TF Require Import Base Query Codec.
Import ListNotations.

"""


def main():
    src_path, out_path = sys.argv[1], sys.argv[2]
    refused = None
    try:
        tree = ast.parse(open(src_path).read())
        cls = [n for n in tree.body if isinstance(n, ast.ClassDef) and n.name == "Point"]
        if len(cls) != 1:
            raise Refuse("class Point not found")
        consts = {}
        for n in cls[0].body:
            tgt = None
            if isinstance(n, ast.Assign) and len(n.targets) == 1 and isinstance(n.targets[0], ast.Name):
                tgt, val = n.targets[0].id, n.value
            elif isinstance(n, ast.AnnAssign) and isinstance(n.target, ast.Name) and n.value is not None:
                tgt, val = n.target.id, n.value
            if tgt in CONSTS:
                if not (isinstance(val, ast.Constant) and isinstance(val.value, str)):
                    raise Refuse(f"{tgt} is not a string literal")
                consts[tgt] = val.value
        missing = [c for c in CONSTS if c not in consts]
        if missing:
            raise Refuse(f"class constants {missing} not found")
        fns = {n.name: n for n in cls[0].body if isinstance(n, ast.FunctionDef)}
        if "_deserialize_from_list" not in fns:
            raise Refuse("_deserialize_from_list not found")
        cdefs = "Definition refused : bool := false.\n\n(* the class constants of Point, as the source spells them *)\n" + \
            "".join(f"Definition {c.lstrip('_')} : str := {strlit(consts[c])}.\n" for c in CONSTS) + "\n"
        text = HEADER + cdefs + Tr(fns["_deserialize_from_list"], consts).run()
    except (Refuse, SyntaxError, OSError) as r:
        refused = str(r)
        snap = open(FALLBACK_FILE).read().replace("Definition refused : bool := false.", "Definition refused : bool := true.")
        text = "(* REFUSED by the translator: " + refused[:140].replace("*", "x").replace("(", "[").replace(")", "]").replace('"', "'") + \
               " - the last verified translation (harness/DecodeGen.fallback.v) stands in *)\n" + snap
    try:
        old = open(out_path).read()
    except FileNotFoundError:
        old = None
    if old != text:
        open(out_path, "w").write(text)
    if refused:
        print(f"REFUSED _deserialize_from_list: {refused}")
    return 3 if refused else 0


if __name__ == "__main__":
    sys.exit(main())
