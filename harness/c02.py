"""C02: decided on the database-level Coq model (DB.v) — theorems in coq/Prop_C02.v, tie by correspondence."""
from common import *  # noqa
import dbtie
import memtie

PROFILE = {'scenario_also': ['same_row_text', 'ne_writes'], 'scenario_pref': ['redate_remove', 'underscore_keys', 'big_ints', 'hash_twins', 'hash_twins', 'noop_compose', 'epoch', 'sparse_write', 'sparse_write', 'same_count', 'nested_not', 'remove_first', 'ooo_then_remove', 'nested_not', 'hash_twins'], 'p_write': 0.55, 'writes': {'insert': 2, 'insert_multiple': 1, 'remove': 6, 'drop': 2, 'remove_all': 1, 'update': 1, 'reindex': 0.5, 'reopen': 0.5, 'handle': 1.5}}


def main(tier, seed):
    # what a removal decides is regenerated from database.py (symbolic execution of _remove_helper, with _reset_database, remove, drop_measurement
    # and - through py2coq_read.py - the read_op decorator) and proved equal to the model's removal (proofs/RemoveGenP.v)
    refused = []
    mtie = {}

    def regen():
        run_translator("py2coq_read.py", "tinyflux", "gen/ReadGen.v", refused)
        run_translator("py2coq_remove.py", "tinyflux", "gen/RemoveGen.v", refused)
        # class MemoryStorage, every method (the storage a removal rewrites when the database lives in memory)
        run_translator("py2coq_memstore.py", "tinyflux/storages.py", "gen/MemStoreGen.v", refused)
    return dbtie.db_check("C02", tier, seed, PROFILE, 650, 6000, "Prop_C02",
                          "user callables and re are an environment the theorems quantify over; the tie instantiates them with the twin table",
                          pre=regen, direct=lambda ck, tf: mtie.update(memtie.check(ck, tf, refused) or {}), extra_cov={"translator": {"source": "tinyflux/database.py: TinyFlux._remove_helper (symbolic execution; its two loops and the try / except around the swap recognised literally), "
                                                                         "_reset_database, remove, drop_measurement, read_op / reindex -> coq/gen/RemoveGen.v, coq/gen/ReadGen.v (regenerated on this run)",
                                                               "memory_storage": "tinyflux/storages.py: every method of class MemoryStorage -> coq/gen/MemStoreGen.v (C02_source_memory_storage_*; validated against the class by harness/memtie.py)", "memory_storage_validation": mtie,
                                                               "refused": refused, "equivalence_theorem": "gen_remove_helper_eq, gen_reset_eq, gen_remove_eq, gen_drop_eq (C02_source_*_is_the_model, C02_source_remove_exact, C02_source_drop_exact)"}})
