"""C02: decided on the database-level Coq model (DB.v) — theorems in coq/Prop_C02.v, tie by correspondence."""
from common import *  # noqa
import dbtie

PROFILE = {'scenario_pref': ['noop_compose', 'epoch', 'sparse_write', 'sparse_write', 'same_count', 'nested_not', 'remove_first', 'ooo_then_remove', 'nested_not'], 'p_write': 0.55, 'writes': {'insert': 2, 'insert_multiple': 1, 'remove': 6, 'drop': 2, 'remove_all': 1, 'update': 1, 'reindex': 0.5, 'reopen': 0.5, 'handle': 1.5}}


def main(tier, seed):
    return dbtie.db_check("C02", tier, seed, PROFILE, 650, 6000, "Prop_C02",
                          "user callables and re are an environment the theorems quantify over; the tie instantiates them with the twin table")

