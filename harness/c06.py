"""C06: decided on the database-level Coq model (DB.v) — theorems in coq/Prop_C06.v, tie by correspondence."""
import os

from common import *  # noqa
import dbtie

PROFILE = {'scenario_also': ['front_rows_removed'], 'scenario_pref': ['noop_match', 'big_ints', 'one_us_late', 'one_us_late', 'noop_compose', 'range_ends', 'epoch', 'sparse_write', 'nan_fields', 'future_untimed', 'fold_twins', 'same_count', 'ooo_batch', 'bad_batch', 'ooo_then_remove', 'hash_twins', 'reset_then_time'], 'p_write': 0.6}


def enumerated(depth, alphabet_size=None):
    """EVERY sequence of `depth` operations over a small alphabet of points, queries and updates (the property's own
    quantifier), each followed by the validity flag, and closed by index-served reads and getters"""
    import itertools
    import dbgen
    T, S = dbgen.T0, dbgen.SEC
    p1 = {"time": T + 1 * S, "meas": "m1", "tags": {"a": "x"}, "fields": {"a": 1}}
    p2 = {"time": T + 2 * S, "meas": "m2", "tags": {"a": "y", "b": "z"}, "fields": {"b": 2}}
    p0 = {"time": T - 5 * S, "meas": "m1", "tags": {}, "fields": {"a": 2}}
    tie = {"time": T + 2 * S, "meas": "m1", "tags": {"a": "x"}, "fields": {}}
    qx = ("S", "tags", [("k", "a")], ("cmp", "==", ("s", "x")))
    alphabet = [
        ("insert", [dict(p1)], None), ("insert", [dict(p2)], None), ("insert", [dict(p0)], None), ("insert", [dict(tie), None, dict(p2)], None, "multiple"),
        ("remove", qx, None), ("remove", ("not", ("S", "fields", [("k", "a")], ("cmp", "==", ("n", 1)))), None), ("remove_all",), ("drop", "m1"),
        ("update", qx, {"fields": ("static", {"a": 2})}, None), ("update_all", {"fields": ("call", 3), "tags": ("static", {"u": "1"})}),
        ("reindex",), ("count", ("S", "time", [], ("cmp", ">=", ("t", T + 1 * S))), None), ("handle", "m1", ("remove", ("noop", "tags"))),
        ("update", ("S", "time", [], ("cmp", "<", ("t", T + 2 * S))), {"time": ("static", T + 9 * S)}, None), ("get_tag_keys", "m2"),
    ][:alphabet_size]
    tail = [("index_valid",), ("count", ("noop", "tags"), None), ("search", ("S", "time", [], ("cmp", ">=", ("t", T + 1 * S))), None, False),
            ("count", ("and", qx, ("S", "time", [], ("cmp", "!=", ("t", T + 2 * S)))), "m1"), ("get_tag_keys", None), ("get_tag_values", [], None),
            ("get_field_keys", None), ("get_field_values", "a", "m1"), ("get_timestamps", None), ("get_measurements",), ("len",), ("iter",)]
    import copy
    for seq in itertools.product(range(len(alphabet)), repeat=depth):
        ops = []
        for i in seq:
            ops += [copy.deepcopy(alphabet[i]), ("index_valid",)]
        yield ops + tail


def main(tier, seed):
    extra = []
    if tier == "thorough":
        # depth 3 over the 15-letter alphabet and depth 4 over its first 8 letters, both storages, automatic indexing on and off
        for d, a in [(3, 15), (4, 8)]:
            for ops in enumerated(d, a):
                for csv, auto in dbtie.CONFIGS:
                    extra.append((csv, auto, ops))
    elif os.environ.get("VERIF_ENUM_SMOKE"):
        for ops in enumerated(2, 15):
            for csv, auto in dbtie.CONFIGS:
                extra.append((csv, auto, ops))
    return _main(tier, seed, extra)


def _main(tier, seed, extra):
    refused = []

    def regen():
        # what the index answers is regenerated from index.py and proved equal to the model's isearch (proofs/SearchGenP.v)
        rc, out = sh([PY, str(VERIF / "harness" / "py2coq_search.py"), str(REPO / "tinyflux" / "index.py"), str(COQ / "gen" / "SearchGen.v")], timeout=60)
        refused.extend(l for l in out.splitlines() if l.startswith("REFUSED"))
        # what an insert decides about the index is regenerated from database.py (_insert_helper) and proved equal to the model's insert loop (proofs/InsertGenP.v)
        run_translator("py2coq_insert.py", "tinyflux/database.py", "gen/InsertGen.v", refused)
        # the maintenance of the index (build, insert, remove, update, _reset, invalidate, __init__ and their helpers) is COMPILED from index.py into
        # state-passing Gallina and proved the model's maintenance through IndexSem.abs (proofs/IndexGenP.v)
        run_translator("py2coq_index.py", "tinyflux/index.py", "gen/IndexGen.v", refused)
    import indextie
    itie = {}
    return dbtie.db_check("C06", tier, seed, PROFILE, 800, 4000, "Prop_C06",
                          "user callables and re are an environment the theorems quantify over; the tie instantiates them with the twin table",
                          extra_cases=extra, pre=regen, direct=lambda ck, tf: itie.update(indextie.check(ck, tf, refused) or {}),
                          extra_cov={"translator_index_maintenance_validation": itie, "translator_index_search": {"source": "tinyflux/index.py: IndexResult set algebra, Index._search_helper, Index._search_timestamps -> coq/gen/SearchGen.v (regenerated on this run)", "refused": refused, "equivalence_theorem": "gen_search_helper_eq (C06_source_search_valid_is_rebuilt)"},
                                     "translator_index_maintenance": {"source": "tinyflux/index.py: Index.__init__, _reset, invalidate, _insert_time / _measurements / _tags / _fields, insert, build, _remove_timestamps / _measurements / _tags / _fields, remove, _update_timestamps / _measurements / _tags / _fields, update -> coq/gen/IndexGen.v (compiled on this run: imperative Python to state-passing Gallina; fail-closed on reads of keys not known present, mutation through aliases, changes to a dict under iteration)", "refused": refused,
                                                                      "equivalence_theorem": "gen_reset_eq, gen_invalidate_eq, gen_init_eq, gen_insert_one, gen_build_eqv, gen_remove_eq, gen_update_eq, gen_remove_update_eq, Rep_eqv (C06_source_index_*)"},
                                     "translator_insert": {"source": "tinyflux/database.py: TinyFlux._insert_helper -> coq/gen/InsertGen.v (regenerated on this run)", "refused": refused,
                                                           "equivalence_theorem": "gen_insert_eq (C06_source_insert_is_the_model)"}, "enumerated_sequences": len(extra), "enumeration": "every operation sequence of depth 3 over a "
                                                        "15-letter alphabet and of depth 4 over its first 8 letters (thorough tier)"})

