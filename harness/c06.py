"""C06: decided on the database-level Coq model (DB.v) — theorems in coq/Prop_C06.v, tie by correspondence."""
from common import *  # noqa
import dbtie

PROFILE = {'p_write': 0.6}


def main(tier, seed):
    return dbtie.db_check("C06", tier, seed, PROFILE, 500, 8000, "Prop_C06",
                          "user callables and re are an environment the theorems quantify over; the tie instantiates them with the twin table")

