#!/usr/bin/env python3
"""runneutral.py <patch.diff> <label> [CHECK-ID ...]: apply a behaviour-preserving refactoring in a scratch worktree of /repo
(never in /repo itself) and run the quick checks against it; every VIOLATION is a false alarm to look into, except a
translator refusal / broken generated proof with no-failing-input-found (mandated when the translated source text changes)."""
import json, os, re, shutil, subprocess, sys
V = os.path.dirname(os.path.dirname(os.path.abspath(__file__)))
patch, label = sys.argv[1], sys.argv[2]
checks = sys.argv[3:] or [f"C{i:02d}" for i in range(1, 19)]
wt = f"/tmp/vwt/neu-{label}-{os.getpid()}"
os.makedirs("/tmp/vwt", exist_ok=True)
subprocess.run(["git", "-C", "/repo", "worktree", "add", "--detach", "-f", wt, "HEAD"], check=True, capture_output=True)
try:
    r = subprocess.run(["git", "-C", wt, "apply", patch], capture_output=True, text=True)
    if r.returncode != 0:
        print(label, "PATCH-DOES-NOT-APPLY", r.stderr[:200])
        sys.exit(2)
    suite = subprocess.run(["/venv/bin/python", "-m", "pytest", "-q", "-p", "no:cacheprovider", "-x"], cwd=wt, env=dict(os.environ, PYTHONPATH=wt),
                           capture_output=True, text=True).stdout.strip().splitlines()[-1:]
    print(label, "suite:", suite, flush=True)
    coqdir = f"{wt}-coq"
    shutil.copytree(f"{V}/coq", coqdir, symlinks=True)
    env = dict(os.environ, VERIF_REPO=wt, VERIF_EVIDENCE_DIR=f"{V}/.work/mut-evidence", VERIF_COQ_DIR=coqdir)
    for chk in checks:
        p = subprocess.run([f"{V}/check", chk, "quick"], capture_output=True, text=True, cwd=V, timeout=3000, env=env)
        viol = [l for l in (p.stdout + p.stderr).splitlines() if l.startswith("VIOLATION")]
        kinds = []
        for l in viol:
            m = re.search(r"replay=(\S+)", l)
            try:
                kinds.append(json.load(open(m.group(1))).get("kind"))
            except Exception:
                kinds.append("?")
        print(label, chk, "exit", p.returncode, "quiet" if not viol else f"ALARM {list(zip([v[-60:] for v in viol], kinds))}", flush=True)
finally:
    subprocess.run(["git", "-C", "/repo", "worktree", "remove", "--force", wt], capture_output=True)
    shutil.rmtree(wt, ignore_errors=True)
    shutil.rmtree(f"{wt}-coq", ignore_errors=True)
