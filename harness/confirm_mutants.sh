#!/bin/bash
# confirm every delivered change: suite passes with it, demo fails with it and passes without it
out=/tmp/mut/CONFIRM.txt; : > $out
for d in /tmp/mut/C??; do
  id=$(basename $d)
  for k in 1 2; do
    p=$d/OUT/patch$k.diff; demo=$d/OUT/demo$k.py
    [ -f $p ] || { echo "$id $k missing" >> $out; continue; }
    cd $d && git checkout -q -- tinyflux && git apply --check $p 2>/dev/null || { echo "$id $k patch-does-not-apply" >> $out; continue; }
    PYTHONPATH=$d timeout 300 /venv/bin/python $demo >/dev/null 2>&1; clean=$?
    git apply $p
    suite=$(PYTHONPATH=$d timeout 600 /venv/bin/python -m pytest -q -p no:cacheprovider 2>&1 | tail -1)
    PYTHONPATH=$d timeout 300 /venv/bin/python $demo >/dev/null 2>&1; mut=$?
    git checkout -q -- tinyflux
    echo "$id $k demo_clean=$clean demo_mut=$mut suite=[$suite]" >> $out
  done
done
echo DONE >> $out
