#!/usr/bin/env python3
"""Entry point of every registered check:  check.py <ID> quick|thorough [--replay file]"""
import importlib
import os
import sys

sys.path.insert(0, os.path.dirname(os.path.abspath(__file__)))


def main():
    args = sys.argv[1:]
    if len(args) < 1:
        print(__doc__)
        return 2
    pid = args[0].upper()
    tier = os.environ.get("VERIF_TIER") if len(args) < 2 or args[1].startswith("--") else args[1]
    tier = tier if tier in ("quick", "thorough") else "quick"
    seed = int(os.environ.get("VERIF_SEED", "20260926"))
    if "--replay" in args:
        mod = importlib.import_module(pid.lower())
        path = args[args.index("--replay") + 1]
        import replaylib
        return replaylib.replay(pid, path)
    try:
        mod = importlib.import_module(pid.lower())
        return mod.main(tier, seed)
    except Exception:
        # the check could not run to completion on this tree (the implementation raised where the harness did not expect it,
        # or the harness itself failed): the property is not shown to hold - report it, with the traceback as the replay
        import hashlib, json, traceback
        from pathlib import Path
        tb = traceback.format_exc()
        V = Path(__file__).resolve().parent.parent
        (V / "replays").mkdir(exist_ok=True)
        path = V / "replays" / f"{pid}-crash-{hashlib.sha1(tb.encode()).hexdigest()[:10]}.json"
        path.write_text(json.dumps({"property": pid, "kind": "check-could-not-complete", "tier": tier, "seed": seed,
                                    "what_no_longer_checks": f"the whole {pid} check (theorems and correspondence): an exception escaped while running it against this tree",
                                    "traceback": tb[-4000:]}, indent=1))
        sys.stderr.write(tb)
        print(f"VIOLATION property={pid} replay={path} no-failing-input-found")
        return 1


if __name__ == "__main__":
    sys.exit(main())
