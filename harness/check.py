#!/usr/bin/env python3
"""Entry point of every registered check:  check.py <ID> quick|thorough [--replay file]"""
import importlib
import os
import sys

sys.path.insert(0, os.path.dirname(os.path.abspath(__file__)))


def main():
    args = sys.argv[1:]
    if len(args) < 1:
        print(__doc__)
        return 2
    pid = args[0].upper()
    tier = os.environ.get("VERIF_TIER") if len(args) < 2 or args[1].startswith("--") else args[1]
    tier = tier if tier in ("quick", "thorough") else "quick"
    seed = int(os.environ.get("VERIF_SEED", "20260926"))
    mod = importlib.import_module(pid.lower())
    if "--replay" in args:
        path = args[args.index("--replay") + 1]
        import replaylib
        return replaylib.replay(pid, path)
    return mod.main(tier, seed)


if __name__ == "__main__":
    sys.exit(main())
