"""C04: after every completed operation the CSV file alone holds the current contents."""
import csv

from common import *  # noqa
import dbtie

PROFILE = {"p_write": 0.55, "file_obs": True, "p_scenario": 0.3, "scenario_pref": ['minute_marks', 'mixed_quoting', 'mixed_quoting', 'sparse_write', 'sparse_write', "odd_strings", "linebreaks", "odd_strings"],
           "writes": {"insert": 4, "insert_multiple": 2, "remove": 3, "drop": 1, "remove_all": 0.5, "update": 3, "update_all": 1,
                      "reindex": 0.5, "reopen": 1.5, "handle": 1.5}}
DIALECTS = [{}, {}, {"delimiter": ";"}, {"quotechar": "'"}, {"quoting": csv.QUOTE_ALL}, {"delimiter": "|", "quotechar": "'", "quoting": csv.QUOTE_ALL},
            {"delimiter": "\t"}, {"lineterminator": "\n"}, {"lineterminator": "\r"}, {"lineterminator": "\n", "delimiter": ";"},
            {"escapechar": "\\"}, {"escapechar": "\\", "quoting": csv.QUOTE_NONE}]
ENCODINGS = [None, None, "utf-8", "utf-16", "latin-1"]


def kwargs_for(h):
    kw = dict(DIALECTS[h % len(DIALECTS)])
    enc = ENCODINGS[(h // 2) % len(ENCODINGS)]
    if enc:
        kw["encoding"] = enc
    if h % 3 == 1:
        kw["flush_on_insert"] = False
    if h % 5 == 4:
        kw["access_mode"] = "w+"
    return kw


def main(tier, seed):
    refused = []
    return dbtie.db_check("C04", tier, seed, PROFILE, 400, 5000, "Prop_C04",
                          "text of time / number cells and the csv module are standard-library behaviour (oracle pairs with round-trip hypotheses); "
                          "encodings are the text layer's (the file is decoded with the configured encoding by an independent reader)",
                          configs=[(True, True), (True, False)], kwargs_for=kwargs_for,
                          pre=lambda: run_translator("py2coq_io.py", "tinyflux/storages.py", "gen/IOGen.v", refused),
                          extra_cov={"translator_storage_scripts": dict(IO_TRANSLATOR_COV, refused=refused)})
