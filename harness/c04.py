"""C04: after every completed operation the CSV file alone holds the current contents."""
import csv

from common import *  # noqa
import dbtie

PROFILE = {'scenario_also': ['line_separators'], "p_write": 0.55, "file_obs": True, "p_scenario": 0.3, "scenario_pref": ['minute_marks', 'mixed_quoting', 'mixed_quoting', 'sparse_write', 'sparse_write', "odd_strings", "linebreaks", "odd_strings"],
           "writes": {"insert": 4, "insert_multiple": 2, "remove": 3, "drop": 1, "remove_all": 0.5, "update": 3, "update_all": 1,
                      "reindex": 0.5, "reopen": 1.5, "handle": 1.5}}
DIALECTS = [{}, {}, {"delimiter": ";"}, {"quotechar": "'"}, {"quoting": csv.QUOTE_ALL}, {"delimiter": "|", "quotechar": "'", "quoting": csv.QUOTE_ALL},
            {"delimiter": "\t"}, {"lineterminator": "\n"}, {"lineterminator": "\r"}, {"lineterminator": "\n", "delimiter": ";"},
            {"escapechar": "\\"}, {"escapechar": "\\", "quoting": csv.QUOTE_NONE}]
ENCODINGS = [None, None, "utf-8", "utf-16", "latin-1"]


def kwargs_for(h):
    kw = dict(DIALECTS[h % len(DIALECTS)])
    enc = ENCODINGS[(h // 2) % len(ENCODINGS)]
    if enc:
        kw["encoding"] = enc
    if h % 3 == 1:
        kw["flush_on_insert"] = False
    if h % 5 == 4:
        kw["access_mode"] = "w+"
    return kw


def direct_dotdot_path(ck, tf):
    """the database is the FILE IT WAS OPENED WITH, however the path is spelled: through `<symbolic link to a directory>/../db.csv` (the kernel resolves
    `..` through the link's target; a lexical normalisation names another file), through a symbolic link to the file, through `./x/../db.csv`; after
    rewrites and further inserts the file named at open holds the contents, and no other file appeared"""
    import iotie
    import os
    import tempfile
    from datetime import datetime, timedelta, timezone
    t0 = datetime(2020, 1, 1, tzinfo=timezone.utc)
    n = 0
    for spelling in ("link/..", "filelink", "plain/.."):
        for auto in (True, False):
            d = tempfile.mkdtemp(dir=str(ck.work))
            os.makedirs(os.path.join(d, "real", "sub"))
            os.makedirs(os.path.join(d, "work", "plain"))
            os.symlink(os.path.join(d, "real", "sub"), os.path.join(d, "work", "link"))
            if spelling == "link/..":
                path, target = os.path.join(d, "work", "link", "..", "db.csv"), os.path.join(d, "real", "db.csv")
            elif spelling == "filelink":
                target = os.path.join(d, "real", "db.csv")
                open(target, "w").close()
                path = os.path.join(d, "work", "db.csv")
                os.symlink(target, path)
            else:
                path, target = os.path.join(d, "work", "plain", "..", "db.csv"), os.path.join(d, "work", "db.csv")
            listing = lambda: sorted(os.path.relpath(os.path.join(r_, f_), d) for r_, _, fs in os.walk(d) for f_ in fs)
            db = tf.TinyFlux(path, auto_index=auto)
            try:
                db.insert_multiple([tf.Point(time=t0 + timedelta(seconds=i), measurement="m", tags={"k": str(i)}, fields={"a": float(i)}) for i in range(3)])
                files_before = listing()
                db.remove(tf.TagQuery().k == "0")
                db.insert(tf.Point(time=t0 + timedelta(seconds=5), measurement="m", tags={"k": "5"}, fields={"a": 5.0}))
                db.update(tf.TagQuery().k == "1", fields={"a": 9.0})
                live = sorted((p.tags["k"], p.fields["a"]) for p in db.all())
            finally:
                db.close()
            n += 1
            pts = iotie.decode_bytes(iotie.read_file(target), None, {})
            got = None if pts is None else sorted((p["tags"].get("k"), p["fields"].get("a")) for p in pts)
            want = [("1", 9.0), ("2", 2.0), ("5", 5.0)]
            if got != want or live != want or listing() != files_before:
                ck.violation({"kind": "failing-input", "path_spelling": spelling, "opened_as": os.path.relpath(path, d) if spelling != "link/.." else "work/link/../db.csv  (work/link -> real/sub)",
                              "auto_index": auto, "steps": "insert 3 points k=0,1,2; remove(k == '0'); insert k=5; update(k == '1', a=9)", "the_file_opened_decodes_to (k, a)": got,
                              "the_live_object_answers": live, "documented_contents": want, "files_before_the_rewrites": files_before, "files_after": listing(),
                              "why": "after rewrites the file the database was opened with does not hold the database's contents (or another file appeared)"})
                return {"path_spellings_checked": n}
    return {"path_spellings_checked": n}


def direct_long_name(ck, tf):
    """a database whose file name is so long that a sibling file with a suffix cannot be created (the staged rewrite needs one): whatever a rewriting
    operation does there - complete or raise - a call that RETURNED has left its result in the file (oracle-free: the file is decoded by the
    independent reader and compared with what the database itself iterates, and with the documented contents)"""
    import iotie
    import os
    import tempfile
    from datetime import datetime, timedelta, timezone
    t0 = datetime(2020, 1, 1, tzinfo=timezone.utc)
    for name_len in (253, 251, 200):
        for auto in (True, False):
            d = tempfile.mkdtemp(dir=str(ck.work))
            path = os.path.join(d, "d" * (name_len - 4) + ".csv")
            try:
                db = tf.TinyFlux(path, auto_index=auto)
            except OSError:
                continue                    # the file system does not take the name at all
            try:
                db.insert_multiple([tf.Point(time=t0 + timedelta(seconds=i), measurement="m", tags={"k": str(i % 2)}, fields={"a": float(i)}) for i in range(4)])
                expect = [(i, str(i % 2), float(i)) for i in range(4)]
                for what, call, after in (
                        ("remove(k == '0')", lambda: db.remove(tf.TagQuery().k == "0"), lambda e: [x for x in e if x[1] != "0"]),
                        ("update(k == '1', fields={'a': 9})", lambda: db.update(tf.TagQuery().k == "1", fields={"a": 9.0}), lambda e: [(i, k, 9.0 if k == "1" else a) for i, k, a in e]),
                        ("update_all(tags={'z': 'y'})", lambda: db.update_all(tags={"z": "y"}), lambda e: e)):
                    try:
                        call()
                        expect = after(expect)
                        returned = True
                    except OSError:
                        returned = False
                    pts = iotie.decode_bytes(iotie.read_file(path), None, {})
                    got = None if pts is None else [(int((p["time"] - 1577836800000000) // 1000000), p["tags"].get("k"), p["fields"].get("a")) for p in pts]
                    if got != expect:
                        ck.violation({"kind": "failing-input", "file_name_length": name_len, "auto_index": auto, "operation": what,
                                      "the_call": "returned" if returned else "raised OSError", "file_decodes_to (second, k, a)": got,
                                      "documented_contents (second, k, a)": expect,
                                      "why": "after a completed operation (and after one that raised) the file does not hold the database's contents"})
                        return 1
            finally:
                try:
                    db.close()
                except Exception:  # noqa
                    pass
    return 6


def main(tier, seed):
    refused = []
    return dbtie.db_check("C04", tier, seed, PROFILE, 400, 5000, "Prop_C04",
                          "text of time / number cells and the csv module are standard-library behaviour (oracle pairs with round-trip hypotheses); "
                          "encodings are the text layer's (the file is decoded with the configured encoding by an independent reader)",
                          configs=[(True, True), (True, False)], kwargs_for=kwargs_for,
                          pre=lambda: run_translator("py2coq_io.py", "tinyflux/storages.py", "gen/IOGen.v", refused), direct=lambda ck, tf: (direct_long_name(ck, tf), direct_dotdot_path(ck, tf)),
                          extra_cov={"translator_storage_scripts": dict(IO_TRANSLATOR_COV, refused=refused)})
