"""I/O-level machinery shared by C04, C12, C13, C15, C16: independent decoding of the database file,
recorded / crashing / faulting runs of one operation after a history, emission of Coq cases for IO.v."""
import csv
import io
import os
import shutil
import signal
import sys
import tempfile
import traceback
from datetime import datetime, timezone

from common import *  # noqa
import dbgen
import dbimpl
import dbmodel as M
import ioproxy


# ---- independent decoder of the documented file format (does not import tinyflux) ------------------
def decode_row(row):
    t = datetime.fromisoformat(row[0]).replace(tzinfo=timezone.utc)
    p = {"time": M.us_of(t), "meas": row[1], "tags": {}, "fields": {}}
    i = 2
    while i + 1 < len(row) + 1 and i < len(row):
        k, v = row[i], row[i + 1]
        if k.startswith("_tag_"):
            p["tags"][k[5:]] = None if v == "_none" else v
        elif k.startswith("t_"):
            p["tags"][k[2:]] = None if v == "_none" else v
        elif k.startswith("_field_") or k.startswith("f_"):
            key = k[7:] if k.startswith("_field_") else k[2:]
            p["fields"][key] = None if v == "_none" else float(v)
        else:
            raise ValueError("bad key cell " + repr(k))
        i += 2
    return p


def decode_bytes(data, encoding=None, csv_kwargs=None):
    """-> list of neutral points, or None if the file does not decode"""
    if data is None:
        return None
    try:
        text = data.decode(encoding or "utf-8")
        rows = list(csv.reader(io.StringIO(text, newline=""), **(csv_kwargs or {})))
        return [decode_row(r) for r in rows]
    except Exception:
        return None


def read_file(path):
    try:
        with open(path, "rb") as f:
            return f.read()
    except FileNotFoundError:
        return None


def listing(d):
    out = []
    for root, dirs, files in os.walk(d):
        for f in files:
            out.append(os.path.relpath(os.path.join(root, f), d))
    return sorted(out)


def other_fs_tmp(workdir):
    """a temp directory on another filesystem than the database (tmpfs), if the sandbox has one"""
    if os.path.isdir("/dev/shm") and os.access("/dev/shm", os.W_OK) and os.stat("/dev/shm").st_dev != os.stat(os.path.dirname(workdir) or ".").st_dev:
        return "/dev/shm/verif_" + os.path.basename(os.path.dirname(workdir)) + "_" + os.path.basename(workdir)
    return os.path.join(workdir, "tmp")


HARDLINK = False        # set per case by the crash / fault checks: the database file gets a second hard link after the history, before the operation


class Session:
    """a database in a private directory with proxies installed; runs histories and one observed op"""

    def __init__(self, tf, workdir, auto=True, storage_kwargs=None, other_fs=False):
        import tinyflux.storages as st
        self.tf, self.st = tf, st
        self.dir = workdir
        self.dbdir = os.path.join(workdir, "db")
        self.tmpdir = other_fs_tmp(workdir) if other_fs else os.path.join(workdir, "tmp")
        os.makedirs(self.dbdir, exist_ok=True)
        os.makedirs(self.tmpdir, exist_ok=True)
        self.path = os.path.join(self.dbdir, "db.csv")
        self.h = ioproxy.IOHarness()
        self.h.primary = self.path
        self.undo = ioproxy.install(st, self.h)
        self.old_tmp = tempfile.tempdir
        tempfile.tempdir = self.tmpdir
        self.kw = dict(storage_kwargs or {})
        self.driver = dbimpl.Driver(tf, True, auto, self.dbdir, self.kw)

    def run(self, ops):
        outs = [self.driver.do(o) for o in ops]
        if HARDLINK and not getattr(self, "linked", False) and os.path.exists(self.path):
            # the user keeps a hard-linked snapshot of the database file (cp -l): the file now has two names; whatever the library does
            # for linked files must be as safe as what it does otherwise
            self.linked = True
            try:
                os.makedirs(os.path.join(self.dir, "links"), exist_ok=True)
                os.link(self.path, os.path.join(self.dir, "links", "db.snapshot"))
            except OSError:
                pass
        return outs

    def contents(self):
        return decode_bytes(read_file(self.path), self.kw.get("encoding"), {k: v for k, v in self.kw.items()
                                                                            if k in ("delimiter", "quotechar", "quoting", "escapechar", "doublequote", "skipinitialspace", "strict", "dialect")})

    def finish(self):
        self.h.disarm()
        self.driver.close()
        self.undo()
        tempfile.tempdir = self.old_tmp
        shutil.rmtree(self.dir, ignore_errors=True)
        if self.tmpdir.startswith("/dev/shm/verif_"):
            shutil.rmtree(self.tmpdir, ignore_errors=True)


def logical_contents(tf, workdir, ops, auto=True, storage_kwargs=None):
    """what the database logically holds after `ops` (run to completion in a session of its own, read through the API)"""
    outs = dbimpl.run_history(tf, True, auto, list(ops) + [("iter",)], workdir, storage_kwargs)
    last = outs[-1]
    return last[1] if last[0] == "points" else None


def csv_only(kw):
    return {k: v for k, v in (kw or {}).items() if k in ("delimiter", "quotechar", "quoting", "escapechar", "doublequote", "skipinitialspace", "strict", "dialect")}


def recorded_run(tf, workdir, hist, op, auto=True, storage_kwargs=None, other_fs=False, mode=None, pre_hook=None, do_op=None):
    """pre_hook(session): called after the history, before recording starts (e.g. to start an iterator and keep it alive);
    do_op(session): what is recorded instead of driver.do(op) (e.g. an insert_multiple fed by a generator)"""
    s = Session(tf, workdir, auto, storage_kwargs, other_fs)
    try:
        houts = s.run(hist)
        held = pre_hook(s) if pre_hook else None          # noqa  (kept referenced until the session ends)
        if mode is not None:
            # close, then open the same file again in the requested access mode
            s.driver.close()
            try:
                s.driver = dbimpl.Driver(tf, True, auto, s.dbdir, dict(s.kw, access_mode=mode))
            except Exception as e:  # noqa  (e.g. mode "a" with auto_index: the initial reindex cannot read)
                return dict(open_failed=type(e).__name__, houts=houts)
        before_bytes = read_file(s.path)
        before = s.contents()
        lst_before = (listing(s.dbdir), listing(s.tmpdir))
        s.h.arm("record", snap_path=s.path)
        if do_op is not None:
            try:
                out = ("nat", do_op(s))
            except Exception as e:  # noqa
                out = ("raise", type(e).__name__)
        else:
            out = s.driver.do(op)
        s.h.disarm()
        events, snaps = list(s.h.events), list(s.h.snaps)
        after_bytes = read_file(s.path)
        after = s.contents()
        lst_after = (listing(s.dbdir), listing(s.tmpdir))
        return dict(houts=houts, out=out, events=events, snaps=snaps, before=before, after=after,
                    before_bytes=before_bytes, after_bytes=after_bytes, lst_before=lst_before, lst_after=lst_after)
    finally:
        s.finish()


def crash_run(tf, workdir, hist, op, k, auto=True, storage_kwargs=None, hard=False, other_fs=False):
    """child process: run hist, die at boundary k of op; parent returns what is left on disk"""
    pid = os.fork()
    if pid == 0:
        code = 0
        try:
            s = Session(tf, workdir, auto, storage_kwargs, other_fs)
            s.run(hist)
            if hard:
                # really kill: the boundary handler sends SIGKILL to ourselves
                orig = s.h.before

                def before(target, call, detail=None, _o=orig, _h=s.h):
                    if _h.mode == "die" and _h.count == _h.k:
                        os.kill(os.getpid(), signal.SIGKILL)
                    return _o(target, call, detail)
                s.h.before = before
            s.h.arm("die", k)
            s.driver.do(op)
        except BaseException:
            code = 3
        finally:
            os._exit(code)
    _, status = os.waitpid(pid, 0)
    died = (os.WIFEXITED(status) and os.WEXITSTATUS(status) == ioproxy.DIE_EXIT) or os.WIFSIGNALED(status)
    path = os.path.join(workdir, "db", "db.csv")
    data = read_file(path)
    enc = (storage_kwargs or {}).get("encoding")
    state = decode_bytes(data, enc, csv_only(storage_kwargs))
    # can the file be opened through the library, and what does it hold then?
    lib_state = None
    try:
        old_tmp = tempfile.tempdir
        os.makedirs(os.path.join(workdir, "tmp"), exist_ok=True)
        tempfile.tempdir = os.path.join(workdir, "tmp")
        db = tf.TinyFlux(path, **(storage_kwargs or {}))
        try:
            lib_state = [dbimpl._clean_point(p) for p in db.all(sorted=False)]
        finally:
            db.close()
            tempfile.tempdir = old_tmp
    except Exception as e:  # noqa
        lib_state = ("raise", type(e).__name__)
    left = listing(os.path.join(workdir, "db"))
    shutil.rmtree(workdir, ignore_errors=True)
    if other_fs and other_fs_tmp(workdir).startswith("/dev/shm/verif_"):
        shutil.rmtree(other_fs_tmp(workdir), ignore_errors=True)
    return dict(k=k, died=died, state=state, lib_state=lib_state, left=left)


def fault_run(tf, workdir, hist, op, k, mode, battery, auto=True, storage_kwargs=None, other_fs=False):
    """in-process: OSError injected at boundary k of op (before / after effect), then a follow-up battery"""
    s = Session(tf, workdir, auto, storage_kwargs, other_fs)
    res = dict(k=k, mode=mode)
    try:
        s.run(hist)
        res["before"] = s.contents()
        s.h.arm(mode, k)
        out = s.driver.do(op)
        res["injected"] = s.h.injected
        res["event"] = s.h.events[k][1:3] if k < len(s.h.events) else None
        s.h.disarm()
        res["out"] = out
        res["disk_after_fault"] = s.contents()
        # follow-up on the live object
        follow = []
        for o in battery:
            r = s.driver.do(o)
            disk = s.contents()
            follow.append((o, r, disk))
        res["follow"] = follow
        s.driver.close()
        res["after_close"] = s.contents()
        # reopen
        try:
            db = tf.TinyFlux(s.path, **{k_: v_ for k_, v_ in s.kw.items() if k_ != "access_mode"})      # (reopening with w+ would empty the file by definition)
            try:
                res["reopened"] = [dbimpl._clean_point(p) for p in db.all(sorted=False)]
            finally:
                db.close()
        except Exception as e:  # noqa
            res["reopened"] = ("raise", type(e).__name__)
        res["left"] = (listing(s.dbdir), listing(s.tmpdir))
        return res
    finally:
        s.finish()


def same_points(a, b):
    import pyspec
    if a is None or b is None or isinstance(a, tuple) or isinstance(b, tuple):
        return False
    return len(a) == len(b) and all(pyspec._norm(x) == pyspec._norm(y) for x, y in zip(a, b))


# ---- model side -----------------------------------------------------------------------------------
LABELS = ["PSeekEnd", "PWrite", "PFlush", "PFileno", "PFsync", "PTruncate", "PSeek0", "PNext", "PTruncate0", "PClose", "POpen",
          "TCreate", "TSeekEnd", "TWrite", "TFlush", "TFileno", "TFsync", "TTruncate", "TClose", "TRemove",
          "CopyOpen", "CopyMid", "CopyDone", "Replace"]

COQ_HEAD = ("From Coq Require Import List ZArith NArith Bool.\nFrom TF Require Import Base Query Index DB Codec Twins Run IO.\n"
            "Import ListNotations.\nLocal Open Scope nat_scope.\n"
            "Definition lab (s : iostep) : nat := match s with PSeekEnd => 0 | PWrite _ => 1 | PFlush => 2 | PFileno => 3 | PFsync => 4 | PTruncate => 5\n"
            " | PSeek0 => 6 | PNext => 7 | PTruncate0 => 8 | PClose => 9 | POpen => 10 | TCreate => 11 | TSeekEnd => 12 | TWrite _ => 13 | TFlush => 14\n"
            " | TFileno => 15 | TFsync => 16 | TTruncate => 17 | TClose => 18 | TRemove => 19 | CopyOpen => 20 | CopyMid => 21 | CopyDone => 22 | Replace => 23 end.\n"
            "(* the model's state before the last op, and its plan/script for that op *)\n"
            "Definition before (auto : bool) (hist : list op) : state := snd (run twinE twinC csv_norm (init auto) hist).\n"
            "Definition the_script (auto : bool) (hist : list op) (o : op) : list iostep :=\n"
            "  let s := before auto hist in let s' := fst (step twinE twinC csv_norm s o) in\n"
            "  script_of (st_rows s) (plan_of o (st_rows s) (st_rows s')).\n"
            "Definition crash_ok (auto : bool) (hist : list op) (o : op) (obs : list (list point)) : bool :=\n"
            "  let s := before auto hist in let ss := the_script auto hist o in\n"
            "  monotone_match (S (length obs + length ss + 2)) obs (crash_states (world_of (st_rows s)) ss).\n"
            "Definition final_world (auto : bool) (hist : list op) (o : op) : world :=\n"
            "  run_steps (world_of (st_rows (before auto hist))) (the_script auto hist o).\n")


def project(events):
    """real calls -> model labels; calls without a model counterpart (tell, exists, ...) are dropped"""
    out = []
    for _, target, call, detail in events:
        if target == "P":
            m = {"write": "PWrite", "flush": "PFlush", "fileno": "PFileno", "truncate": None, "next": "PNext", "close": "PClose", "open": "POpen",
                 "read": "PNext", "readline": "PNext"}
            if call == "seek":
                out.append("PSeekEnd" if detail and detail[0] == 0 and len(detail) > 0 and False else "PSeek")
            elif call == "truncate":
                out.append("PTrunc")
            elif call in m and m[call]:
                out.append(m[call])
        elif target == "T":
            m = {"create": "TCreate", "seek": "TSeekEnd", "write": "TWrite", "flush": "TFlush", "fileno": "TFileno", "truncate": "TTruncate", "close": "TClose"}
            if call in m:
                out.append(m[call])
        elif target == "os":
            if call == "fsync":
                out.append("Fsync")
            elif call == "replace":
                out.append("Replace")
            elif call == "remove":
                out.append("Remove")
        elif target == "copy":
            out.append({"open": "CopyOpen", "mid": "CopyMid", "done": "CopyDone"}[call])
        else:
            out.append(f"{target}.{call}")
    return out


# ---- cases ------------------------------------------------------------------------------------------
def io_cases(seed, n, kinds=None):
    """(hist, op, auto, kind) : a history that builds some contents, then one operation of a chosen kind"""
    out = []
    kinds = kinds or ["insert", "insert_multiple", "remove_some", "remove_none", "remove_all_match", "update_some", "update_nochange",
                      "drop", "remove_all", "handle_update", "read", "insert_multiple_bad", "update_raises", "update_shrink", "remove_most", "insert_big_rows"]
    for i in range(n):
        g = dbgen.Gen((seed << 16) + i, {"p_selective": 1.0, "allow_raise": False})
        r = g.r
        auto = r.random() < 0.7
        g.ids = 1
        n0 = r.choice([1, 2, 3, 5, 8])
        if kinds[i % len(kinds)] in ("update_shrink", "remove_most", "remove_some", "rewrite_line_separators", "rewrite_twice_linebreaks"):
            auto, n0 = True, max(n0, 3)          # the index must answer the query: storage-level shortcuts hang off that path
        big = kinds[i % len(kinds)] in ("update_newest_big", "insert_after_failed_update_big")
        if big:
            auto, n0 = True, r.choice([130, 131, 140])      # a database past 128 rows, index valid
        if kinds[i % len(kinds)] == "insert_newer_unsorted":
            auto = True
        pts = g.points_batch(n0, in_order=True if (big or kinds[i % len(kinds)] == "insert_newer_unsorted") else r.random() < 0.7)
        hist = [("insert", pts, None, "multiple")]
        for _ in range(0 if (big or kinds[i % len(kinds)] == "insert_newer_unsorted") else r.choice([0, 1, 2])):
            hist.append(r.choice([g.read_op(), ("get", g.query(), None), ("remove", g.query(), g.mfilter()), ("insert", [g.point()], None)]))
        kind = kinds[i % len(kinds)]
        ns = sorted(p["fields"]["n"] for p in pts if "n" in p["fields"])       # the selective ids actually stored by the first batch
        j = r.choice(ns) if ns else 1
        one = ("S", "tags", [("k", "id")], ("cmp", "==", ("s", str(j))))
        if big and kinds[i % len(kinds)] == "insert_after_failed_update_big":
            # an update that FAILS part-way (the fields callable raises at a point in the middle of a file larger than one I/O buffer), and
            # straight afterwards - no read in between - the insert under test
            for q_, p_ in enumerate(pts):
                p_["fields"]["a"] = 2 if q_ == len(pts) // 2 else 1
                p_["tags"]["pad"] = "p" * 60
            hist.append(("update_all", {"fields": ("call", 3), "tags": ("static", {"a": "zz"})}))
        elif big or kinds[i % len(kinds)] == "insert_newer_unsorted":
            pass
        elif i % 4 == 1:
            # the previous operations may leave rows that are logically stored but (if the library is wrong) not yet in the file
            bad = [g.point(), g.point()]
            bad.insert(r.randrange(1, 3), None)
            hist.append(("insert", bad, None, "multiple"))
        elif i % 4 == 3:
            hist.append(("remove", ("S", "tags", [("k", "id")], ("cmp", "==", ("s", "nope"))), None))
            hist.append(("insert", [g.point()], None))
        if kind in ("rewrite_line_separators", "rewrite_twice_linebreaks"):
            # the rows a rewrite passes through UNCHANGED hold the characters str.splitlines() breaks at but the csv module does not (VT, FF, FS, GS, RS,
            # NEL, U+2028, U+2029), resp. CR / CRLF / LF inside cells; the second kind rewrites TWICE in one session (the second rewrite reads through
            # the handle the first one reopened)
            seps = ["\x0b", "\x0c", "\x1c", "\x1d", "\x1e", "\x85", "\u2028", "\u2029"] if kind == "rewrite_line_separators" else ["\r", "\r\n", "\n", "\r\r\n"]
            for q_, p_ in enumerate(pts):
                p_["tags"]["note"] = "east" + seps[(i + q_) % len(seps)] + "wing" + seps[(i + 2 * q_ + 1) % len(seps)]
            hist = [("insert", pts, None, "multiple")]
            last = ("S", "fields", [("k", "n")], ("cmp", "==", ("n", ns[-1] if ns else 1)))
            if kind == "rewrite_twice_linebreaks":
                hist.append(("update", last, {"fields": ("static", {"seen": 1})}, None))
            first = ("S", "fields", [("k", "n")], ("cmp", "==", ("n", ns[0] if ns else 1)))          # the rows AFTER the named one pass through unchanged
            op = ("remove", first, None) if i % 2 else ("update", first, {"tags": ("static", {"hit": "1"})}, None)
        elif kind == "insert":
            op = ("insert", [g.point()], r.choice([None, "m1"]))
        elif kind == "insert_multiple":
            op = ("insert", [g.point() for _ in range(r.choice([2, 3]))], None, "multiple")
        elif kind == "insert_newer_unsorted":
            # a batch every point of which is newer than everything stored, handed over in an order that is NOT ascending in time: the rows must
            # reach the file in the order given (a crash leaves a prefix of the batch AS GIVEN)
            newest = max(p["time"] for p in pts)
            ps = [g.point(newest + d * 1000000) for d in r.choice([[3, 1, 2], [2, 4, 1, 3], [5, 5, 1], [9, 1]])]
            op = ("insert", ps, None, "multiple")
        elif kind == "insert_big_rows":
            # a batch whose text is well over 64 KiB in a handful of rows: whatever is written in blocks must still end on row boundaries
            ps = []
            for b in range(r.choice([7, 9])):
                q = g.point()
                q["tags"]["blob"] = "".join(r.choice("abcdefghij,\"") for _ in range(50)) * 220
                ps.append(q)
            op = ("insert", ps, None, "multiple")
        elif kind == "insert_multiple_bad":
            ps = [g.point() for _ in range(3)]
            ps.insert(r.randrange(1, 4), None)
            op = ("insert", ps, None, "multiple")
        elif kind == "remove_some":
            # an early row AND the last stored rows (of the first batch): a removal in two regions of the file
            op = ("remove", ("or", ("S", "tags", [("k", "id")], ("cmp", "==", ("s", str(ns[0] if ns else 1)))),
                             ("S", "fields", [("k", "n")], ("cmp", ">=", ("n", ns[-2] if len(ns) >= 3 else (ns[-1] if ns else 1))))), None)
        elif kind == "remove_none":
            op = ("remove", ("S", "tags", [("k", "id")], ("cmp", "==", ("s", "nope"))), None)
        elif kind == "remove_all_match":
            op = ("remove", ("S", "time", [], ("cmp", ">", ("t", dbgen.T0 - 10 ** 9))), None)
        elif kind == "update_some":
            op = ("update", one, {"tags": ("static", {"a": "upd\r\nated,\"q\""}), "fields": ("static", {"n": 99})}, None)
        elif kind == "update_shrink":
            # the LAST stored points become shorter rows (keys unset, short values): a rewrite that reuses the old file would leave a tail behind
            op = ("update", ("S", "fields", [("k", "n")], ("cmp", ">=", ("n", ns[len(ns) // 2] if len(ns) >= 2 else 1))),
                  {"unset_tags": ["a", "b", "k", "id"], "unset_fields": ["a", "b"], "fields": ("static", {"n": 1})}, None)
        elif kind == "insert_after_failed_update_big":
            op = ("insert", [g.point(pts[-1]["time"] + dbgen.SEC)], None)
        elif kind == "update_newest_big":
            # the NEWEST few rows of a database of more than 128 rows get a new field value (amending the latest readings)
            op = ("update", ("S", "time", [], ("cmp", ">=", ("t", pts[-3]["time"]))), {"fields": ("static", {"amended": 1})}, None)
        elif kind == "remove_most":
            # more than half of the points go, a few stay (retention-style delete): the survivors are the minority
            op = ("remove", ("S", "fields", [("k", "n")], ("cmp", ">=", ("n", ns[1] if len(ns) >= 3 else 1))), None)
        elif kind == "update_nochange":
            op = ("update", one, {"tags": ("static", {"id": str(j)})}, None)
        elif kind == "update_raises":
            op = ("update", ("noop", "tags"), {"fields": ("call", 3), "tags": ("static", {"a": "zz"})}, None)
        elif kind == "drop":
            op = ("drop", r.choice(["m1", "m2", "m3"]))
        elif kind == "remove_all":
            op = ("remove_all",)
        elif kind == "handle_update":
            op = ("handle", r.choice(["m1", "m2"]), ("update_all", {"fields": ("static", {"b": 7})}))
        else:
            op = g.read_op()
        out.append((hist, op, auto, kind))
    return out
