#!/usr/bin/env python3
"""Fail-closed translator: tinyflux/storages.py (CSVStorage: the I/O calls of append, _write([]) / reset, _init_temp_storage,
_swap_temp_with_primary, _cleanup_temp_storage, __iter__, close and the options its handles are opened with) -> coq/gen/IOGen.v

The I/O properties (C04, C12, C13, C15, C16) are theorems about I/O SCRIPTS: the list of calls an operation makes on the primary
handle, the temporary file and the staged copy (IO.v).  This translator executes the bodies of the storage methods SYMBOLICALLY along
their success path and emits that list of calls, in program order, as a Coq term over IO.iostep; proofs/IOGenP.v proves the emitted
scripts equal to the model's (append_script, temp_append_script, reset_script, swap_script, cleanup_script), so the crash / fault /
append-only theorems speak about the calls the source makes now.  It also records with which options every handle is (re)opened.

Accepted fragment (anything else: REFUSED, exit 3, the last verified translation stands in and the check says so):
  handle aliases `handle = self._handle | self._temp_handle`; `if temporary:` (decided per instance), `if not self._temp_handle: raise`,
  `if self._temp_handle is not None:` (precondition), `if self._flush_on_insert:` (kept symbolic), `if items:`; try / finally;
  `<h>.seek(0, os.SEEK_END) | <h>.seek(0) | <h>.flush() | <h>.truncate() | <h>.close()`, `os.fsync(<h>.fileno())`,
  `csv.writer(<h>, **self.kwargs)` with `writerow(item)` in `for item in items` or `writerows(items)`,
  `shutil.copyfile(self._temp_handle.name, staged)`, `os.replace(staged, path)`, `if os.path.exists(staged): os.remove(staged)`,
  `os.remove(self._temp_handle.name)`, `self._handle = open(...)`, `self._temp_handle = NamedTemporaryFile(...) | None`,
  the pure assignments `path = os.path.realpath(self._path)`, `staged = f"{path}.swap"`, `return`.
Usage: py2coq_io.py <path/to/storages.py> <out.v>
"""
import ast
import os
import sys

FALLBACK_FILE = os.path.join(os.path.dirname(os.path.abspath(__file__)), "IOGen.fallback.v")


class Refuse(Exception):
    pass


def _san(t):
    """a refusal reason inside a Coq comment: no comment brackets, no quotes (a quote starts a string even inside a comment)"""
    return t.replace("*", "x").replace("(", "[").replace(")", "]").replace('"', "'")


def strip_doc(body):
    body = list(body)
    while body and isinstance(body[0], ast.Expr) and isinstance(body[0].value, ast.Constant) and isinstance(body[0].value.value, str):
        body = body[1:]
    return body


def is_self_attr(e, name):
    return isinstance(e, ast.Attribute) and e.attr == name and isinstance(e.value, ast.Name) and e.value.id == "self"


class Exec:
    """symbolic execution of one method along its success path"""

    def __init__(self, fn, params):
        self.fn = fn
        self.params = params                  # concrete values of parameters: {"temporary": True, "items": "items" | []}
        self.alias = {}                       # local name -> "P" | "T"
        self.writers = {}                     # local name -> "P" | "T"
        self.cursor = {"P": None, "T": None}  # 0 | "end" | None (unknown)
        self.staged = False
        self.pure = set()
        self.opens = []                       # (what, {kw: source text})
        self.done = False

    def handle(self, e):
        if isinstance(e, ast.Name) and e.id in self.alias:
            return self.alias[e.id]
        if is_self_attr(e, "_handle"):
            return "P"
        if is_self_attr(e, "_temp_handle"):
            return "T"
        return None

    def lit(self, steps):
        return "[" + "; ".join(steps) + "]" if steps else "(@nil iostep)"

    def call(self, c):
        """a call expression evaluated for its effect -> list of segments (coq terms : list iostep)"""
        f = c.func
        if isinstance(f, ast.Attribute):
            h = self.handle(f.value)
            if h:
                if f.attr == "seek":
                    args = [ast.unparse(a) for a in c.args]
                    if args == ["0", "os.SEEK_END"] or args == ["0", "2"]:
                        self.cursor[h] = "end"
                        return [self.lit([h + "SeekEnd"])]
                    if args == ["0"] or args == ["0", "0"] or args == ["0", "os.SEEK_SET"]:
                        self.cursor[h] = 0
                        if h != "P":
                            raise Refuse("seek(0) on the temporary file")
                        return [self.lit(["PSeek0"])]
                    raise Refuse(f"unsupported seek arguments {args}")
                if f.attr == "flush" and not c.args:
                    return [self.lit([h + "Flush"])]
                if f.attr == "truncate" and not c.args:
                    if self.cursor[h] == 0:
                        if h != "P":
                            raise Refuse("truncate at 0 on the temporary file")
                        return [self.lit(["PTruncate0"])]
                    if self.cursor[h] == "end":
                        return [self.lit([h + "Truncate"])]
                    raise Refuse("truncate at an unknown file position")
                if f.attr == "close" and not c.args:
                    return [self.lit([h + "Close"])]
                raise Refuse(f"unsupported call on a handle: {ast.unparse(c)}")
            if isinstance(f.value, ast.Name) and f.value.id in self.writers:
                h = self.writers[f.value.id]
                if f.attr == "writerows" and len(c.args) == 1 and isinstance(c.args[0], ast.Name) and c.args[0].id == "items":
                    self.cursor[h] = "end"
                    return [] if self.params.get("items") == [] else [f"(map {h}Write items)"]
                raise Refuse(f"unsupported writer call {ast.unparse(c)}")
            src = ast.unparse(f)
            if src == "os.fsync" and len(c.args) == 1 and isinstance(c.args[0], ast.Call) and isinstance(c.args[0].func, ast.Attribute) \
                    and c.args[0].func.attr == "fileno" and self.handle(c.args[0].func.value):
                h = self.handle(c.args[0].func.value)
                return [self.lit([h + "Fileno", h + "Fsync"])]
            if src == "shutil.copyfile" and [ast.unparse(a) for a in c.args] == ["self._temp_handle.name", "staged"] and "staged" in self.pure:
                self.staged = True
                return [self.lit(["CopyOpen", "CopyMid", "CopyDone"])]
            if src == "os.replace" and [ast.unparse(a) for a in c.args] == ["staged", "path"] and self.staged and "path" in self.pure:
                self.staged = False
                return [self.lit(["Replace"])]
            if src == "os.remove" and [ast.unparse(a) for a in c.args] == ["self._temp_handle.name"]:
                return [self.lit(["TRemove"])]
        raise Refuse(f"unsupported call {ast.unparse(c)}")

    def block(self, stmts):
        segs = []
        for s in stmts:
            if self.done:
                break
            segs += self.stmt(s)
        return segs

    def stmt(self, s):
        if isinstance(s, ast.Expr) and isinstance(s.value, ast.Constant):
            return []
        if isinstance(s, ast.Return) and s.value is None:
            self.done = True
            return []
        if isinstance(s, ast.Expr) and isinstance(s.value, ast.Call):
            return self.call(s.value)
        if isinstance(s, ast.Assign) and len(s.targets) == 1:
            t, v = s.targets[0], s.value
            if isinstance(t, ast.Name):
                h = self.handle(v)
                if h:
                    self.alias[t.id] = h
                    return []
                if isinstance(v, ast.Call) and ast.unparse(v.func) == "csv.writer" and len(v.args) == 1 and self.handle(v.args[0]) \
                        and [ast.unparse(k.value) for k in v.keywords if k.arg is None] == ["self.kwargs"] and all(k.arg is None for k in v.keywords):
                    self.writers[t.id] = self.handle(v.args[0])
                    return []
                if t.id == "path" and ast.unparse(v) in ("os.path.realpath(self._path)", "os.path.abspath(self._path)", "self._path"):
                    self.pure.add("path")
                    return []
                if t.id == "staged" and ast.unparse(v) == "f'{path}.swap'" and "path" in self.pure:
                    self.pure.add("staged")
                    return []
            if is_self_attr(t, "_handle") and isinstance(v, ast.Call) and ast.unparse(v.func) == "open":
                self.opens.append(("reopen", v))
                return [self.lit(["POpen"])]
            if is_self_attr(t, "_temp_handle"):
                if isinstance(v, ast.Constant) and v.value is None:
                    return []
                if isinstance(v, ast.Call) and ast.unparse(v.func) == "NamedTemporaryFile":
                    self.opens.append(("temp", v))
                    return [self.lit(["TCreate"])]
        if isinstance(s, ast.If):
            t = ast.unparse(s.test)
            if t == "temporary":
                return self.block(s.body if self.params["temporary"] else s.orelse)
            if t == "not self._temp_handle" and all(isinstance(x, ast.Raise) for x in s.body):
                return self.block(s.orelse)                               # precondition: temporary storage has been initialised
            if t == "self._temp_handle is not None" and not s.orelse:
                return self.block(s.body)                                 # precondition of _swap / _cleanup
            if t == "items" and not s.orelse:
                return [] if self.params.get("items") == [] else self.block(s.body)
            if t == "os.path.exists(staged)" and not s.orelse and [ast.unparse(x) for x in s.body] == ["os.remove(staged)"]:
                if self.staged:
                    raise Refuse("the staged copy may still exist on the success path")
                return []
            if t == "self._flush_on_insert" and not s.orelse:
                inner = self.block(s.body)
                return [f"(if flush then {' ++ '.join(inner) if inner else '(@nil iostep)'} else (@nil iostep))"]
        if isinstance(s, ast.For) and isinstance(s.target, ast.Name) and ast.unparse(s.iter) == "items" and not s.orelse:
            body = [x for x in s.body if not (isinstance(x, ast.Expr) and isinstance(x.value, ast.Constant))]
            if len(body) == 1 and isinstance(body[0], ast.Expr) and isinstance(body[0].value, ast.Call):
                c = body[0].value
                if isinstance(c.func, ast.Attribute) and c.func.attr == "writerow" and isinstance(c.func.value, ast.Name) and c.func.value.id in self.writers \
                        and [ast.unparse(a) for a in c.args] == [s.target.id]:
                    h = self.writers[c.func.value.id]
                    self.cursor[h] = "end"
                    return [f"(map {h}Write items)"]
        if isinstance(s, ast.Try) and not s.handlers and not s.orelse:
            return self.block(s.body) + self.block(s.finalbody)
        raise Refuse(f"{self.fn.name}: unsupported statement `{ast.unparse(s)[:90]}`")

    def run(self):
        segs = self.block(strip_doc(self.fn.body))
        return " ++ ".join(segs) if segs else "(@nil iostep)"


def kw_of(call, pos_names):
    kw = {n: ast.unparse(a) for n, a in zip(pos_names, call.args)}
    kw.update({k.arg: ast.unparse(k.value) for k in call.keywords if k.arg})
    return kw


def coq_bool(b):
    return "true" if b else "false"


HEADER = """(* GENERATED on every run by harness/py2coq_io.py from tinyflux/storages.py (CSVStorage: the I/O calls of its methods along their
   success path, the options its handles are opened with) - do not edit.  proofs/IOGenP.v proves these scripts equal to the model's. *)
From Coq Require Import List Bool.
From TF Require Import Base Query Index DB IO.
Import ListNotations.

"""


def main():
    src_path, out_path = sys.argv[1], sys.argv[2]
    refused = None
    try:
        tree = ast.parse(open(src_path).read())
        classes = {n.name: n for n in tree.body if isinstance(n, ast.ClassDef)}
        if "CSVStorage" not in classes:
            raise Refuse("class CSVStorage not found")
        fns = {n.name: n for n in classes["CSVStorage"].body if isinstance(n, ast.FunctionDef)}
        for f in ("append", "_write", "reset", "_init_temp_storage", "_swap_temp_with_primary", "_cleanup_temp_storage", "__iter__", "close", "__init__"):
            if f not in fns:
                raise Refuse(f"CSVStorage.{f} not found")
        out = ["Definition refused : bool := false.\n"]
        a = fns["append"]
        if [x.arg for x in a.args.args] != ["self", "items", "temporary"]:
            raise Refuse("append: unexpected signature")
        ep, et = Exec(a, {"temporary": False, "items": "items"}), Exec(a, {"temporary": True, "items": "items"})
        out.append("(* CSVStorage.append(items, temporary): `flush` is self._flush_on_insert *)\n"
                   f"Definition gen_append (temporary flush : bool) (items : list point) : list iostep :=\n  if temporary then {et.run()}\n  else {ep.run()}.\n")
        if [ast.unparse(s) for s in strip_doc(fns["reset"].body)] not in (["self._write([])", "return"], ["self._write([])"]):
            raise Refuse("reset is not `self._write([])`")
        w = Exec(fns["_write"], {"items": []})
        out.append(f"(* CSVStorage.reset() = _write([]) *)\nDefinition gen_reset : list iostep :=\n  {w.run()}.\n")
        it = Exec(fns["_init_temp_storage"], {})
        out.append(f"Definition gen_init_temp : list iostep :=\n  {it.run()}.\n")
        sw = Exec(fns["_swap_temp_with_primary"], {})
        out.append(f"Definition gen_swap : list iostep :=\n  {sw.run()}.\n")
        cl = Exec(fns["_cleanup_temp_storage"], {})
        out.append(f"Definition gen_cleanup : list iostep :=\n  {cl.run()}.\n")
        body = [ast.unparse(s) for s in strip_doc(fns["__iter__"].body)]
        if body != ["self._handle.seek(0)", "return csv.reader(self._handle, **self.kwargs)"]:
            raise Refuse(f"__iter__ is not `seek(0); return csv.reader(self._handle, **self.kwargs)`: {body}")
        out.append("(* CSVStorage.__iter__: rewind, then the csv reader pulls one record per step *)\nDefinition gen_iter_start : list iostep := [PSeek0].\n")
        cb = [ast.unparse(s) for s in strip_doc(fns["close"].body)]
        if cb not in (["self._handle.close()", "return"], ["self._handle.close()"]):
            raise Refuse("close is not `self._handle.close()`")
        out.append("Definition gen_close : list iostep := [PClose].\n")
        # options of the handles
        temp_kw = kw_of(it.opens[0][1], ["mode"]) if it.opens else {}
        re_kw = kw_of(sw.opens[0][1], ["file", "mode"]) if sw.opens else {}
        init_open = [n for n in ast.walk(fns["__init__"]) if isinstance(n, ast.Call) and ast.unparse(n.func) == "open"]
        if len(init_open) != 1:
            raise Refuse("__init__: expected one open(...)")
        in_kw = kw_of(init_open[0], ["file", "mode"])
        assigns = {ast.unparse(s.targets[0]): ast.unparse(s.value) for s in ast.walk(fns["__init__"]) if isinstance(s, ast.Assign) and len(s.targets) == 1}
        keeps = assigns.get("self._encoding") == "encoding" and assigns.get("self._newline") == "newline" and assigns.get("self._mode") == "access_mode"
        newline_default = [ast.unparse(d) for a_, d in zip(fns["__init__"].args.args[-len(fns["__init__"].args.defaults):], fns["__init__"].args.defaults) if a_.arg == "newline"]
        out.append("(* with which options the handles are opened: the temporary file and the handle reopened after a rewrite use the storage's text\n"
                   "   encoding; every handle is opened without newline translation by default (newline=\"\"); the reopen never truncates *)\n"
                   f"Definition temp_uses_storage_encoding : bool := {coq_bool(temp_kw.get('encoding') == 'self._encoding')}.\n"
                   f"Definition temp_untranslated_newlines : bool := {coq_bool(temp_kw.get('newline') == repr(''))}.\n"
                   f"Definition temp_kept_until_removed : bool := {coq_bool(temp_kw.get('delete') == 'False')}.\n"
                   f"Definition reopen_uses_storage_encoding : bool := {coq_bool(re_kw.get('encoding') == 'self._encoding')}.\n"
                   f"Definition reopen_uses_storage_newline : bool := {coq_bool(re_kw.get('newline') == 'self._newline')}.\n"
                   f"Definition reopen_never_truncates : bool := {coq_bool(re_kw.get('mode') == chr(39) + 'r+' + chr(39) + ' if self._mode == ' + chr(39) + 'w+' + chr(39) + ' else self._mode')}.\n"
                   f"Definition reopen_same_file : bool := {coq_bool(re_kw.get('file') in ('self._path', 'path'))}.\n"
                   f"Definition open_uses_given_options : bool := {coq_bool(keeps and in_kw.get('encoding') == 'encoding' and in_kw.get('newline') == 'self._newline' and in_kw.get('mode') == 'self._mode')}.\n"
                   f"Definition newline_default_untranslated : bool := {coq_bool(newline_default == [repr('')])}.\n")
        text = HEADER + "\n".join(out)
    except Refuse as r:
        refused = str(r)
        snap = open(FALLBACK_FILE).read().replace("Definition refused : bool := false.", "Definition refused : bool := true.")
        text = f"(* REFUSED by the translator: {_san(refused[:160])} - the last verified translation (harness/IOGen.fallback.v) stands in *)\n" + snap
    try:
        old = open(out_path).read()
    except FileNotFoundError:
        old = None
    if old != text:
        open(out_path, "w").write(text)
    if refused:
        print(f"REFUSED storage scripts: {refused}")
    return 3 if refused else 0


if __name__ == "__main__":
    sys.exit(main())
