#!/bin/bash
# run_all_seeded.sh [parallelism]: every seeded change against the quick check of its own property (scratch worktrees), results in seeded/<id>/detected.json
cd "$(dirname "$0")/.."
ls seeded | grep -E '^C[0-9]+-[0-9]+$' | sort -V | xargs -P ${1:-3} -I{} sh -c 'id={}; /venv/bin/python harness/runmut_wt.py $id ${id%-*} quick 2>&1 | grep -v conda | tail -1'
