#!/usr/bin/env python3
"""Fail-closed translator: tinyflux/database.py (TinyFlux._insert_helper) -> coq/gen/InsertGen.v

What an insert does to the index is decided by a few lines inside the loop of _insert_helper (is the index kept, fed, or dropped?
is the point in time order?) and by the line after the loop; what it stores is the point renamed to the measurement argument.  The
translator checks the skeleton of the function (the clock is read once before the loop; the loop raises TypeError on a non-Point,
renames, normalises or assigns the time, appends ONE serialised point to storage inside try / except: invalidate; raise, counts) and
translates the decisions:

    gen_rename m p                : point   the point as it is stored under the measurement argument m
    gen_index_step auto ix p      : index   the index after the point has been appended to storage
    gen_index_after_loop n auto ix: index   the statement after the loop

proofs/InsertGenP.v proves the loop assembled from these equal to the model's DB.insert_loop for every state and batch.
Accepted fragment: conditions over self._auto_index, self._index.valid, self._index.empty, point.time < self._index.latest_time, measurement,
point.measurement != measurement, count, with and / or / not; actions self._index.invalidate(), self._index.insert([point]),
point.measurement = measurement; if / elif / else.  Anything else: REFUSED (exit 3), the last verified translation stands in.
Usage: py2coq_insert.py <path/to/database.py> <out.v>
"""
import ast
import os
import sys

FALLBACK_FILE = os.path.join(os.path.dirname(os.path.abspath(__file__)), "InsertGen.fallback.v")


class Refuse(Exception):
    pass


def strip_doc(body):
    body = list(body)
    while body and isinstance(body[0], ast.Expr) and isinstance(body[0].value, ast.Constant) and isinstance(body[0].value.value, str):
        body = body[1:]
    return body


def cond(e):
    s = ast.unparse(e)
    atoms = {"self._auto_index": "auto", "self._index.valid": "(ix_valid ix)", "self._index.empty": "(ix_is_empty ix)",
             "point.time < self._index.latest_time": "(time_before p (ix_latest ix))", "measurement": "(m_truthy m)",
             "point.measurement != measurement": "(negb (meas_is p m))", "count": "(negb (Nat.eqb count 0))"}
    if s in atoms:
        return atoms[s]
    if isinstance(e, ast.UnaryOp) and isinstance(e.op, ast.Not):
        return f"(negb {cond(e.operand)})"
    if isinstance(e, ast.BoolOp):
        op = "andb" if isinstance(e.op, ast.And) else "orb"
        out = cond(e.values[-1])
        for v in reversed(e.values[:-1]):
            out = f"({op} {cond(v)} {out})"
        return out
    raise Refuse(f"unsupported condition `{s}`")


def index_block(stmts, cur="ix"):
    """statements that only act on the index -> coq term : index"""
    term = cur
    for s in stmts:
        if isinstance(s, ast.Expr) and isinstance(s.value, ast.Constant):
            continue
        src = ast.unparse(s)
        if src == "self._index.invalidate()":
            term = f"(ix_invalidate {term})"
        elif src == "self._index.insert([point])":
            term = f"(ix_insert {term} p)"
        elif isinstance(s, ast.If):
            if term != cur:
                raise Refuse("an `if` after an index action in the same block")
            els = index_block(s.orelse, cur) if s.orelse else cur
            term = f"(if {cond(s.test)} then {index_block(s.body, cur)} else {els})"
        else:
            raise Refuse(f"unsupported statement on the index `{src[:70]}`")
    return term


def main():
    src_path, out_path = sys.argv[1], sys.argv[2]
    refused = None
    try:
        tree = ast.parse(open(src_path).read())
        cls = [n for n in tree.body if isinstance(n, ast.ClassDef) and n.name == "TinyFlux"]
        if len(cls) != 1:
            raise Refuse("class TinyFlux not found")
        fns = {n.name: n for n in cls[0].body if isinstance(n, ast.FunctionDef)}
        fn = fns.get("_insert_helper")
        if fn is None:
            raise Refuse("_insert_helper not found")
        if [a.arg for a in fn.args.args] != ["self", "points", "measurement", "compact_key_prefixes"]:
            raise Refuse("unexpected signature")
        body = strip_doc(fn.body)
        if len(body) < 4 or ast.unparse(body[0]) != "t = datetime.now(timezone.utc)" or ast.unparse(body[1]) != "count = 0" or not isinstance(body[2], ast.For):
            raise Refuse("expected `t = datetime.now(timezone.utc); count = 0; for point in points:`")
        loop = body[2]
        if ast.unparse(loop.target) != "point" or ast.unparse(loop.iter) != "points" or loop.orelse:
            raise Refuse("unexpected loop header")
        after = body[3:]
        if not after or ast.unparse(after[-1]) != "return count":
            raise Refuse("the function does not end in `return count`")
        lb = [s for s in loop.body if not (isinstance(s, ast.Expr) and isinstance(s.value, ast.Constant))]
        if len(lb) != 6:
            raise Refuse(f"unexpected loop body ({len(lb)} statements)")
        chk, ren, tim, app, idx, cnt = lb
        if ast.unparse(chk) != "if not isinstance(point, Point):\n    raise TypeError('Data must be a Point instance.')":
            raise Refuse("the loop does not start by rejecting non-Points with TypeError")
        if not (isinstance(ren, ast.If) and not ren.orelse and [ast.unparse(s) for s in ren.body] == ["point.measurement = measurement"]):
            raise Refuse("unexpected renaming statement")
        if ast.unparse(tim) != "if point.time:\n    point.time = point.time.astimezone(timezone.utc)\nelse:\n    point.time = t":
            raise Refuse("unexpected time statement")
        ok = isinstance(app, ast.Try) and len(app.body) == 1 and len(app.handlers) == 1 and not app.orelse and not app.finalbody \
            and ast.unparse(app.body[0]) == "self._storage.append([self._storage._serialize_point(point, compact_key_prefixes=compact_key_prefixes)])" \
            and ast.unparse(app.handlers[0].type) == "Exception" and [ast.unparse(s) for s in app.handlers[0].body] == ["self._index.invalidate()", "raise"]
        if not ok:
            raise Refuse("unexpected storage append (one serialised point per call, invalidate and re-raise on failure)")
        if ast.unparse(cnt) != "count += 1":
            raise Refuse("unexpected counting statement")
        rename = f"(if {cond(ren.test)} then set_meas_o p m else p)"
        step = index_block([idx])
        post = index_block(after[:-1])
        text = HEADER + "Definition refused : bool := false.\n\n" + \
            f"Definition gen_rename (m : option str) (p : point) : point :=\n  {rename}.\n\n" + \
            f"Definition gen_index_step (auto : bool) (ix : index) (p : point) : index :=\n  {step}.\n\n" + \
            f"Definition gen_index_after_loop (count : nat) (auto : bool) (ix : index) : index :=\n  {post}.\n"
    except (Refuse, SyntaxError, OSError) as r:
        refused = str(r)
        snap = open(FALLBACK_FILE).read().replace("Definition refused : bool := false.", "Definition refused : bool := true.")
        text = "(* REFUSED by the translator: " + refused[:140].replace("*", "x").replace("(", "[").replace(")", "]").replace('"', "'") + \
               " - the last verified translation (harness/InsertGen.fallback.v) stands in *)\n" + snap
    try:
        old = open(out_path).read()
    except FileNotFoundError:
        old = None
    if old != text:
        open(out_path, "w").write(text)
    if refused:
        print(f"REFUSED _insert_helper: {refused}")
    return 3 if refused else 0


HEADER = """(* GENERATED on every run by harness/py2coq_insert.py from tinyflux/database.py (TinyFlux._insert_helper) - do not edit.
   proofs/InsertGenP.v proves the insert loop assembled from these decisions equal to the model's DB.insert_loop. *)
From Coq Require Import List ZArith Bool Arith.
From TF Require Import Base Query Index DB InsertSem.
Import ListNotations.

"""

if __name__ == "__main__":
    sys.exit(main())
