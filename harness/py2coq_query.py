#!/usr/bin/env python3
"""Fail-closed translator: tinyflux/queries.py (how query objects get their identity) -> coq/gen/QueryGen.v

Two queries are `==` when their `_hash` keys are; the keys are built in a dozen places of queries.py.  This translator
re-reads all of them on every run:

  * BaseQuery.__eq__/__ne__/__lt__/__le__/__gt__/__ge__: which function of `operator` is the test (-> cmp_operator), that it is
    tested against the comparison value, and the key tuple (self._point_attr, "<tag>", self._path, rhs) (-> hash_cmp);
  * TagQuery.exists / FieldQuery.exists, BaseQuery.matches / search / test / noop: their key tuples (-> hash_exists, hash_matches,
    hash_search, hash_test, hash_noop) and, for the regex tests, which function of `re` they call (-> regex_is_search);
  * BaseQuery.__getattr__ / map: whether the builder stays hashable (-> builder_hash_after_key, builder_hash_after_map), and
    _generate_simple_query's `hashval if self.is_hashable() else None` (-> simple_hash);
  * SimpleQuery / CompoundQuery .__and__ / __or__ / __invert__: the operator, the key ("and", frozenset([a, b])) | ("not", a), and the
    condition under which there is a key at all (-> s_and_hash ... c_not_hash, s_and_operator ...);
  * SimpleQuery / CompoundQuery .__eq__ and .__hash__, is_hashable (-> simple_eq, compound_eq).

proofs/QueryGenP.v proves that the model's hash trees under hv_eqb ARE these keys under Python's ==, and that the model's qeq
IS the generated __eq__, for every pair of queries (C17_source_identity_is_the_model).  Anything outside the fragment: REFUSED
(exit 3), the hand model stands in and the check says so.
Usage: py2coq_query.py <path/to/queries.py> <out.v>
"""
import ast
import sys

CMPS = {"eq": "Ceq", "ne": "Cne", "lt": "Clt", "le": "Cle", "gt": "Cgt", "ge": "Cge"}
METHS = [("__eq__", "Meq"), ("__ne__", "Mne"), ("__lt__", "Mlt"), ("__le__", "Mle"), ("__gt__", "Mgt"), ("__ge__", "Mge")]
BOOLOPS = {"and_": "BAnd", "or_": "BOr", "not_": "BNot"}


class Refuse(Exception):
    pass


def _san(t):
    """a refusal reason inside a Coq comment: no comment brackets, no quotes (a quote starts a string even inside a comment)"""
    return t.replace("*", "x").replace("(", "[").replace(")", "]").replace('"', "'")


def strip_doc(body):
    body = list(body)
    while body and isinstance(body[0], ast.Expr) and isinstance(body[0].value, ast.Constant) and isinstance(body[0].value.value, str):
        body = body[1:]
    return body


def coq_str(s):
    return "[" + "; ".join(str(ord(c)) for c in s) + "]%N" if s else "(@nil N)"


def is_self_attr(e, name):
    return isinstance(e, ast.Attribute) and e.attr == name and isinstance(e.value, ast.Name) and e.value.id == "self"


def methods(cls):
    return {n.name: n for n in cls.body if isinstance(n, ast.FunctionDef)}


def params(fn):
    if fn.args.kwonlyargs or fn.args.kwarg:
        raise Refuse(f"{fn.name}: unexpected signature")
    return [a.arg for a in fn.args.args], (fn.args.vararg.arg if fn.args.vararg else None)


def key_tuple(e, leaves):
    """a tuple display of the source -> coq term : pyh; leaves: python name -> coq leaf term"""
    if not isinstance(e, ast.Tuple):
        raise Refuse(f"hash key is not a tuple display: {ast.unparse(e)}")
    out = "PNil"
    for x in reversed(e.elts):
        if isinstance(x, ast.Constant) and isinstance(x.value, str):
            t = f"(PStr {coq_str(x.value)})"
        elif is_self_attr(x, "_point_attr"):
            t = "(PAttr a)"
        elif is_self_attr(x, "_path"):
            t = "(PPath ks)"
        elif is_self_attr(x, "_hash"):
            t = "self"
        elif isinstance(x, ast.Attribute) and x.attr == "_hash" and isinstance(x.value, ast.Name) and x.value.id == "other":
            t = "other"
        elif isinstance(x, ast.Name) and x.id in leaves:
            t = leaves[x.id]
        elif isinstance(x, ast.Call) and isinstance(x.func, ast.Name) and x.func.id == "frozenset" and len(x.args) == 1 and not x.keywords \
                and isinstance(x.args[0], (ast.List, ast.Tuple, ast.Set)) and len(x.args[0].elts) == 2:
            a, b = (key_tuple(ast.Tuple(elts=[y], ctx=ast.Load()), leaves) for y in x.args[0].elts)
            # each is (PCons leaf PNil): take the leaf
            t = f"(PFrozen2 {a[len('(PCons '):-len(' PNil)')]} {b[len('(PCons '):-len(' PNil)')]})"
        elif isinstance(x, ast.Tuple):
            t = key_tuple(x, leaves)          # a nested (ordered) tuple
        else:
            raise Refuse(f"unsupported hash key component {ast.unparse(x)}")
        out = f"(PCons {t} {out})"
    return out


def gsq_call(fn):
    """`return self._generate_simple_query(...)` -> dict of argument expressions by parameter name"""
    body = strip_doc(fn.body)
    inner = [s for s in body if isinstance(s, ast.FunctionDef)]
    rest = [s for s in body if not isinstance(s, ast.FunctionDef)]
    if len(rest) != 1 or not isinstance(rest[0], ast.Return) or not isinstance(rest[0].value, ast.Call) \
            or not is_self_attr(rest[0].value.func, "_generate_simple_query"):
        raise Refuse(f"{fn.name}: expected `return self._generate_simple_query(...)`")
    c = rest[0].value
    names = ["operator", "test_against_rhs", "rhs", "args", "hashval"]
    got = dict(zip(names, c.args))
    for k in c.keywords:
        if k.arg in got or k.arg not in names:
            raise Refuse(f"{fn.name}: unexpected argument {k.arg}")
        got[k.arg] = k.value
    if set(got) != set(names):
        raise Refuse(f"{fn.name}: missing arguments {set(names) - set(got)}")
    return got, inner


def const(e, v):
    return isinstance(e, ast.Constant) and e.value is v


def tr_builder(base, tagq, fieldq, gsq):
    out = []
    fns = methods(base)
    # comparisons
    ops, keys = [], []
    for py, m in METHS:
        if py not in fns:
            raise Refuse(f"BaseQuery.{py} not found")
        ps, va = params(fns[py])
        if ps != ["self", "rhs"] or va:
            raise Refuse(f"BaseQuery.{py}: unexpected signature")
        a, inner = gsq_call(fns[py])
        if inner:
            raise Refuse(f"BaseQuery.{py}: unexpected inner function")
        o = a["operator"]
        if not (isinstance(o, ast.Attribute) and isinstance(o.value, ast.Name) and o.value.id == "operator" and o.attr in CMPS):
            raise Refuse(f"BaseQuery.{py}: operator is not a comparison of the operator module")
        if not const(a["test_against_rhs"], True) or not (isinstance(a["rhs"], ast.Name) and a["rhs"].id == "rhs") or not const(a["args"], None):
            raise Refuse(f"BaseQuery.{py}: not a test against the comparison value")
        ops.append(f"  | {m} => {CMPS[o.attr]}")
        keys.append(f"  | {m} => {key_tuple(a['hashval'], {'rhs': '(PVal rhs)'})}")
    out.append("Definition cmp_operator (m : meth) : cmp :=\n  match m with\n" + "\n".join(ops) + "\n  end.\n")
    out.append("Definition hash_cmp (m : meth) (a : attr) (ks : list str) (rhs : value) : pyh :=\n  match m with\n" + "\n".join(keys) + "\n  end.\n")
    # exists (TagQuery and FieldQuery must agree)
    ex = []
    for cls in (tagq, fieldq):
        f = methods(cls).get("exists")
        if f is None:
            raise Refuse(f"{cls.name}.exists not found")
        a, inner = gsq_call(f)
        if inner or not const(a["test_against_rhs"], False) or not const(a["rhs"], None) or not const(a["args"], None) \
                or ast.unparse(a["operator"]) != "lambda _: True":
            raise Refuse(f"{cls.name}.exists: not the constant-true test")
        ex.append(key_tuple(a["hashval"], {}))
    if ex[0] != ex[1]:
        raise Refuse("TagQuery.exists and FieldQuery.exists build different keys")
    out.append(f"Definition hash_exists (a : attr) (ks : list str) : pyh :=\n  {ex[0]}.\n")
    # regex tests
    for py, refn in (("matches", "match"), ("search", "search")):
        f = fns.get(py)
        if f is None:
            raise Refuse(f"BaseQuery.{py} not found")
        ps, va = params(f)
        if ps != ["self", "regex", "flags"] or va:
            raise Refuse(f"BaseQuery.{py}: unexpected signature")
        a, inner = gsq_call(f)
        if len(inner) != 1 or not (isinstance(a["operator"], ast.Name) and a["operator"].id == inner[0].name) \
                or not const(a["test_against_rhs"], False) or not const(a["rhs"], None) or not const(a["args"], None):
            raise Refuse(f"BaseQuery.{py}: unexpected shape")
        ib = [ast.unparse(s) for s in strip_doc(inner[0].body)]
        called = None
        for cand in ("match", "search", "fullmatch"):
            if ib == ["if not isinstance(value, str):\n    return False", f"return re.{cand}(regex, value, flags) is not None"]:
                called = cand
        if called is None or [x.arg for x in inner[0].args.args] != ["value"]:
            raise Refuse(f"BaseQuery.{py}: the regex test is not `str only, re.<f>(regex, value, flags) is not None`")
        if called == "fullmatch":
            raise Refuse(f"BaseQuery.{py}: re.fullmatch has no counterpart in the model")
        out.append(f"Definition hash_{py} (a : attr) (ks : list str) (re fl : N) : pyh :=\n  {key_tuple(a['hashval'], {'regex': '(PN re)', 'flags': '(PN fl)'})}.\n")
        out.append(f"Definition {py}_is_search : bool := {'true' if called == 'search' else 'false'}.\n")
    # test(func, *args)
    f = fns.get("test")
    if f is None:
        raise Refuse("BaseQuery.test not found")
    ps, va = params(f)
    if ps != ["self", "func"] or va != "args":
        raise Refuse("BaseQuery.test: unexpected signature")
    a, inner = gsq_call(f)
    if inner or not (isinstance(a["operator"], ast.Name) and a["operator"].id == "func") or not const(a["test_against_rhs"], False) \
            or not const(a["rhs"], None) or not (isinstance(a["args"], ast.Name) and a["args"].id == "args"):
        raise Refuse("BaseQuery.test: unexpected shape")
    out.append(f"Definition hash_test (a : attr) (ks : list str) (id : N) : pyh :=\n  {key_tuple(a['hashval'], {'func': '(PN id)', 'args': '(PN id)'})}.\n")
    # noop
    f = fns.get("noop")
    if f is None:
        raise Refuse("BaseQuery.noop not found")
    body = strip_doc(f.body)
    if len(body) != 1 or not isinstance(body[0], ast.Return) or not isinstance(body[0].value, ast.Call) or ast.unparse(body[0].value.func) != "SimpleQuery":
        raise Refuse("BaseQuery.noop: expected `return SimpleQuery(...)`")
    kw = {k.arg: k.value for k in body[0].value.keywords}
    if body[0].value.args or set(kw) != {"point_attr", "operator", "rhs", "test", "path_resolver", "hashval"} \
            or ast.unparse(kw["test"]) != "lambda _: True" or ast.unparse(kw["path_resolver"]) != "lambda x: x":
        raise Refuse("BaseQuery.noop: unexpected arguments")
    out.append(f"Definition hash_noop : pyh :=\n  {key_tuple(kw['hashval'], {})}.\n")
    # hashability of the builder
    f = fns.get("is_hashable")
    if f is None or [ast.unparse(s) for s in strip_doc(f.body)] != ["return self._hash is not None"]:
        raise Refuse("BaseQuery.is_hashable is not `return self._hash is not None`")
    f = fns.get("__getattr__")
    lines = [ast.unparse(s) for s in strip_doc(f.body)] if f else []
    want = "query._hash = ('path', query._path) if self.is_hashable() else None"
    if want not in lines or sum("_hash" in l for l in lines) != 1:
        raise Refuse(f"BaseQuery.__getattr__: the builder's hash is not `{want}`")
    f2 = fns.get("__getitem__")
    if f2 is None or [ast.unparse(s) for s in strip_doc(f2.body)] != ["return self.__getattr__(item)"]:
        raise Refuse("BaseQuery.__getitem__ is not `return self.__getattr__(item)`")
    out.append("(* True = still hashable: __getattr__ keeps a key only if the builder had one *)\n"
               "Definition builder_hashable_after_key (was : bool) : bool := was.\n")
    f = fns.get("map")
    lines = [ast.unparse(s) for s in strip_doc(f.body)] if f else []
    if "query._hash = None" not in lines or sum("_hash" in l for l in lines) != 1:
        raise Refuse("BaseQuery.map does not clear the builder's hash")
    out.append("Definition builder_hashable_after_map (was : bool) : bool := false.\n")
    # the four builders start hashable
    # _generate_simple_query: hashval=hashval if self.is_hashable() else None
    ret = [s for s in ast.walk(gsq) if isinstance(s, ast.Return) and isinstance(s.value, ast.Call) and ast.unparse(s.value.func) == "SimpleQuery"]
    if len(ret) != 1:
        raise Refuse("_generate_simple_query: expected one `return SimpleQuery(...)`")
    kw = {k.arg: k.value for k in ret[0].value.keywords}
    if ast.unparse(kw.get("hashval", ast.Constant(value=0))) != "hashval if self.is_hashable() else None":
        raise Refuse("_generate_simple_query: hashval is not `hashval if self.is_hashable() else None`")
    out.append("Definition simple_hash (builder_hashable : bool) (hashval : pyh) : pyh := if builder_hashable then hashval else PNone.\n")
    return "\n".join(out)


def tr_combinators(cls, prefix):
    out = []
    fns = methods(cls)
    f = fns.get("is_hashable")
    if f is None or [ast.unparse(s) for s in strip_doc(f.body)] != ["return self._hash is not None"]:
        raise Refuse(f"{cls.name}.is_hashable is not `return self._hash is not None`")
    for py, name, binary in (("__and__", "and", True), ("__or__", "or", True), ("__invert__", "not", False)):
        f = fns.get(py)
        if f is None:
            raise Refuse(f"{cls.name}.{py} not found")
        body = strip_doc(f.body)
        if len(body) != 2 or not isinstance(body[0], ast.If) or not isinstance(body[1], ast.Return):
            raise Refuse(f"{cls.name}.{py}: expected `if ...: hashval = ... else: hashval = None; return CompoundQuery(...)`")
        iff, ret = body
        cond = ast.unparse(iff.test)
        want = "self.is_hashable() and other.is_hashable()" if binary else "self.is_hashable()"
        if cond not in (want, "other.is_hashable() and self.is_hashable()"):
            raise Refuse(f"{cls.name}.{py}: unexpected condition `{cond}`")
        if len(iff.body) != 1 or len(iff.orelse) != 1 or ast.unparse(iff.orelse[0]) != "hashval = None" \
                or not isinstance(iff.body[0], ast.Assign) or ast.unparse(iff.body[0].targets[0]) != "hashval":
            raise Refuse(f"{cls.name}.{py}: unexpected branches")
        key = key_tuple(iff.body[0].value, {})
        c = ret.value
        if not (isinstance(c, ast.Call) and ast.unparse(c.func) == "CompoundQuery" and len(c.args) == 4 and not c.keywords):
            raise Refuse(f"{cls.name}.{py}: expected `return CompoundQuery(q1, q2, operator, hashval)`")
        q1, q2, op, hv = c.args
        if ast.unparse(q1) != "self" or ast.unparse(q2) != ("other" if binary else "None") or ast.unparse(hv) != "hashval" \
                or not (isinstance(op, ast.Attribute) and ast.unparse(op.value) == "operator" and op.attr in BOOLOPS):
            raise Refuse(f"{cls.name}.{py}: unexpected CompoundQuery arguments")
        if binary:
            out.append(f"Definition {prefix}_{name}_hash (self other : pyh) : pyh :=\n  if andb (negb (pyh_is_none self)) (negb (pyh_is_none other)) then {key} else PNone.\n")
        else:
            out.append(f"Definition {prefix}_{name}_hash (self : pyh) : pyh :=\n  if negb (pyh_is_none self) then {key} else PNone.\n")
        out.append(f"Definition {prefix}_{name}_operator : boolop := {BOOLOPS[op.attr]}.\n")
    # __eq__
    f = fns.get("__eq__")
    body = strip_doc(f.body) if f else []
    if len(body) != 1 or not isinstance(body[0], ast.If) or [ast.unparse(s) for s in body[0].body] != ["return bool(self._hash == other._hash)"] \
            or [ast.unparse(s) for s in body[0].orelse] != ["return False"]:
        raise Refuse(f"{cls.name}.__eq__: unexpected shape")
    t = body[0].test
    if not isinstance(t, ast.BoolOp) or not isinstance(t.op, ast.And) or len(t.values) != 3 \
            or ast.unparse(t.values[1]) != "self._hash" or ast.unparse(t.values[2]) != "other._hash":
        raise Refuse(f"{cls.name}.__eq__: unexpected condition")
    inst = ast.unparse(t.values[0])
    kinds = {"isinstance(other, SimpleQuery)": "other_is_simple", "isinstance(other, (CompoundQuery, SimpleQuery))": "true",
             "isinstance(other, (SimpleQuery, CompoundQuery))": "true", "isinstance(other, CompoundQuery)": "(negb other_is_simple)"}
    if inst not in kinds:
        raise Refuse(f"{cls.name}.__eq__: unexpected isinstance test `{inst}`")
    out.append(f"(* other is a query object: a SimpleQuery or a CompoundQuery *)\nDefinition {prefix}_eq (other_is_simple : bool) (self other : pyh) : bool :=\n"
               f"  if andb {kinds[inst]} (andb (pyh_truthy self) (pyh_truthy other)) then pyh_eqb self other else false.\n")
    f = fns.get("__hash__")
    if f is None or [ast.unparse(s) for s in strip_doc(f.body)] != ["return hash(self._hash)"]:
        raise Refuse(f"{cls.name}.__hash__ is not `return hash(self._hash)`")
    return "\n".join(out)


def coq_res_const(e):
    if isinstance(e, ast.Constant) and e.value is True:
        return "(RB true)"
    if isinstance(e, ast.Constant) and e.value is False:
        return "(RB false)"
    raise Refuse(f"expected a boolean constant, got {ast.unparse(e)}")


def tr_eval(simple, compound, gsq):
    """SimpleQuery.__call__, CompoundQuery.__call__, the `test` and `path_resolver` closures of _generate_simple_query"""
    out = []
    # SimpleQuery.__call__
    f = methods(simple).get("__call__")
    body = strip_doc(f.body) if f else []
    ok = len(body) == 3 and ast.unparse(body[0]) == "obj_attr = getattr(point, self._point_attr)" and isinstance(body[1], ast.Try) \
        and [ast.unparse(s) for s in body[1].body] == ["value = self._path_resolver(obj_attr)"] and len(body[1].handlers) == 1 \
        and ast.unparse(body[1].handlers[0].type) == "Exception" and len(body[1].handlers[0].body) == 1 and isinstance(body[1].handlers[0].body[0], ast.Return) \
        and not body[1].orelse and not body[1].finalbody and ast.unparse(body[2]) == "return self._test(value)"
    if not ok:
        raise Refuse("SimpleQuery.__call__: unexpected shape")
    on_fail = coq_res_const(body[1].handlers[0].body[0].value)
    out.append("(* SimpleQuery.__call__: the path resolver may fail (a missing key, a function in the path that raises): the answer is then a constant;\n"
               "   otherwise whatever the test says, its exceptions included *)\n"
               f"Definition gen_simple_call (resolved : option value) (test : value -> res) : res :=\n  match resolved with None => {on_fail} | Some value => test value end.\n")
    # CompoundQuery.__call__
    f = methods(compound).get("__call__")
    body = strip_doc(f.body) if f else []
    ok = len(body) == 2 and isinstance(body[0], ast.If) and ast.unparse(body[0].test) == "self.query2" and not body[0].orelse \
        and [ast.unparse(s) for s in body[0].body] == ["return self.operator(self.query1(point), self.query2(point))"] \
        and ast.unparse(body[1]) == "return self.operator(self.query1(point))"
    if not ok:
        raise Refuse("CompoundQuery.__call__: unexpected shape")
    out.append("(* CompoundQuery.__call__: both operands are evaluated, then the operator is applied to their results *)\n"
               "Definition gen_compound_call (op : boolop) (r1 : res) (r2 : option res) : res :=\n"
               "  match r2 with Some b => apply_boolop2 op r1 b | None => apply_boolop1 op r1 end.\n")
    # the test closure
    inner = {n.name: n for n in gsq.body if isinstance(n, ast.FunctionDef)}
    tf_ = inner.get("test")
    body = strip_doc(tf_.body) if tf_ else []
    ok = len(body) == 2 and isinstance(body[0], ast.If) and ast.unparse(body[0].test) == "not test_against_rhs" and not body[0].orelse \
        and [ast.unparse(s) for s in body[0].body] == ["return operator(x, *args) if args else operator(x)"] and isinstance(body[1], ast.Try) \
        and len(body[1].handlers) == 1 and ast.unparse(body[1].handlers[0].type) == "Exception" and len(body[1].handlers[0].body) == 1 \
        and isinstance(body[1].handlers[0].body[0], ast.Return) and not body[1].orelse and not body[1].finalbody
    if not ok:
        raise Refuse("_generate_simple_query.test: unexpected shape")
    tb = body[1].body
    if ast.unparse(tb[-1]) != "return operator(x, rhs)":
        raise Refuse("_generate_simple_query.test: the comparison is not `return operator(x, rhs)`")
    for s in tb[:-1]:
        # only the expression of a zoned time in UTC may precede the comparison (F34)
        if not (isinstance(s, ast.If) and "self._point_attr == '_time'" in ast.unparse(s.test) and [ast.unparse(b) for b in s.body] == ["x = x.astimezone(timezone.utc)"] and not s.orelse):
            raise Refuse(f"_generate_simple_query.test: unexpected statement `{ast.unparse(s)[:60]}`")
    on_exc = coq_res_const(body[1].handlers[0].body[0].value)
    out.append("(* the test closure: a test that is not a comparison calls the function (its exceptions propagate); a comparison that raises\n"
               "   (None < 3, str < float) is a constant *)\n"
               f"Definition gen_test (against_rhs : bool) (plain : res) (compared : option bool) : res :=\n"
               f"  if negb against_rhs then plain else match compared with Some b => RB b | None => {on_exc} end.\n")
    pr = inner.get("path_resolver")
    src = [ast.unparse(s) for s in strip_doc(pr.body)] if pr else []
    want = ["try:\n    for part in self._path:\n        if isinstance(part, str):\n            value = value[part]\n        else:\n            value = part(value)\n    return value\nexcept Exception as e:\n    raise e"]
    if src != want:
        raise Refuse("_generate_simple_query.path_resolver: not the key / function walk over self._path")
    out.append("(* the path resolver walks self._path: a string part is a key lookup, any other part is called; checked structurally *)\n"
               "Definition path_walk_is_key_or_call : bool := true.\n")
    return "\n".join(out)


HEADER = """(* GENERATED on every run by harness/py2coq_query.py from tinyflux/queries.py (every place where a query object gets its
   `_hash` key, its test operator, its ==) - do not edit.  proofs/QueryGenP.v proves the model's hash trees and qeq equal to these. *)
From Coq Require Import List NArith Bool.
From TF Require Import Base Query QuerySem.
Import ListNotations.

"""

import os
FALLBACK_FILE = os.path.join(os.path.dirname(os.path.abspath(__file__)), "QueryGen.fallback.v")   # the last verified translation


def main():
    src_path, out_path = sys.argv[1], sys.argv[2]
    refused = None
    try:
        tree = ast.parse(open(src_path).read())
        classes = {n.name: n for n in tree.body if isinstance(n, ast.ClassDef)}
        for c in ("CompoundQuery", "SimpleQuery", "BaseQuery", "TagQuery", "FieldQuery", "MeasurementQuery", "TimeQuery"):
            if c not in classes:
                raise Refuse(f"class {c} not found")
        gsq = methods(classes["BaseQuery"]).get("_generate_simple_query")
        if gsq is None:
            raise Refuse("BaseQuery._generate_simple_query not found")
        # no subclass may override the comparison builders
        for c in ("TagQuery", "FieldQuery", "MeasurementQuery", "TimeQuery"):
            over = set(methods(classes[c])) - {"__init__", "exists", "matches", "search"}
            if over:
                raise Refuse(f"{c} overrides {sorted(over)}")
            for m in ("matches", "search"):
                f = methods(classes[c]).get(m)
                if f is not None and not all(isinstance(s, ast.Raise) for s in strip_doc(f.body)):
                    raise Refuse(f"{c}.{m} is overridden by something other than a raise")
        text = HEADER + "Definition refused : bool := false.\n\n" + tr_builder(classes["BaseQuery"], classes["TagQuery"], classes["FieldQuery"], gsq) + "\n" \
            + tr_combinators(classes["SimpleQuery"], "s") + "\n" + tr_combinators(classes["CompoundQuery"], "c") + "\n" \
            + tr_eval(classes["SimpleQuery"], classes["CompoundQuery"], gsq)
    except Refuse as r:
        refused = str(r)
        snap = open(FALLBACK_FILE).read().replace("Definition refused : bool := false.", "Definition refused : bool := true.")
        text = f"(* REFUSED by the translator: {_san(refused[:160])} - the last verified translation (harness/QueryGen.fallback.v) stands in *)\n" + snap
    try:
        old = open(out_path).read()
    except FileNotFoundError:
        old = None
    if old != text:
        open(out_path, "w").write(text)
    if refused:
        print(f"REFUSED query identity: {refused}")
    return 3 if refused else 0


if __name__ == "__main__":
    sys.exit(main())
