"""Shared machinery of the /verif checks: Coq build, model evaluation, evidence, verdicts."""
import fcntl
import hashlib
import json
import os
import re
import shutil
import subprocess
import sys
import time
from pathlib import Path

VERIF = Path(__file__).resolve().parent.parent
COQ = Path(os.environ.get("VERIF_COQ_DIR", str(VERIF / "coq")))      # scratch runs against a changed tree use a private copy
REPO = Path(os.environ.get("VERIF_REPO", "/repo"))
PY = "/venv/bin/python"
NCPU = min(16, os.cpu_count() or 4)

FORBIDDEN = re.compile(
    r"\bAdmitted\b|\badmit\b|\bAxiom\b|\bParameter\b|\bParameters\b|\bConjecture\b|\bAdmit Obligations\b|"
    r"Unset Guard|Unset Positivity|Unset Universe|bypass_check|type-in-type|impredicative-set|\bAxioms\b")

TRUSTED_BASE_COMMON = [
    "Coq 8.16.1 kernel and its VM (vm_compute); native_compute is not used",
    "Coq standard library (Lists, ZArith, Bool, Arith, Lia/micromega) ; no axioms declared by this development",
    "the correspondence harness under /verif/harness (generators, canonicalisation, digest) and CPython 3.12 executing the implementation",
]


def sh(cmd, timeout=600, cwd=None, env=None, input=None):
    e = dict(os.environ)
    if env:
        e.update(env)
    try:
        p = subprocess.run(cmd, shell=isinstance(cmd, str), cwd=cwd, env=e, input=input,
                           stdout=subprocess.PIPE, stderr=subprocess.STDOUT, timeout=timeout, text=True)
        return p.returncode, p.stdout
    except subprocess.TimeoutExpired as t:
        return 124, (t.stdout or "") + "\nTIMEOUT"


def impl_env(tz="UTC", extra=None):
    env = {"PYTHONPATH": str(REPO), "PYTHONHASHSEED": "0", "TZ": tz, "PYTHONDONTWRITEBYTECODE": "1"}
    if extra:
        env.update(extra)
    return env


def use_impl():
    """Make `import tinyflux` resolve to the tree under test inside this process."""
    sys.dont_write_bytecode = True
    sys.path.insert(0, str(REPO))
    for m in [m for m in sys.modules if m == "tinyflux" or m.startswith("tinyflux.")]:
        del sys.modules[m]
    import tinyflux
    assert Path(tinyflux.__file__).resolve().parent == (REPO / "tinyflux").resolve(), tinyflux.__file__
    return tinyflux


def run_translator(script, src_rel, out_rel, refused):
    """regenerate one generated Coq file from the tree under test; refusals (source outside the translated fragment) are collected"""
    rc, out = sh([PY, str(VERIF / "harness" / script), str(REPO / src_rel), str(COQ / out_rel)], timeout=60)
    refused.extend(l for l in out.splitlines() if l.startswith("REFUSED"))
    return rc


IO_TRANSLATOR_COV = {"source": "tinyflux/storages.py: CSVStorage.append / _write([]) / reset / _init_temp_storage / _swap_temp_with_primary / _cleanup_temp_storage / __iter__ / "
                               "close and the options of every open() / NamedTemporaryFile() -> coq/gen/IOGen.v (symbolic execution along the success path, regenerated on this run)",
                     "equivalence_theorems": "gen_script_of_eq, gen_handle_options (proofs/IOGenP.v)"}


class BuildLock:
    def __enter__(self):
        self.f = open(COQ / ".build.lock", "w")
        fcntl.flock(self.f, fcntl.LOCK_EX)
        return self

    def __exit__(self, *a):
        fcntl.flock(self.f, fcntl.LOCK_UN)
        self.f.close()


def write_if_changed(path: Path, text: str):
    if path.exists() and path.read_text() == text:
        return False
    path.write_text(text)
    return True


def ensure_makefile():
    mk = COQ / "Makefile"
    cp = COQ / "_CoqProject"
    if not mk.exists() or mk.stat().st_mtime < cp.stat().st_mtime:
        rc, out = sh("coq_makefile -f _CoqProject -o Makefile", cwd=COQ, timeout=120)
        if rc != 0:
            raise RuntimeError("coq_makefile failed:\n" + out)


def coq_make(targets, timeout=1500):
    """make the given .vo targets (full .vo build, never -vos). Returns (ok, log)."""
    ensure_makefile()
    rc, out = sh(["make", f"-j{NCPU}", *targets], cwd=COQ, timeout=timeout)
    return rc == 0, out


def coq_cone(vfile: str):
    """Source files (relative to coq/) that vfile transitively depends on, itself included."""
    seen, todo = [], [vfile]
    while todo:
        f = todo.pop()
        if f in seen or not (COQ / f).exists():
            continue
        seen.append(f)
        rc, out = sh(["coqdep", "-R", ".", "TF", f], cwd=COQ, timeout=60)
        for m in re.finditer(r"(\S+)\.vo\b", out.split(":", 1)[1] if ":" in out else ""):
            g = m.group(1) + ".v"
            if not g.startswith("/") and g not in seen:
                todo.append(g)
    return sorted(seen)


def scan_forbidden():
    bad = []
    for p in sorted(COQ.rglob("*.v")):
        txt = re.sub(r"\(\*.*?\*\)", "", p.read_text(), flags=re.S)
        for i, line in enumerate(txt.splitlines(), 1):
            if FORBIDDEN.search(line):
                bad.append(f"{p.relative_to(VERIF)}:{i}: {line.strip()[:80]}")
    return bad


def theorem_names(vfile: str):
    txt = (COQ / vfile).read_text()
    return re.findall(r"^\s*(?:Theorem|Example|Corollary)\s+([A-Za-z0-9_']+)", txt, flags=re.M)


def count_qed(files):
    n = 0
    for f in files:
        txt = re.sub(r"\(\*.*?\*\)", "", (COQ / f).read_text(), flags=re.S)
        n += len(re.findall(r"\bQed\.|\bDefined\.", txt))
    return n


def coqc_file(path: Path, timeout=600, extra_R=None):
    cmd = ["coqc", "-R", str(COQ), "TF", "-w", "-notation-overridden"]
    if extra_R:
        cmd += ["-R", str(extra_R[0]), extra_R[1]]
    cmd.append(str(path))
    return sh(cmd, cwd=path.parent, timeout=timeout)


def print_assumptions(work: Path, module: str, names):
    """Re-query the kernel for the axioms each property theorem depends on."""
    f = work / f"Assume_{module}.v"
    f.write_text(f"From TF Require Import {module}.\n" + "".join(f"Print Assumptions {n}.\n" for n in names))
    rc, out = coqc_file(f, timeout=600)
    res = {}
    if rc != 0:
        return None, out
    chunks = re.split(r"(?=Closed under the global context|Axioms:)", out)
    chunks = [c.strip() for c in chunks if c.strip() and (c.startswith("Closed") or c.startswith("Axioms"))]
    for n, c in zip(names, chunks):
        res[n] = "closed" if c.startswith("Closed") else c
    return res, out


def parse_nat_list(out: str):
    """Parse the numbers Coq prints for `Eval vm_compute in (... : list nat/Z/N)`."""
    m = re.search(r"=\s*(.*?)\n\s*:\s", out, flags=re.S)
    if not m:
        return None
    return [int(x) for x in re.findall(r"-?\d+", m.group(1))]


class Check:
    def __init__(self, pid: str, tier: str, seed: int):
        self.pid, self.tier, self.seed = pid, tier, seed
        self.t0 = time.time()
        self.work = VERIF / ".work" / f"{pid}-{os.getpid()}"
        if self.work.exists():
            shutil.rmtree(self.work)
        self.work.mkdir(parents=True)
        self.violations = []          # list of (replay_path, no_input)
        self.known = []
        self.cov = {}
        self.assumptions = []
        self.notes = []

    # -- proof side ---------------------------------------------------------
    def build_proofs(self, prop_module: str, pre=None, extra_targets=()):
        """Build Prop_<ID>.vo and its cone; returns dict(ok, log, obligations, discharged, assumptions)."""
        with BuildLock():
            if pre:
                pre()
            bad = scan_forbidden()
            ok, log = coq_make([f"{prop_module}.vo", *extra_targets])
        cone = coq_cone(f"{prop_module}.v")
        names = theorem_names(f"{prop_module}.v")
        obligations = count_qed(cone)
        def fresh(f):
            vo = (COQ / f).with_suffix(".vo")
            return vo.exists() and vo.stat().st_mtime >= (COQ / f).stat().st_mtime
        discharged = obligations if ok else count_qed([f for f in cone if fresh(f)])
        res = dict(ok=ok and not bad, log=log, forbidden=bad, cone=cone, theorems=names,
                   obligations=obligations, discharged=discharged, assumptions=None)
        if ok:
            ass, out = print_assumptions(self.work, prop_module, names)
            res["assumptions"] = ass
            if ass is None:
                res["ok"] = False
                res["log"] += "\nPrint Assumptions failed:\n" + out
        return res

    # -- model evaluation ---------------------------------------------------
    def run_case_files(self, files, timeout=900):
        """coqc each generated case file in parallel; returns {file: (rc, out)}."""
        from concurrent.futures import ThreadPoolExecutor
        with ThreadPoolExecutor(max_workers=NCPU) as ex:
            outs = list(ex.map(lambda f: coqc_file(f, timeout=timeout), files))
        # a coqc that died without a word (killed for memory when the machine is crowded) is run again, alone; a file that really does not
        # compile fails again and is reported
        outs = [o if o[0] == 0 or o[1].strip() else coqc_file(f, timeout=timeout) for f, o in zip(files, outs)]
        return dict(zip(files, outs))

    # -- verdicts -----------------------------------------------------------
    def violation(self, replay: dict, no_input=False):
        replay = dict(replay)
        replay.setdefault("property", self.pid)
        blob = json.dumps(replay, sort_keys=True, default=str)
        h = hashlib.sha1(blob.encode()).hexdigest()[:10]
        d = VERIF / "replays"
        d.mkdir(exist_ok=True)
        path = d / f"{self.pid}-{h}.json"
        path.write_text(json.dumps(replay, indent=1, sort_keys=True, default=str))
        self.violations.append((str(path), no_input))
        return path

    def known_finding(self, what: str):
        self.known.append(what)

    def finish(self, level="proof", extra_assumptions=()):
        wall = time.time() - self.t0
        ev = {
            "property_id": self.pid, "tier": self.tier, "seed": self.seed, "level": level,
            "coverage": self.cov, "assumptions": list(extra_assumptions) + self.assumptions,
            "wall_s": round(wall, 2), "violations": len(self.violations),
        }
        evdir = Path(os.environ.get("VERIF_EVIDENCE_DIR", str(VERIF / "evidence")))
        evdir.mkdir(parents=True, exist_ok=True)
        (evdir / f"{self.pid}.json").write_text(json.dumps(ev, indent=1, default=str))
        for k in self.known:
            print(f"KNOWN-FINDING: property={self.pid} {k}")
        # violations that come with a failing input first; "no-failing-input-found" is said only when the search for an input found none at all
        found = any(not no_input for _, no_input in self.violations)
        for path, no_input in sorted(self.violations, key=lambda v: v[1]):
            print(f"VIOLATION property={self.pid} replay={path}" + (" no-failing-input-found" if no_input and not found else ""))
        shutil.rmtree(self.work, ignore_errors=True)
        print(f"[{self.pid}] {self.tier} done in {wall:.1f}s: "
              f"{'VIOLATIONS=' + str(len(self.violations)) if self.violations else 'ok'}")
        return 1 if self.violations else 0


def load_known_findings():
    p = VERIF / "known_findings.json"
    if not p.exists():
        return []
    return json.loads(p.read_text())["findings"]


# ---- Coq literal helpers ---------------------------------------------------
def coq_Z(n: int) -> str:
    return f"({n})%Z" if n < 0 else f"{n}%Z"


def coq_N(n: int) -> str:
    return f"{n}%N"


def coq_list(items, scope=None):
    s = "[" + "; ".join(items) + "]"
    return s


def coq_str(s: str) -> str:
    """Python str -> list N of code points."""
    return "[" + "; ".join(f"{ord(c)}" for c in s) + "]%N" if s else "(@nil N)"


def coq_bool(b) -> str:
    return "true" if b else "false"


def coq_option(x, f):
    return "None" if x is None else f"(Some {f(x)})"
