"""The abstract specification (Spec.v) once more in Python, on neutral values: the database is a list
of points; search is filter, remove is filter-not, update is map.  Used only by the failing-input search:
when the implementation and the Coq model disagree at a step, the implementation's output is compared
with this direct statement of the documented meaning to decide whether the property itself fails there."""
import copy

import twins
from dbmodel import dt_of, us_of


class Undefined(Exception):
    """the documented meaning says nothing here (a user callable raised, invalid arguments, ...)"""


def _num(x):
    return isinstance(x, (int, float)) and not isinstance(x, bool)


def attr_value(a, p):
    return {"time": ("t", p["time"]), "meas": ("s", p["meas"]), "tags": ("d", p["tags"]), "fields": ("d", p["fields"])}[a]


def wrap(x):
    if x is None:
        return ("none",)
    if isinstance(x, str):
        return ("s", x)
    if isinstance(x, bool):
        return ("n", int(x))
    if _num(x):
        return ("n", x)
    if isinstance(x, dict):
        return ("d", x)
    if hasattr(x, "tzinfo"):
        return ("t", us_of(x))
    return ("o", x)


def unwrap(v):
    if v[0] == "t":
        return dt_of(v[1])
    if v[0] == "none":
        return None
    return v[1]


def resolve(path, v):
    """-> value or None when the path fails"""
    for part in path:
        if part[0] == "k":
            if v[0] != "d" or part[1] not in v[1]:
                return None
            v = wrap(v[1][part[1]])
        else:
            try:
                v = wrap(twins.MAPS[part[1]](unwrap(v)))
            except Exception:
                return None
    return v


def compare(op, v, rhs):
    same_kind = v[0] == rhs[0] and v[0] in ("t", "s", "n")
    if op == "==":
        return v[0] == rhs[0] and (v[0] == "none" or v[1] == rhs[1])
    if op == "!=":
        return not compare("==", v, rhs)
    if not same_kind:
        return False                      # undefined comparison: false, not an error
    a, b = v[1], rhs[1]
    return {"<": a < b, "<=": a <= b, ">": a > b, ">=": a >= b}[op]


def denote(q, p):
    k = q[0]
    if k == "noop":
        return True
    if k == "and":
        return denote(q[1], p) & denote(q[2], p)
    if k == "or":
        return denote(q[1], p) | denote(q[2], p)
    if k == "not":
        return not denote(q[1], p)
    v = resolve(q[2], attr_value(q[1], p))
    if v is None:
        return False
    t = q[3]
    if t[0] == "cmp":
        rhs = t[2]
        rhs = ("n", int(rhs[1])) if rhs[0] == "n" and isinstance(rhs[1], bool) else rhs
        return compare(t[1], v, tuple(rhs[:2]))
    if t[0] == "exists":
        return True
    if t[0] in ("match", "search"):
        import re
        if v[0] != "s":
            return False
        f = re.match if t[0] == "match" else re.search
        return f(twins.PATTERNS[t[1]], v[1], twins.FLAGS[t[2]]) is not None
    if t[0] == "user":
        fn, args = twins.TESTS[t[1]]
        try:
            return bool(fn(unwrap(v), *args))
        except Exception:
            raise Undefined()
    raise Undefined()


TOTAL_TESTS = {0, 4, 8}      # user test functions of the twin table that never raise


def wf_query(q):
    """the DSL's own precondition for 'never raises': user test functions are total"""
    if q[0] in ("and", "or"):
        return wf_query(q[1]) and wf_query(q[2])
    if q[0] == "not":
        return wf_query(q[1])
    return not (q[0] == "S" and q[3][0] == "user" and q[3][1] not in TOTAL_TESTS)


def hit(q, m, p):
    if not wf_query(q):
        raise Undefined()
    return (not m or p["meas"] == m) and denote(q, p)


def apply_upd(u, p):
    if u is None or u.get("invalid"):
        raise Undefined()
    p = copy.deepcopy(p)
    tabs = {"time": twins.C_TIME, "meas": twins.C_MEAS, "tags": twins.C_TAGS, "fields": twins.C_FIELDS}

    def val(k, cur):
        a = u.get(k)
        if a is None:
            return None
        if a[0] == "static":
            return a[1]
        try:
            r = tabs[k][a[1]](cur)
        except Exception:
            raise Undefined()
        return r
    t = val("time", dt_of(p["time"]))
    if t is not None:
        if isinstance(t, int):
            p["time"] = t
        elif hasattr(t, "tzinfo") and t.tzinfo is not None:
            from dbmodel import EPOCH
            from datetime import timedelta
            p["time"] = (t - EPOCH) // timedelta(microseconds=1)      # the instant, whatever zone it is expressed in
        else:
            raise Undefined()
    m = val("meas", p["meas"])
    if m:
        if not isinstance(m, str):
            raise Undefined()
        p["meas"] = m
    tg = val("tags", dict(p["tags"]))
    if tg:
        if not all(isinstance(k, str) and (v is None or isinstance(v, str)) for k, v in tg.items()):
            raise Undefined()
        p["tags"].update(tg)
    fs = val("fields", dict(p["fields"]))
    if fs:
        if not all(isinstance(k, str) and (v is None or _num(v)) for k, v in fs.items()):
            raise Undefined()
        p["fields"].update(fs)
    for k in u.get("unset_tags", []) or []:
        p["tags"].pop(k, None)
    for k in u.get("unset_fields", []) or []:
        p["fields"].pop(k, None)
    return p


def given(u):
    return any(u.get(k) is not None and not (u[k][0] == "static" and u[k][1] in ("", {})) for k in ("time", "meas", "tags", "fields")) \
        or bool(u.get("unset_tags")) or bool(u.get("unset_fields"))


def peq(a, b):
    return a["time"] == b["time"] and a["meas"] == b["meas"] and a["tags"] == b["tags"] and a["fields"] == b["fields"]


def by_time(ps):
    return sorted(ps, key=lambda p: p["time"])


def sort_none_last(vs):
    return sorted(set(vs), key=lambda x: (x is None, x))


def step(db, o):
    """-> (new_db, output) ; raises Undefined where the spec is silent"""
    k = o[0]
    if k == "handle":
        name, h = o[1], o[2]
        hk = h[0]
        if hk == "len":
            return db, ("nat", sum(1 for p in db if p["meas"] == name))
        if hk == "iter":
            return db, ("points", [p for p in db if p["meas"] == name])
        if hk == "all":
            ps = [p for p in db if p["meas"] == name]
            return db, ("points", by_time(ps) if h[1] else ps)
        if hk in ("contains", "count", "get", "remove"):
            return step(db, (hk, h[1], name))
        if hk == "search":
            return step(db, ("search", h[1], name, h[2]))
        if hk == "select":
            return step(db, ("select", h[1], h[2], name))
        if hk in ("get_field_keys", "get_tag_keys", "get_timestamps"):
            return step(db, (hk, name))
        if hk == "get_field_values":
            return step(db, (hk, h[1], name))
        if hk == "get_tag_values":
            return step(db, (hk, h[1], name))
        if hk == "insert":
            return step(db, ("insert", h[1], name))
        if hk == "remove_all":
            return step(db, ("drop", name))
        if hk == "update":
            return step(db, ("update", h[1], h[2], name))
        if hk == "update_all":
            return step(db, ("update", ("noop", "meas"), h[1], name))
        raise Undefined()
    if k == "insert":
        out = list(db)
        n = 0
        for p in o[1]:
            if p is None:
                return out, ("raise", "TypeError")
            q = copy.deepcopy(p)
            if o[2]:
                q["meas"] = o[2]
            out.append(q)
            n += 1
        return out, ("nat", n)
    if k == "remove":
        keep = [p for p in db if not hit(o[1], o[2], p)]
        return keep, ("nat", len(db) - len(keep))
    if k == "drop":
        keep = [p for p in db if not ((not o[1] or p["meas"] == o[1]) and p["meas"] == o[1])]
        return keep, ("nat", len(db) - len(keep))
    if k == "remove_all":
        return [], ("unit",)
    if k in ("update", "update_all"):
        q, u, m = (o[1], o[2], o[3]) if k == "update" else (("noop", "tags"), o[1], None)
        if u is None or u.get("invalid") or not given(u):
            return db, ("raise", "ValueError")
        new = [apply_upd(u, p) if hit(q, m, p) else p for p in db]
        return new, ("nat", sum(1 for a, b in zip(db, new) if not peq(a, b)))
    if k == "search":
        ps = [p for p in db if hit(o[1], o[2], p)]
        return db, ("points", by_time(ps) if o[3] else ps)
    if k == "count":
        return db, ("nat", sum(1 for p in db if hit(o[1], o[2], p)))
    if k == "contains":
        return db, ("bool", any(hit(o[1], o[2], p) for p in db))
    if k == "get":
        ps = [p for p in db if hit(o[1], o[2], p)]
        return db, ("point", ps[0] if ps else None)
    if k == "select":
        import dbmodel as _M
        if o[1] is None or not all(_M.selkey_valid(key) for key in o[1]):
            return db, ("raise", "ValueError")

        def proj(p, key):
            if key == "time":
                return dt_of(p["time"])
            if key == "measurement":
                return p["meas"]
            if key.startswith("tags."):
                return p["tags"].get(key[5:])
            return p["fields"].get(key[7:])
        return db, ("sel", [[proj(p, key) for key in o[1]] for p in db if hit(o[2], o[3], p)])
    if k == "all":
        return db, ("points", by_time(db) if o[1] else list(db))
    if k == "len":
        return db, ("nat", len(db))
    if k in ("iter", "file"):
        return db, ("points", list(db))
    inm = lambda m: [p for p in db if not m or p["meas"] == m]
    if k == "get_measurements":
        return db, ("strs", sorted({p["meas"] for p in db}))
    if k == "get_tag_keys":
        return db, ("strs", sorted({t for p in inm(o[1]) for t in p["tags"]}))
    if k == "get_field_keys":
        return db, ("strs", sorted({t for p in inm(o[1]) for t in p["fields"]}))
    if k == "get_tag_values":
        ps = inm(o[2])
        keys = sorted(set(o[1])) if o[1] else sorted({t for p in ps for t in p["tags"]})
        return db, ("tagvals", [(key, sort_none_last([p["tags"][key] for p in ps if key in p["tags"]])) for key in keys])
    if k == "get_field_values":
        return db, ("nums", [p["fields"][o[1]] for p in inm(o[2]) if o[1] in p["fields"]])
    if k == "get_timestamps":
        return db, ("times", [p["time"] for p in inm(o[1])])
    if k in ("reindex", "reopen"):
        return db, ("unit",)
    if k == "index_valid":
        raise Undefined()
    raise Undefined()


def expected(csv, ops, tf=None):
    """spec output of the LAST op of ops, or None where the spec is silent"""
    db = []
    out = None
    try:
        for o in ops:
            if o[0] == "index_valid":
                out = None
                continue
            db, out = step(db, o)
    except Undefined:
        return None
    except Exception:
        return None
    return out


def _norm(x):
    if isinstance(x, float) and x != x:
        return "nan"                       # nan is not == nan: compared as a token
    if isinstance(x, float) and x == x and abs(x) < 2 ** 62 and x == int(x):
        return int(x)
    if isinstance(x, bool):
        return int(x)
    if hasattr(x, "tzinfo"):
        return ("t", us_of(x))
    if isinstance(x, dict) and "__us__" in x:
        return ("t", x["__us__"])
    if isinstance(x, dict):
        return {k: _norm(v) for k, v in sorted(x.items()) if k not in ("stamped", "dt", "rel_now")}
    if isinstance(x, (list, tuple)):
        return [_norm(i) for i in x]
    return x


def same(a, b):
    if a[0] == "raise" and b[0] == "raise":
        return True
    return _norm(a) == _norm(b)
