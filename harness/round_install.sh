#!/bin/bash
# round_install.sh <PROPERTY> <agent out dir> [worktree to remove]: install the agent's two changes under seeded/, confirm them on /repo HEAD
# in a scratch worktree (suite green with the change, demonstration passes without / fails with), run the property's quick check against each.
set -u
cd "$(dirname "$0")/.."
P=$1; OUT=$2
ids=$(/venv/bin/python harness/install_seeded.py $P $OUT | awk '{print $2}')
[ -n "${3:-}" ] && git -C /repo worktree remove --force "$3" 2>/dev/null
for id in $ids; do
  /venv/bin/python harness/revalidate_seeded.py $id
  /venv/bin/python harness/runmut_wt.py $id $P quick 2>&1 | grep -v conda | tail -1
done
