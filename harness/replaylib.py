"""./check <ID> --replay <file>: re-execute a replay file against the current tree.
Exit 1 (and a VIOLATION line) if the recorded failure still shows, 0 if it no longer does."""
import json
import os

from common import *  # noqa


def _db_replay(tf, r):
    import dbimpl
    import pyspec
    cfg = r["config"]
    ops = _tuplify(r["ops"])
    work = VERIF / ".work" / f"replay-{os.getpid()}"
    import dbtie
    tz = cfg.get("TZ")
    with dbtie.process_zone(tz if tz and tz != os.environ.get("TZ", "UTC") else None):       # the process zone the history ran in
        outs = dbimpl.run_history(tf, cfg["csv"], cfg["auto_index"], ops, str(work), cfg.get("storage_kwargs") or None)
    k = r.get("first_differing_step", len(ops) - 1)
    got = outs[k]
    spec = pyspec.expected(cfg["csv"], ops[:k + 1], tf)
    print("implementation now:", str(got)[:400])
    print("documented meaning:", str(spec)[:400])
    print("recorded at the time:", str(r.get("implementation_output"))[:400])
    if spec is not None:
        return 0 if pyspec.same(spec, got) else 1
    rec = r.get("implementation_output")
    return 1 if rec is not None and pyspec._norm(_tuplify(rec)) == pyspec._norm(got) else 0


def _tuplify(x):
    """JSON turns the tuples of the neutral representation into lists; queries/ops are matched on x[0]
    only, but dict keys and point dicts must survive: lists stay lists, which the drivers accept"""
    if isinstance(x, list):
        return tuple(_tuplify(i) for i in x) if x and isinstance(x[0], str) and not _looks_like_strlist(x) else [_tuplify(i) for i in x]
    if isinstance(x, dict):
        return {k: _tuplify(v) for k, v in x.items()}
    return x


def _looks_like_strlist(x):
    # select keys / tag key lists are lists of plain strings; op and query tuples start with a known head
    heads = {"insert", "remove", "drop", "remove_all", "update", "update_all", "search", "count", "contains", "get", "select", "all", "len",
             "iter", "get_measurements", "get_tag_keys", "get_tag_values", "get_field_keys", "get_field_values", "get_timestamps",
             "reindex", "reopen", "index_valid", "handle", "S", "noop", "and", "or", "not", "cmp", "exists", "match", "search", "user",
             "k", "m", "t", "s", "n", "none", "static", "call"}
    return x[0] not in heads


def _c09_replay(tf, r):
    import dbmodel as M, pyspec, qtie
    q, p = _tuplify(r["query"]), r["point"]
    try:
        builders = {} if r.get("built_with") else None
        others = [M.real_query(tf, _tuplify(x), builders) for x in r.get("built_with", []) if _tuplify(x) != q]
        rq = M.real_query(tf, q, builders)
        others += [M.real_query(tf, _tuplify(x), builders) for x in r.get("built_with", [])]
        got = qtie.impl_eval(tf, rq, M.real_point(tf, p))
    except Exception:
        got = 2
    want = 1 if pyspec.denote(q, p) else 0
    print("implementation now:", ["False", "True", "raised", "non-bool"][got], "| documented meaning:", bool(want))
    return 0 if got == want else 1


def _c17_replay(tf, r):
    import dbmodel as M, qtie
    q1, q2 = _tuplify(r["q1"]), _tuplify(r["q2"])
    a, b = M.real_query(tf, q1), M.real_query(tf, q2)
    why = r.get("why", "")
    if "a & b" in why:
        ok = ((a & b) == (b & a)) and ((a | b) == (b | a))
        print("a & b == b & a and a | b == b | a now:", ok)
        return 0 if ok else 1
    eq = (a == b)
    print("q1 == q2 now:", eq)
    if not eq:
        return 0
    if "point" in r:
        rp = M.real_point(tf, r["point"])
        x, y = qtie.impl_eval(tf, a, rp), qtie.impl_eval(tf, b, rp)
        print("q1(p), q2(p) now:", x, y)
        return 0 if x == y else 1
    try:
        return 0 if hash(a) == hash(b) else 1
    except TypeError:
        return 0


def _c18_replay(tf, r):
    from tinyflux import utils
    l = [float(x) for x in r["list"]]
    x = float(r["probe"])
    fn = r["function"]
    try:
        got = getattr(utils, fn)(l, x)
    except Exception as e:  # noqa
        got = "raise " + type(e).__name__
    idx = [i for i, v in enumerate(l) if {"find_eq": v == x, "find_lt": v < x, "find_le": v <= x, "find_gt": v > x, "find_ge": v >= x}[fn]]
    want = None if not idx else (idx[-1] if fn in ("find_lt", "find_le") else idx[0])
    print(f"{fn}(list, {x}) now: {got} | documented: {want}")
    return 0 if got == want else 1


def _c12_replay(tf, r):
    import iotie, c12
    work = VERIF / ".work" / f"replay-{os.getpid()}"
    hist, op, k, auto = _tuplify(r["history"]), _tuplify(r["op"]), r["crash_before_call"], r["auto_index"]
    before = iotie.logical_contents(tf, str(work / "lb"), hist, auto)
    after = iotie.logical_contents(tf, str(work / "la"), list(hist) + [op], auto)
    iotie.HARDLINK = bool(r.get("database_file_has_a_second_hard_link"))
    cr = iotie.crash_run(tf, str(work / "cr"), hist, op, k, auto, other_fs=bool(r.get("temp_dir_on_other_filesystem")))
    ok = c12.prefix_ok(cr["state"], before, after) and not isinstance(cr["lib_state"], tuple) and c12.prefix_ok(cr["lib_state"], before, after)
    print(f"crash before call {k}: the file now decodes to {len(cr['state']) if cr['state'] is not None else None} points (old {len(before)}, new {len(after)}); allowed: {ok}")
    return 0 if ok else 1


def replay(pid, path):
    r = json.loads(open(path).read())
    tf = use_impl()
    kind = r.get("kind")
    print(f"replay of {path}: kind={kind} property={r.get('property')}")
    rc = None
    try:
        if "ops" in r and "config" in r:
            rc = _db_replay(tf, r)
        elif pid == "C09" and "query" in r and "point" in r:
            rc = _c09_replay(tf, r)
        elif pid == "C17" and "q1" in r and "q2" in r:
            rc = _c17_replay(tf, r)
        elif pid == "C18" and "list" in r and "function" in r:
            rc = _c18_replay(tf, r)
        elif pid == "C12" and "crash_before_call" in r:
            rc = _c12_replay(tf, r)
    except Exception as e:  # noqa
        print("re-execution raised", type(e).__name__, e)
        rc = 1
    if rc is None:
        # no specialised re-execution for this replay: run the property's quick check again
        import importlib
        mod = importlib.import_module(pid.lower())
        return mod.main("quick", int(os.environ.get("VERIF_SEED", "20260926")))
    if rc:
        print(f"VIOLATION property={pid} replay={path}")
    else:
        print("the recorded failure no longer shows on the current tree")
    return rc
