"""./check <ID> --replay <file>: re-execute a replay file against the current tree.
Exit 1 (and a VIOLATION line) if the recorded failure still shows, 0 if it no longer does."""
import json
import os

from common import *  # noqa


def _db_replay(tf, r):
    import dbimpl
    import pyspec
    cfg = r["config"]
    ops = _tuplify(r["ops"])
    work = VERIF / ".work" / f"replay-{os.getpid()}"
    outs = dbimpl.run_history(tf, cfg["csv"], cfg["auto_index"], ops, str(work))
    k = r.get("first_differing_step", len(ops) - 1)
    got = outs[k]
    spec = pyspec.expected(cfg["csv"], ops[:k + 1], tf)
    print("implementation now:", str(got)[:400])
    print("documented meaning:", str(spec)[:400])
    print("recorded at the time:", str(r.get("implementation_output"))[:400])
    if spec is not None:
        return 0 if pyspec.same(spec, got) else 1
    rec = r.get("implementation_output")
    return 1 if rec is not None and pyspec._norm(_tuplify(rec)) == pyspec._norm(got) else 0


def _tuplify(x):
    """JSON turns the tuples of the neutral representation into lists; queries/ops are matched on x[0]
    only, but dict keys and point dicts must survive: lists stay lists, which the drivers accept"""
    if isinstance(x, list):
        return tuple(_tuplify(i) for i in x) if x and isinstance(x[0], str) and not _looks_like_strlist(x) else [_tuplify(i) for i in x]
    if isinstance(x, dict):
        return {k: _tuplify(v) for k, v in x.items()}
    return x


def _looks_like_strlist(x):
    # select keys / tag key lists are lists of plain strings; op and query tuples start with a known head
    heads = {"insert", "remove", "drop", "remove_all", "update", "update_all", "search", "count", "contains", "get", "select", "all", "len",
             "iter", "get_measurements", "get_tag_keys", "get_tag_values", "get_field_keys", "get_field_values", "get_timestamps",
             "reindex", "reopen", "index_valid", "handle", "S", "noop", "and", "or", "not", "cmp", "exists", "match", "search", "user",
             "k", "m", "t", "s", "n", "none", "static", "call"}
    return x[0] not in heads


def replay(pid, path):
    r = json.loads(open(path).read())
    tf = use_impl()
    kind = r.get("kind")
    print(f"replay of {path}: kind={kind} property={r.get('property')}")
    rc = None
    if "ops" in r and "config" in r:
        rc = _db_replay(tf, r)
    if rc is None:
        # no specialised re-execution for this replay: run the property's quick check again
        import importlib
        mod = importlib.import_module(pid.lower())
        return mod.main("quick", int(os.environ.get("VERIF_SEED", "20260926")))
    if rc:
        print(f"VIOLATION property={pid} replay={path}")
    else:
        print("the recorded failure no longer shows on the current tree")
    return rc
