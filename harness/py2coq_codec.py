#!/usr/bin/env python3
"""Fail-closed translator: tinyflux/point.py (Point._serialize_to_list) -> coq/gen/CodecGen.v

The row a point is written as is computed by a loop-free function (conditional expressions, generator expressions or
for-loops over `.items()` that only append, f-strings, a flattening tuple).  The translator evaluates the function body
SYMBOLICALLY - every local becomes a closed Coq term, both branches of an `if` are joined by a conditional, a
generator / for-loop over the items of a mapping becomes a flat_map - so that differently written but equivalent
bodies end in the same normal form:

      <time cell> :: <measurement cell> :: flat_map F_tags (p_tags p) ++ flat_map F_fields (p_fields p)

Accepted Python (anything else is refused, exit 3; the hand model Codec.ser then stands in and the check reports it):
  * self._time / self._measurement / self._tags / self._fields, the class constants (_none_str, the four key prefixes),
    the parameter compact_key_prefixes;
  * `a if c else b`, `if c: .. else: ..` with c one of: the flag, `self._time` (truth of a datetime), `v is None`;
  * `x.replace(tzinfo=None).isoformat()`, `str(s)`, `str(float(v))`, `a or b` on strings, f"{prefix}{k}";
  * generator expressions / for-loops over `.items()`, list / tuple displays with starred generators, list.append,
    tuple(row) / list(row).
Text of a time cell and of a number cell is the standard library's (oracle pair of Text.v): the translation keeps
`CTime t` and `CNum x` structured exactly as the hand model does; float(v) of a stored number is the number (F18 is
the known finding about integers beyond 2**53).

proofs/CodecGenP.v proves the generated function equal to Codec.ser for every flag and every point.

Usage: py2coq_codec.py <path/to/point.py> <out.v>
"""
import ast
import sys


class Refuse(Exception):
    pass


CONSTS = ["_none_str", "_default_tag_key_prefix", "_default_field_key_prefix", "_compact_tag_key_prefix", "_compact_field_key_prefix"]


class V:
    """a symbolic value: kind in STR CELL BOOL TIME OPTSTR OPTNUM NUM ITEMS PAIRGEN ROW"""
    def __init__(self, kind, term=None, **kw):
        self.kind, self.term = kind, term
        self.__dict__.update(kw)


def strlit(s):
    return "[" + "; ".join(str(ord(c)) for c in s) + "]%N"


def cell(v):
    if v.kind == "CELL":
        return v.term
    if v.kind == "STR":
        return f"(CText {v.term})"
    raise Refuse(f"a {v.kind} where a cell of the row is expected")


class Sym:
    def __init__(self, fn, consts):
        a = fn.args
        names = [x.arg for x in a.args]
        if names != ["self", "compact_key_prefixes"] or a.vararg or a.kwarg or a.kwonlyargs or len(a.defaults) != 1 \
                or not (isinstance(a.defaults[0], ast.Constant) and a.defaults[0].value is False):
            raise Refuse("unexpected signature")
        self.consts = consts
        self.fn = fn

    # ---- expressions -------------------------------------------------------------------------------
    def attr_self(self, e):
        return isinstance(e, ast.Attribute) and isinstance(e.value, ast.Name) and e.value.id == "self" and e.attr

    def test(self, e, env):
        """-> ("bool", term) | ("none", name, V)  for `name is None`"""
        if isinstance(e, ast.Compare) and len(e.ops) == 1 and isinstance(e.ops[0], (ast.Is, ast.IsNot)) \
                and isinstance(e.comparators[0], ast.Constant) and e.comparators[0].value is None and isinstance(e.left, ast.Name):
            v = env.get(e.left.id)
            if v is None or v.kind not in ("OPTSTR", "OPTNUM"):
                raise Refuse("`is None` on something that is not a stored value")
            return ("none" if isinstance(e.ops[0], ast.Is) else "notnone", e.left.id, v)
        v = self.expr(e, env)
        if v.kind == "BOOL":
            return ("bool", v.term)
        if v.kind == "TIME":
            return ("bool", f"(time_truthy {v.term})")
        raise Refuse(f"unsupported condition of kind {v.kind}")

    def ite(self, t, a_fn, b_fn, env):
        """conditional value; a_fn / b_fn evaluate a branch in a given environment"""
        if t[0] == "bool":
            a, b = a_fn(env), b_fn(env)
            return self.join(t[1], a, b)
        kind, name, v = t
        inner = "v0"
        some_env = dict(env)
        some_env[name] = V("STR" if v.kind == "OPTSTR" else "NUM", inner)
        none_v, some_v = (a_fn(env), b_fn(some_env)) if kind == "none" else (b_fn(env), a_fn(some_env))
        if none_v.kind == some_v.kind == "STR":
            return V("STR", f"(match {v.term} with None => {none_v.term} | Some {inner} => {some_v.term} end)")
        return V("CELL", f"(match {v.term} with None => {cell(none_v)} | Some {inner} => {cell(some_v)} end)")

    def join(self, c, a, b):
        if a.kind == b.kind and a.kind in ("STR", "BOOL", "NUM"):
            return V(a.kind, f"(if {c} then {a.term} else {b.term})", exact=getattr(a, "exact", False) and getattr(b, "exact", False))
        return V("CELL", f"(if {c} then {cell(a)} else {cell(b)})")

    def expr(self, e, env):
        if isinstance(e, ast.Name):
            if e.id not in env:
                raise Refuse(f"unknown name {e.id}")
            return env[e.id]
        at = self.attr_self(e)
        if at:
            if at == "_time":
                return V("TIME", "(p_time p)")
            if at == "_measurement":
                return V("STR", "(p_meas p)")
            if at == "_tags":
                return V("MAP", "(p_tags p)", vkind="OPTSTR")
            if at == "_fields":
                return V("MAP", "(p_fields p)", vkind="OPTNUM")
            if at in self.consts:
                return V("STR", strlit(self.consts[at]), exact=True)
            raise Refuse(f"unsupported attribute self.{at}")
        if isinstance(e, ast.IfExp):
            return self.ite(self.test(e.test, env), lambda en: self.expr(e.body, en), lambda en: self.expr(e.orelse, en), env)
        if isinstance(e, ast.BoolOp) and isinstance(e.op, ast.Or) and len(e.values) == 2:
            a, b = self.expr(e.values[0], env), self.expr(e.values[1], env)
            if a.kind == b.kind == "STR":
                return V("STR", f"(py_or_str {a.term} {b.term})", exact=getattr(a, "exact", False) and getattr(b, "exact", False))
            raise Refuse("`or` on non-strings")
        if isinstance(e, ast.BinOp) and isinstance(e.op, ast.Add):
            a, b = self.expr(e.left, env), self.expr(e.right, env)
            if a.kind == b.kind == "STR" and getattr(a, "exact", False) and getattr(b, "exact", False):
                return V("STR", f"({a.term} ++ {b.term})", exact=True)
            raise Refuse("`+` on something other than two exact strings")
        if isinstance(e, ast.JoinedStr):
            parts = []
            for x in e.values:
                if isinstance(x, ast.Constant) and isinstance(x.value, str):
                    parts.append(strlit(x.value))
                elif isinstance(x, ast.FormattedValue) and x.conversion == -1 and x.format_spec is None:
                    v = self.expr(x.value, env)
                    if v.kind != "STR":
                        raise Refuse("f-string over a non-string")
                    if not getattr(v, "exact", False):
                        raise Refuse("an f-string formats a stored string through its __format__, which a str subclass may define otherwise: the text is str.__str__(s)")
                    parts.append(v.term)
                else:
                    raise Refuse("unsupported f-string part")
            return V("STR", "(" + " ++ ".join(parts) + ")", exact=True) if parts else V("STR", "[]", exact=True)
        if isinstance(e, ast.Call):
            f = e.func
            if isinstance(f, ast.Name) and f.id == "str" and len(e.args) == 1 and not e.keywords:
                a = e.args[0]
                if isinstance(a, ast.Call) and isinstance(a.func, ast.Name) and a.func.id == "float" and len(a.args) == 1 and not a.keywords:
                    v = self.expr(a.args[0], env)
                    if v.kind != "NUM":
                        raise Refuse("float() of something that is not a stored number")
                    return V("CELL", f"(CNum {v.term})")
                v = self.expr(a, env)
                if v.kind == "STR":
                    if not getattr(v, "exact", False):
                        raise Refuse("str() of a stored string is its __str__, which a str subclass may define otherwise: the text is str.__str__(s)")
                    return v
                raise Refuse(f"str() of a {v.kind}")
            if isinstance(f, ast.Attribute) and f.attr == "__str__" and isinstance(f.value, ast.Name) and f.value.id == "str" and len(e.args) == 1 and not e.keywords:
                # str.__str__(s): the text of a string, whatever its class
                v = self.expr(e.args[0], env)
                if v.kind == "STR":
                    return V("STR", v.term, exact=True)
                raise Refuse(f"str.__str__() of a {v.kind}")
            if isinstance(f, ast.Name) and f.id in ("tuple", "list") and len(e.args) == 1 and not e.keywords:
                v = self.expr(e.args[0], env)
                if v.kind == "ROW":
                    return v
                raise Refuse("tuple()/list() of something that is not the row")
            if isinstance(f, ast.Attribute) and f.attr == "isoformat" and not e.args and not e.keywords:
                v = self.expr(f.value, env)
                if v.kind == "NAIVE":
                    return V("CELL", f"(CTime {v.term})")
                raise Refuse("isoformat() of something that is not the naive UTC time")
            if isinstance(f, ast.Attribute) and f.attr == "replace" and not e.args and len(e.keywords) == 1 and e.keywords[0].arg == "tzinfo" \
                    and isinstance(e.keywords[0].value, ast.Constant) and e.keywords[0].value.value is None:
                v = self.expr(f.value, env)
                if v.kind == "TIME":
                    return V("NAIVE", v.term)
                raise Refuse("replace(tzinfo=None) of something that is not the time")
            if isinstance(f, ast.Attribute) and f.attr == "items" and not e.args and not e.keywords:
                v = self.expr(f.value, env)
                if v.kind == "MAP":
                    return V("ITEMS", v.term, vkind=v.vkind)
                raise Refuse(".items() of something that is not the tag / field mapping")
            raise Refuse(f"unsupported call {ast.dump(f)[:80]}")
        if isinstance(e, ast.GeneratorExp) or isinstance(e, ast.ListComp):
            return self.gen(e, env)
        if isinstance(e, (ast.Tuple, ast.List)):
            segs = []
            for x in e.elts:
                if isinstance(x, ast.Starred):
                    v = self.expr(x.value, env)
                    if v.kind != "ROW":
                        raise Refuse("a starred element that is not a flattened generator")
                    segs += v.segs
                else:
                    segs.append(("one", cell(self.expr(x, env))))
            return V("ROW", segs=segs)
        raise Refuse(f"unsupported expression {type(e).__name__}")

    def loop_env(self, target, items, env):
        if not (isinstance(target, ast.Tuple) and len(target.elts) == 2 and all(isinstance(t, ast.Name) for t in target.elts)):
            raise Refuse("loop target is not `k, v`")
        en = dict(env)
        en[target.elts[0].id] = V("STR", "(fst kv)")
        en[target.elts[1].id] = V(items.vkind, "(snd kv)")
        return en

    def gen(self, e, env):
        gs = e.generators
        if any(g.ifs or g.is_async for g in gs):
            raise Refuse("generator with a condition")
        if len(gs) == 1:
            it = self.expr(gs[0].iter, env)
            if it.kind != "ITEMS" or not isinstance(e.elt, ast.Tuple):
                raise Refuse("generator that is not `(a, b) for k, v in <mapping>.items()`")
            en = self.loop_env(gs[0].target, it, env)
            return V("PAIRGEN", items=it.term, cells=[cell(self.expr(x, en)) for x in e.elt.elts])
        if len(gs) == 2 and isinstance(gs[0].target, ast.Name) and isinstance(gs[1].target, ast.Name) and isinstance(gs[1].iter, ast.Name) \
                and gs[1].iter.id == gs[0].target.id and isinstance(e.elt, ast.Name) and e.elt.id == gs[1].target.id:
            src = self.expr(gs[0].iter, env)
            if src.kind != "PAIRGEN":
                raise Refuse("flattening of something that is not a generator of pairs")
            return V("ROW", segs=[("flat", src.items, src.cells)])
        raise Refuse("unsupported generator shape")

    # ---- statements ---------------------------------------------------------------------------------
    def block(self, stmts, env):
        """-> (env, returned value or None)"""
        for i, s in enumerate(stmts):
            if isinstance(s, ast.Expr) and isinstance(s.value, ast.Constant) and isinstance(s.value.value, str):
                continue
            if isinstance(s, ast.Assign) and len(s.targets) == 1 and isinstance(s.targets[0], ast.Name):
                env = dict(env)
                env[s.targets[0].id] = self.expr(s.value, env)
                continue
            if isinstance(s, ast.AnnAssign) and isinstance(s.target, ast.Name) and s.value is not None:
                env = dict(env)
                env[s.target.id] = self.expr(s.value, env)
                continue
            if isinstance(s, ast.Return) and s.value is not None:
                if i != len(stmts) - 1:
                    raise Refuse("code after return")
                return env, self.expr(s.value, env)
            if isinstance(s, ast.If):
                t = self.test(s.test, env)
                if t[0] != "bool":
                    raise Refuse("`if x is None:` as a statement")
                ea, ra = self.block(list(s.body), env)
                eb, rb = self.block(list(s.orelse), env)
                if ra is not None or rb is not None:
                    raise Refuse("return inside a branch")
                new = dict(env)
                for name in set(ea) | set(eb):
                    a, b = ea.get(name), eb.get(name)
                    if a is env.get(name) and b is env.get(name):
                        continue
                    if a is None or b is None:
                        raise Refuse(f"{name} assigned in one branch only")
                    if a.kind == "ROW" or b.kind == "ROW":
                        raise Refuse("the row is built differently in two branches")
                    new[name] = self.join(t[1], a, b)
                env = new
                continue
            if isinstance(s, ast.For) and not s.orelse:
                it = self.expr(s.iter, env)
                if it.kind != "ITEMS":
                    raise Refuse("loop over something that is not `.items()` of the tag / field mapping")
                en = self.loop_env(s.target, it, env)
                cells, row_name = [], None
                for b in s.body:
                    if isinstance(b, ast.Expr) and isinstance(b.value, ast.Call) and isinstance(b.value.func, ast.Attribute) and b.value.func.attr == "append" \
                            and isinstance(b.value.func.value, ast.Name) and len(b.value.args) == 1 and not b.value.keywords:
                        rn = b.value.func.value.id
                        if row_name not in (None, rn) or env.get(rn) is None or env[rn].kind != "ROW":
                            raise Refuse("loop body appends to something that is not the row")
                        row_name = rn
                        cells.append(cell(self.expr(b.value.args[0], en)))
                    else:
                        raise Refuse("loop body is not a sequence of row.append(...)")
                if row_name is None:
                    raise Refuse("empty loop")
                env = dict(env)
                env[row_name] = V("ROW", segs=env[row_name].segs + [("flat", it.term, cells)])
                continue
            if isinstance(s, ast.Expr) and isinstance(s.value, ast.Call) and isinstance(s.value.func, ast.Attribute) and s.value.func.attr == "append" \
                    and isinstance(s.value.func.value, ast.Name) and len(s.value.args) == 1:
                rn = s.value.func.value.id
                if env.get(rn) is None or env[rn].kind != "ROW":
                    raise Refuse("append to something that is not the row")
                env = dict(env)
                env[rn] = V("ROW", segs=env[rn].segs + [("one", cell(self.expr(s.value.args[0], env)))])
                continue
            raise Refuse(f"unsupported statement {type(s).__name__}")
        return env, None

    def run(self):
        env = {"compact_key_prefixes": V("BOOL", "compact")}
        _, r = self.block(list(self.fn.body), env)
        if r is None or r.kind != "ROW":
            raise Refuse("the function does not return the row")
        parts = []
        for s in r.segs:
            if s[0] == "one":
                parts.append(f"[{s[1]}]")
            else:
                parts.append(f"flat_map (fun kv => [{'; '.join(s[2])}]) {s[1]}")
        return "Definition serialize (compact : bool) (p : point) : list cell :=\n  " + "\n  ++ ".join(parts) + ".\n"


HEADER = """(* GENERATED on every run by harness/py2coq_codec.py from tinyflux/point.py (Point._serialize_to_list) - do not edit.
   proofs/CodecGenP.v proves it equal to the hand model Codec.ser for every flag and every point. *)
From Coq Require Import List ZArith NArith Bool.
From TF Require Import Base Query Codec CodecSem.
Import ListNotations.

"""


def main():
    src_path, out_path = sys.argv[1], sys.argv[2]
    refused = None
    try:
        tree = ast.parse(open(src_path).read())
        cls = [n for n in tree.body if isinstance(n, ast.ClassDef) and n.name == "Point"]
        if len(cls) != 1:
            raise Refuse("class Point not found")
        consts = {}
        for n in cls[0].body:
            tgt = None
            if isinstance(n, ast.Assign) and len(n.targets) == 1 and isinstance(n.targets[0], ast.Name):
                tgt, val = n.targets[0].id, n.value
            elif isinstance(n, ast.AnnAssign) and isinstance(n.target, ast.Name) and n.value is not None:
                tgt, val = n.target.id, n.value
            if tgt is not None and isinstance(val, ast.Constant) and isinstance(val.value, str):
                consts[tgt] = val.value                 # every class-level string constant may be read as self.<name>
            elif tgt in CONSTS:
                raise Refuse(f"{tgt} is not a string literal")
        missing = [c for c in CONSTS if c not in consts]
        if missing:
            raise Refuse(f"class constants {missing} not found")
        fns = {n.name: n for n in cls[0].body if isinstance(n, ast.FunctionDef)}
        if "_serialize_to_list" not in fns:
            raise Refuse("_serialize_to_list not found")
        text = HEADER + Sym(fns["_serialize_to_list"], consts).run()
    except (Refuse, SyntaxError, OSError) as r:
        refused = str(r)
        text = HEADER + ("(* REFUSED by the translator: " + refused[:120].replace("*", "x").replace("(", "[").replace(")", "]").replace('"', "'") +
                         " - the hand model stands in (the check reports the refusal) *)\n"
                         "Definition serialize (compact : bool) (p : point) : list cell := ser compact p.\n")
    try:
        old = open(out_path).read()
    except FileNotFoundError:
        old = None
    if old != text:
        open(out_path, "w").write(text)
    if refused:
        print(f"REFUSED _serialize_to_list: {refused}")
    return 3 if refused else 0


if __name__ == "__main__":
    sys.exit(main())
