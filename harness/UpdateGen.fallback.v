(* GENERATED on every run by harness/py2coq_update.py from tinyflux/database.py (TinyFlux._update_helper, update, update_all) - do not edit.
   proofs/UpdateGenP.v proves each equal to the model's update_helper / db_update / db_update_all. *)
From Coq Require Import List ZArith Bool Arith.
From TF Require Import Base Query Index DB InsertSem ReadSem UpdateSem.
From TF Require Import gen.ReadGen.
Import ListNotations.

Definition refused : bool := false.

Section Gen.
Variable E : env.
Variable C : cenv.
Variable norm : point -> point.

Definition gen_update_helper (s : state) (ua : bool) (q : query) (u : updspec) (m : option str) : state * out :=
  (if (andb (negb ua) (andb (ix_valid (st_idx s)) (index_is_exact q)))
     then (match (if (m_truthy m) then (index_items E s (QAnd (meas_query m) q)) else (index_items E s q)) with None => (s, ORaise) | Some items => (if (negb (nonempty items))
     then (s, ONat 0)
     else (if (Nat.eqb (length items) (index_len s))
     then (match (loop_update_by_scan E C norm u ua q m s) with inr rows' => (left_behind rows' s, ORaise) | inl (rows', n) => (if (Nat.eqb n 0)
     then (s, ONat 0)
     else (swapped_rows rows' s (if (st_auto s) then ix_build rows' else ix_invalidate (st_idx s)), ONat n)) end)
     else (match (loop_update_by_items E C norm u items s) with inr rows' => (left_behind rows' s, ORaise) | inl (rows', n) => (if (Nat.eqb n 0)
     then (s, ONat 0)
     else (swapped_rows rows' s (if (st_auto s) then ix_build rows' else ix_invalidate (st_idx s)), ONat n)) end))) end)
     else (match (loop_update_by_scan E C norm u ua q m s) with inr rows' => (left_behind rows' s, ORaise) | inl (rows', n) => (if (Nat.eqb n 0)
     then (s, ONat 0)
     else (swapped_rows rows' s (if (st_auto s) then ix_build rows' else ix_invalidate (st_idx s)), ONat n)) end)).

Definition gen_update (s : state) (q : query) (u : updspec) (m : option str) : state * out :=
  gen_update_helper (gen_read_prelude s) false q u m.

Definition gen_update_all (s : state) (u : updspec) : state * out :=
  gen_update_helper (gen_read_prelude s) true (QNoop ATags) u None.

End Gen.
