"""C14: no API path lets an invalid value into the database."""
import itertools
import json
import os
import random
import shutil
import tempfile
from datetime import datetime, timezone, timedelta

from common import *  # noqa
import dbmodel as M

T0 = datetime(2021, 5, 1, tzinfo=timezone.utc)


class Other:
    pass


class DateTimeLike:
    """quacks like an aware datetime - tzinfo, astimezone, timestamp, isoformat - without being one"""
    tzinfo = timezone.utc

    def astimezone(self, tz=None):
        return self

    def timestamp(self):
        return 0.0

    def isoformat(self):
        return "14:30:00"

    def replace(self, **kw):
        return self

    def __repr__(self):
        return "DateTimeLike()"


def universe():
    """(python value, Coq pyval literal) : every kind of value the checks can tell apart, well and ill typed"""
    atoms = [
        (None, "PvNone"), (True, "(PvBool true)"), (False, "(PvBool false)"), (0, "(PvInt 0)"), (5, "(PvInt 5)"), (-3, "(PvInt (-3))"),
        (0.0, "(PvFloat (NFin 0 0))"), (2.5, "(PvFloat (NFin 5 (-1)))"), (float("inf"), "(PvFloat NPInf)"),
        ("", "(PvStr [])"), ("s", "(PvStr [115%N])"), ("3.5", f"(PvStr {M.cstr('3.5')})"), ("12", f"(PvStr {M.cstr('12')})"), (" 42 ", f"(PvStr {M.cstr(' 42 ')})"),
        ("nan", f"(PvStr {M.cstr('nan')})"), (b"12", "(PvBytes [49%N; 50%N])"), ("_none", f"(PvStr {M.cstr('_none')})"), (b"", "(PvBytes [])"), (b"by", "(PvBytes [98%N; 121%N])"),
        (T0, f"(PvTime {M.cz(M.us_of(T0))})"), (T0.astimezone(timezone(timedelta(hours=3))), f"(PvTime {M.cz(M.us_of(T0))})"),
        (T0.replace(tzinfo=None), "(PvTime 0)"),
        ([], "(PvList [])"), (["a", "b"], "(PvList [PvStr [97%N]; PvStr [98%N]])"), (["a", 1], "(PvList [PvStr [97%N]; PvInt 1])"), ((), "(PvList [])"),
        ([["k", "v"]], "(PvList [PvList [PvStr [107%N]; PvStr [118%N]]])"), ([["k", 1]], "(PvList [PvList [PvStr [107%N]; PvInt 1]])"),
        ([["k", True]], "(PvList [PvList [PvStr [107%N]; PvBool true]])"), ([[1, "v"]], "(PvList [PvList [PvInt 1; PvStr [118%N]]])"),
        ({}, "(PvDict [])"), (lambda *a: None, "(PvCall 0)"), (Other(), "PvOther"), (len, "(PvCall 1)"),
        # objects that are NOT datetimes but look like one from some side: an aware datetime.time (it has .tzinfo - UTC - and no astimezone), a date,
        # an object with the attributes of a datetime
        (T0.timetz(), "PvOther"), (T0.date(), "PvOther"), (DateTimeLike(), "PvOther"),
    ]
    key_atoms = [("k", "(PvStr [107%N])"), ("", "(PvStr [])"), (1, "(PvInt 1)"), (None, "PvNone"), (b"k", "(PvBytes [107%N])"), (True, "(PvBool true)"),
                 (2.5, "(PvFloat (NFin 5 (-1)))"), (("t", 1), "PvOther")]
    val_atoms = [a for a in atoms if not isinstance(a[0], (list, dict)) or a[0] in ([], {})]
    val_atoms = [a for a in atoms if a[1] not in ("(PvCall 0)", "(PvCall 1)", "PvOther")] + [(Other(), "PvOther")]
    dicts = []
    for (k, ck), (v, cv) in itertools.product(key_atoms, val_atoms):
        try:
            dicts.append(({k: v}, f"(PvDict [({ck}, {cv})])"))
        except TypeError:
            pass
    # two entries: a good one next to a bad one, in both orders
    for (v, cv) in val_atoms:
        dicts.append(({"g": "ok", "z": v}, f"(PvDict [(PvStr [103%N], PvStr [111%N; 107%N]); (PvStr [122%N], {cv})])"))
        dicts.append(({"a": v, "g": 1.5}, f"(PvDict [(PvStr [97%N], {cv}); (PvStr [103%N], PvFloat (NFin 3 (-1)))])"))
    # values that compare EQUAL (==) to what the reference points hold but are ill typed: True == 1.0, False == 0
    dicts.append(({"f": True}, "(PvDict [(PvStr [102%N], PvBool true)])"))
    dicts.append(({"f": False}, "(PvDict [(PvStr [102%N], PvBool false)])"))
    return atoms + dicts


def raises(f):
    try:
        f()
        return None
    except (ValueError, TypeError) as e:
        return type(e).__name__
    except Exception as e:  # noqa
        return "OTHER:" + type(e).__name__


def stored_ok(tf, db):
    """every stored value is well typed"""
    bad = []
    try:
        pts = db.all(sorted=False)
    except Exception as e:  # noqa  what was stored cannot even be read back: something ill typed got in
        return [("unreadable", f"db.all() raised {type(e).__name__}: {e}"[:200])]
    for p in pts:
        if not isinstance(p.time, datetime) or p.time.tzinfo is None:
            bad.append(("time", repr(p.time)))
        if not isinstance(p.measurement, str):
            bad.append(("measurement", repr(p.measurement)))
        for k, v in p.tags.items():
            if not isinstance(k, str) or not (v is None or isinstance(v, str)):
                bad.append(("tags", repr((k, v))))
        for k, v in p.fields.items():
            if not isinstance(k, str) or not (v is None or (isinstance(v, (int, float)) and not isinstance(v, bool))):
                bad.append(("fields", repr((k, v))))
    return bad


SLOTS = ["time", "measurement", "tags", "fields"]
CSLOT = {"time": "STime", "measurement": "SMeas", "tags": "STags", "fields": "SFields"}


def main(tier, seed):
    ck = Check("C14", tier, seed)
    tf = use_impl()
    from tinyflux.point import validate_tags, validate_fields
    from tinyflux.storages import MemoryStorage
    def regen():
        rc, out = sh([PY, str(VERIF / "harness" / "py2coq_valid.py"), str(REPO / "tinyflux" / "point.py"), str(COQ / "gen" / "ValidGen.v")], timeout=60)
        regen.refused = [l for l in out.splitlines() if l.startswith("REFUSED")]
        # the static-argument checks at the head of _generate_updater, regenerated from database.py (proofs/UpdArgGenP.v)
        rc2, out2 = sh([PY, str(VERIF / "harness" / "py2coq_updarg.py"), str(REPO / "tinyflux" / "database.py"), str(COQ / "gen" / "UpdArgGen.v")], timeout=60)
        regen.refused += [l for l in out2.splitlines() if l.startswith("REFUSED")]
    regen.refused = []
    b = ck.build_proofs("Prop_C14", pre=regen, extra_targets=["Valid.vo"])
    U = universe()
    rows, direct_bad, n_checks = [], [], 0          # rows: (coq expression : bool, implementation's answer : bool, description)

    from tinyflux.storages import Storage as _Storage

    class ListStorage(_Storage):
        """a user's own storage class, written against the documented extension point (`class MyStorage(Storage)`): keeps the Points it is
        handed in a list and hands them out again - what MemoryStorage does, without being a MemoryStorage"""

        def __init__(self):
            super().__init__()
            self._initially_empty = True
            self._rows, self._staged = [], []

        def __iter__(self):
            return iter(list(self._rows))

        def __len__(self):
            return len(self._rows)

        def append(self, items, temporary=False):
            (self._staged if temporary else self._rows).extend(items)

        def read(self):
            return super().read()

        def reset(self):
            self._rows = []

        def close(self):
            pass

        def _cleanup_temp_storage(self):
            self._staged = []

        def _deserialize_measurement(self, item):
            return item.measurement

        def _deserialize_storage_item(self, item):
            return item

        def _deserialize_timestamp(self, item):
            return item.time

        def _init_temp_storage(self):
            self._staged = []

        def _serialize_point(self, point, *args, **kwargs):
            return point

        def _swap_temp_with_primary(self):
            self._rows = self._staged

        def _write(self, items):
            self._rows = list(items)

    def fresh(csv):
        if csv == "custom":
            db = tf.TinyFlux(storage=ListStorage)
        elif csv:
            d = tempfile.mkdtemp(dir=str(ck.work))
            db = tf.TinyFlux(os.path.join(d, "db.csv"))
        else:
            db = tf.TinyFlux(storage=MemoryStorage)
        db.insert(tf.Point(time=T0, measurement="m", tags={"a": "x"}, fields={"f": 1.0}))
        db.insert(tf.Point(time=T0 + timedelta(seconds=1), measurement="m", tags={"a": "y"}, fields={"f": 0}))
        return db

    def note(desc, v, why, extra=None):
        if len(direct_bad) < 6:
            direct_bad.append({"kind": "failing-input", "entry_point": desc, "value": repr(v)[:120], "why": why, **(extra or {})})

    for csv in (False, True, "custom"):
        db = fresh(csv)
        q_all = tf.TagQuery().a.exists()
        handle = db.measurement("m")
        for v, cv in U:
            # validators themselves (tie with validate_tags / validate_fields of Valid.v)
            if not csv:
                rows.append((f"validate_tags {cv}", raises(lambda: validate_tags(v)) is None, f"validate_tags({v!r})"))
                rows.append((f"validate_fields {cv}", raises(lambda: validate_fields(v)) is None, f"validate_fields({v!r})"))
                rows.append((f"unset_ok {cv}", raises(lambda: db._generate_updater(q_all, unset_tags=v, tags={"z": "1"})) is None, f"unset_tags={v!r}"))
            for s in SLOTS:
                cs = CSLOT[s]
                # Point construction and attribute assignment
                if not csv:
                    r = raises(lambda: tf.Point(**{s: v}))
                    rows.append((f"slot_ok {cs} {cv}", r is None, f"Point({s}={v!r})"))
                    p = tf.Point(time=T0, measurement="m")
                    r2 = raises(lambda: setattr(p, s, v))
                    rows.append((f"slot_ok {cs} {cv}", r2 is None, f"point.{s} = {v!r}"))
                    if r is not None and r.startswith("OTHER"):
                        note(f"Point({s}=...)", v, f"rejected with {r}, not ValueError/TypeError")
                # update / update_all with a static argument, through the database and through a handle
                for name, call in (("db.update", lambda kw: db.update(q_all, **kw)), ("db.update_all", lambda kw: db.update_all(**kw)),
                                   ("measurement.update", lambda kw: handle.update(q_all, **kw)), ("measurement.update_all", lambda kw: handle.update_all(**kw))):
                    before = [M.canon_point(x) for x in db.all(sorted=False)]
                    kw = {s: v}
                    if not callable(v):
                        r = raises(lambda: call(dict(kw, unset_tags=["nonexistent"])))
                        n_checks += 1
                        if name == "db.update":
                            rows.append((f"match upd_arg {cs} {cv} with ArgRejected => false | _ => true end", r is None, f"{name}({s}={v!r})"))
                        if r is not None and r.startswith("OTHER"):
                            note(name, v, f"static {s}: rejected with {r}, not ValueError/TypeError")
                    # the same value produced by a callable
                    r = raises(lambda: call({s: (lambda old, _v=v: _v)}))
                    n_checks += 1
                    if name == "db.update":
                        rows.append((f"call_result_ok {cs} {cv}", r is None, f"{name}({s}=lambda: {v!r})"))
                    if r is not None and r.startswith("OTHER"):
                        note(name, v, f"callable {s}: rejected with {r}, not ValueError/TypeError")
                    bad = stored_ok(tf, db)
                    if bad:
                        note(name, v, f"an ill-typed value was stored through {s}", {"stored": bad[:3]})
                        db = fresh(csv)
                        handle = db.measurement("m")
                    elif r is not None:
                        after = [M.canon_point(x) for x in db.all(sorted=False)]
                        if after != before:
                            note(name, v, f"a rejected update ({s} from a callable) changed the stored contents")
                            db = fresh(csv)
                            handle = db.measurement("m")
                    # restore the two reference points if an accepted update changed them
                    if [M.canon_point(x) for x in db.all(sorted=False)] != before:
                        db.close() if csv else None
                        db = fresh(csv)
                        handle = db.measurement("m")
            # insert: only Points; the measurement argument goes through the setter
            if not csv or True:
                r = raises(lambda: db.insert(v))
                n_checks += 1
                if not isinstance(v, tf.Point) and r is None:
                    note("db.insert", v, "a value that is not a Point was accepted")
                r = raises(lambda: db.insert_multiple([tf.Point(time=T0 + timedelta(seconds=5), tags={"i": "1"}), v]))
                if r is None:
                    note("db.insert_multiple", v, "a value that is not a Point was accepted")
                good = tf.Point(time=T0 + timedelta(seconds=9), tags={"i": "2"})
                r = raises(lambda: db.insert(good, measurement=v))
                rows.append((f"insert_ok (PvPoint true) {cv}", r is None, f"db.insert(point, measurement={v!r})")) if not csv else None
                r = raises(lambda: handle.insert(v))
                if r is None:
                    note("measurement.insert", v, "a value that is not a Point was accepted")
                bad = stored_ok(tf, db)
                if bad:
                    note("insert", v, "an ill-typed value was stored", {"stored": bad[:3]})
                db.remove(tf.TagQuery().i.exists())
        # callables that hand back the point's own set with values replaced by ==-equal ill-typed ones (True == 1.0, False == 0)
        mirror = lambda old: {k: (True if v == 1 else False if v == 0 else v) for k, v in old.items()}
        for name, call in (("db.update", lambda: db.update(q_all, fields=mirror)), ("db.update_all", lambda: db.update_all(fields=mirror)),
                           ("measurement.update_all", lambda: handle.update_all(fields=mirror))):
            r = raises(call)
            n_checks += 1
            bad = stored_ok(tf, db)
            if r is None or bad:
                note(name, "fields=lambda old: {k: bool-equal-of(v)}", "a callable returning booleans that compare equal to the stored numbers was accepted"
                     if r is None else "an ill-typed value was stored", {"stored": bad[:3]})
                db = fresh(csv)
                handle = db.measurement("m")
        # a valid callable in an EARLIER argument position must not switch off the validation of a later static argument; and arguments are
        # validated even when the query selects nothing (valid index, no candidates) or the handle's measurement holds no point
        good_call = {"time": lambda t: t, "measurement": lambda m: m, "tags": lambda d: {"ok": "1"}, "fields": lambda d: {"ok": 1.0}}
        bad_static = {"tags": [{"k": 1}, {5: "x"}, {"k": 1.5}], "fields": [{"a": "x"}, {"a": True}, {1: 1.0}], "measurement": [5], "time": ["2020-01-01"]}
        order = ["time", "measurement", "tags", "fields"]
        db = fresh(csv)
        handle = db.measurement("m")
        empty_handle = db.measurement("no-such-measurement")
        q_none = tf.TagQuery().a == "no-such-value"
        db.count(q_none)                                   # a read: the index is valid from here on (auto_index is on by default)
        for later in order:
            for v in bad_static[later]:
                calls = [(f"db.update({later}=<ill-typed>) with a query that selects nothing", lambda v=v, later=later: db.update(q_none, **{later: v})),
                         (f"measurement.update_all({later}=<ill-typed>) on a measurement without points", lambda v=v, later=later: empty_handle.update_all(**{later: v})),
                         (f"measurement.update({later}=<ill-typed>) with a query that selects nothing", lambda v=v, later=later: handle.update(q_none, **{later: v}))]
                for earlier in order[:order.index(later)]:
                    kw = {earlier: good_call[earlier], later: v}
                    calls.append((f"db.update({earlier}=<callable>, {later}=<ill-typed>)", lambda kw=kw: db.update(q_all, **kw)))
                    calls.append((f"db.update_all({earlier}=<callable>, {later}=<ill-typed>)", lambda kw=kw: db.update_all(**kw)))
                    calls.append((f"measurement.update({earlier}=<callable>, {later}=<ill-typed>)", lambda kw=kw: handle.update(q_all, **kw)))
                for name, call in calls:
                    before = [M.canon_point(x) for x in db.all(sorted=False)]
                    r = raises(call)
                    n_checks += 1
                    bad = stored_ok(tf, db)
                    after = [M.canon_point(x) for x in db.all(sorted=False)]
                    if bad:
                        note(name, v, "an ill-typed value was stored", {"stored": bad[:3]})
                    elif r is None:
                        note(name, v, "an ill-typed update argument was accepted")
                    elif after != before:
                        note(name, v, "a rejected update changed the stored contents")
                    if bad or after != before:
                        if csv:
                            db.close()
                        db = fresh(csv)
                        handle = db.measurement("m")
                        empty_handle = db.measurement("no-such-measurement")
                        db.count(q_none)
        # the same arguments handed over BY POSITION (the documented order: query, time, measurement, tags, fields), and tag / field sets that are
        # Mappings of another class than dict - OrderedDict, defaultdict, a read-only proxy, ChainMap, UserDict - holding an ill-typed value
        import collections
        import types
        pos_of = {"time": 0, "measurement": 1, "tags": 2, "fields": 3}
        wrappers = [("OrderedDict", collections.OrderedDict), ("defaultdict", lambda d: collections.defaultdict(lambda: None, d)), ("MappingProxyType", lambda d: types.MappingProxyType(dict(d))),
                    ("ChainMap", lambda d: collections.ChainMap(dict(d))), ("UserDict", collections.UserDict)]
        calls = []
        for later in order:
            for v in bad_static[later]:
                args = [None] * pos_of[later] + [v]
                calls += [(f"db.update(query, {', '.join(['None'] * pos_of[later] + ['<ill-typed ' + later + '>'])})", v, lambda args=args: db.update(q_all, *args)),
                          (f"db.update_all({', '.join(['None'] * pos_of[later] + ['<ill-typed ' + later + '>'])})", v, lambda args=args: db.update_all(*args)),
                          (f"measurement.update(query, ...positional {later})", v, lambda args=args: handle.update(q_all, *args)),
                          (f"measurement.update_all(...positional {later})", v, lambda args=args: handle.update_all(*args))]
        for slot, badmaps in (("tags", [{"k": 1}, {"k": "v", "z": 1.5}, {5: "x"}, {"k": b"v"}]), ("fields", [{"a": "n/a"}, {"a": 1.0, "z": "3"}, {"a": b"1"}, {"a": [1]}, {"a": True}, {1: 1.0}])):
            for badmap in badmaps:
                for wname, w in wrappers:
                    try:
                        wv = w(badmap)
                    except Exception:  # noqa
                        continue
                    calls += [(f"Point({slot}=<{wname}>)", wv, lambda wv=wv, slot=slot: tf.Point(time=T0, **{slot: wv})),
                              (f"point.{slot} = <{wname}>", wv, lambda wv=wv, slot=slot: setattr(tf.Point(time=T0), slot, wv)),
                              (f"db.update_all({slot}=<{wname}>)", wv, lambda wv=wv, slot=slot: db.update_all(**{slot: wv})),
                              (f"db.update(query, {slot}=<{wname}>)", wv, lambda wv=wv, slot=slot: db.update(q_all, **{slot: wv})),
                              (f"db.update_all({slot}=lambda: <{wname}>)", wv, lambda wv=wv, slot=slot: db.update_all(**{slot: (lambda old: wv)}))]
        for name, v, call in calls:
            before = [M.canon_point(x) for x in db.all(sorted=False)]
            r = raises(call)
            n_checks += 1
            bad = stored_ok(tf, db)
            after = [M.canon_point(x) for x in db.all(sorted=False)]
            if bad:
                note(name, v, "an ill-typed value was stored", {"stored": bad[:3]})
            elif r is None:
                note(name, v, "an ill-typed value was accepted")
            elif after != before:
                note(name, v, "a rejected call changed the stored contents")
            if bad or after != before:
                if csv:
                    db.close()
                db = fresh(csv)
                handle = db.measurement("m")
        # an ill-typed tags / fields argument NEXT TO unset_* arguments that name the same key, in the same or in the other namespace (promoting a
        # field to a tag: tags={k: v}, unset_fields=k): what the same call unsets elsewhere does not excuse the value
        db = fresh(csv)
        handle = db.measurement("m")
        for slot, badmaps in (("tags", [{"sensor": 7}, {"sensor": 1.5}, {"a": b"x"}]), ("fields", [{"sensor": "x"}, {"sensor": True}, {"a": "1"}])):
            for badmap in badmaps:
                key = next(iter(badmap))
                for un in ({"unset_fields": key}, {"unset_fields": [key]}, {"unset_tags": key}, {"unset_tags": [key]}, {"unset_tags": [key], "unset_fields": [key]},
                           {"unset_fields": [key, "zz"]}):
                    for kind in ("static", "callable"):
                        arg = dict(badmap) if kind == "static" else (lambda old, _m=badmap: dict(_m))
                        for name, call in ((f"db.update({slot}=<ill-typed {kind}>, {un})", lambda: db.update(q_all, **{slot: arg}, **un)),
                                           (f"db.update_all({slot}=<ill-typed {kind}>, {un})", lambda: db.update_all(**{slot: arg}, **un)),
                                           (f"measurement.update({slot}=<ill-typed {kind}>, {un})", lambda: handle.update(q_all, **{slot: arg}, **un))):
                            before = [M.canon_point(x) for x in db.all(sorted=False)]
                            r = raises(call)
                            n_checks += 1
                            bad = stored_ok(tf, db)
                            after = [M.canon_point(x) for x in db.all(sorted=False)]
                            if bad:
                                note(name, badmap, "an ill-typed value was stored", {"stored": bad[:3]})
                            elif r is None:
                                note(name, badmap, "an ill-typed update argument was accepted")
                            elif after != before:
                                note(name, badmap, "a rejected update changed the stored contents")
                            if bad or r is None or after != before:
                                if csv:
                                    db.close()
                                db = fresh(csv)
                                handle = db.measurement("m")
        # callables producing an ill-typed set for points whose CURRENT tag set (or field set) is empty - every matched point: nothing to merge into does not
        # mean nothing to check
        for slot, bads in (("tags", [{"k": 7}, {"k": 1.5}, {5: "x"}, {"k": b"x"}, {"k": True}]), ("fields", [{"k": "x"}, {"k": True}, {5: 1.0}, {"k": b"1"}])):
            for badmap in bads:
                for how in ("update", "update_all", "measurement.update_all"):
                    dbe = tf.TinyFlux(storage=ListStorage) if csv == "custom" else (tf.TinyFlux(os.path.join(tempfile.mkdtemp(dir=str(ck.work)), "db.csv")) if csv else tf.TinyFlux(storage=MemoryStorage))
                    empty_tags = slot == "tags"
                    for i_ in range(3):
                        dbe.insert(tf.Point(time=T0 + timedelta(seconds=i_), measurement="e", tags=({} if empty_tags else {"t": "x"}), fields=({"f": float(i_)} if empty_tags else {})))
                    before = [M.canon_point(x) for x in dbe.all(sorted=False)]
                    fn = (lambda old, _m=badmap: dict(_m))
                    sel = (tf.FieldQuery().f >= 0) if empty_tags else tf.TagQuery().t.exists()
                    call = {"update": lambda: dbe.update(sel, **{slot: fn}), "update_all": lambda: dbe.update_all(**{slot: fn}),
                            "measurement.update_all": lambda: dbe.measurement("e").update_all(**{slot: fn})}[how]
                    r = raises(call)
                    n_checks += 1
                    bad = stored_ok(tf, dbe)
                    after = [M.canon_point(x) for x in dbe.all(sorted=False)] if not bad else None
                    if bad:
                        note(f"{how}({slot}=<callable>) on points whose {slot} are empty", badmap, "an ill-typed value was stored", {"stored": bad[:3]})
                    elif r is None:
                        note(f"{how}({slot}=<callable>) on points whose {slot} are empty", badmap, "an ill-typed callable result was accepted")
                    elif after != before:
                        note(f"{how}({slot}=<callable>) on points whose {slot} are empty", badmap, "a rejected update changed the stored contents")
                    try:
                        dbe.close()
                    except Exception:  # noqa
                        pass
        # the mapping a Point already holds, edited IN PLACE by the caller and assigned back (the assignment is what validates), then inserted
        if not csv or True:
            for slot, good, bads in (("tags", "x", [7, 1.5, b"x", True]), ("fields", 1.0, ["x", True, b"1", [1]])):
                for badv in bads:
                    for badkey in (False, True):
                        d = {"a": good}
                        pt = tf.Point(time=T0 + timedelta(seconds=30), measurement="m", **{slot: d})
                        if badkey:
                            d[5] = good
                        else:
                            d["a"] = badv
                        r = raises(lambda: setattr(pt, slot, d))
                        n_checks += 1
                        if r is None:
                            note(f"point.{slot} = <the mapping it already holds, edited in place>", d, "an ill-typed mapping was accepted by the attribute assignment")
                            raises(lambda: db.insert(pt))
                            bad = stored_ok(tf, db)
                            if bad:
                                note("insert", d, "an ill-typed value was stored", {"stored": bad[:3]})
                            if csv:
                                db.close()
                            db = fresh(csv)
                            handle = db.measurement("m")
        # callables that EDIT the mapping they are handed and return it: an ill-typed edit is rejected and must leave no trace (the mapping is a
        # private copy); mappings in which an ill-typed value is ==-equal to a well-typed one next to it (True == 1 == 1.0)
        def edit(key, val):
            def fn(d, _k=key, _v=val):
                d[_k] = _v
                return d
            return fn
        db = fresh(csv)
        handle = db.measurement("m")
        for slot, key, val in (("tags", "room", 7), ("tags", "a", 1.5), ("fields", "f", "str"), ("fields", "g", True), ("tags", 5, "x")):
            for name, call in (("db.update", lambda: db.update(q_all, **{slot: edit(key, val)})), ("db.update_all", lambda: db.update_all(**{slot: edit(key, val)})),
                               ("measurement.update_all", lambda: handle.update_all(**{slot: edit(key, val)}))):
                before = [M.canon_point(x) for x in db.all(sorted=False)]
                r = raises(call)
                n_checks += 1
                bad = stored_ok(tf, db)
                after = [M.canon_point(x) for x in db.all(sorted=False)]
                desc = f"{slot}=callable doing d[{key!r}] = {val!r}; return d"
                if bad:
                    note(name, desc, "an ill-typed value was stored (after the update was rejected)" if r is not None else "an ill-typed value was stored", {"stored": bad[:3]})
                elif r is None:
                    note(name, desc, "the ill-typed result of a callable was accepted")
                elif after != before:
                    note(name, desc, "a rejected update changed the stored contents")
                if bad or after != before:
                    db = fresh(csv)
                    handle = db.measurement("m")
        for fields_v in ({"count": 1, "ok": True}, {"count": 0, "ok": False}, {"x": 1.0, "y": True}, {"a": 0.0, "b": 0, "c": False}, {"ok": True, "count": 1}):
            for name, call in (("Point(fields=...)", lambda: tf.Point(fields=dict(fields_v))), ("db.update_all(fields=...)", lambda: db.update_all(fields=dict(fields_v))),
                               ("db.update(fields=callable)", lambda: db.update(q_all, fields=lambda d: dict(fields_v))),
                               ("db.insert", lambda: db.insert(tf.Point(time=T0 + timedelta(seconds=77), fields=dict(fields_v))))):
                r = raises(call)
                n_checks += 1
                bad = stored_ok(tf, db)
                if r is None or bad:
                    note(name, fields_v, "a boolean field value next to a number it compares equal to was accepted" if r is None else "an ill-typed value was stored", {"stored": bad[:3]})
                    db = fresh(csv)
                    handle = db.measurement("m")
        for tags_v in ({"a": "1", "b": 1}, {"a": "", "b": 0}):
            r = raises(lambda: tf.Point(tags=dict(tags_v)))
            n_checks += 1
            if r is None:
                note("Point(tags=...)", tags_v, "an ill-typed tag value was accepted")
        # callables whose k-th result is the ill-typed one, after k-1 valid results (fresh mappings, or ONE mapping object refilled and handed
        # back every time): validation must not depend on what was validated before
        for slot, good, ill in (("fields", lambda i: {"g": float(i)}, {"g": "str"}), ("tags", lambda i: {"g": str(i)}, {"g": 7}),
                                ("fields", lambda i: {"g": i}, {"g": True}), ("tags", lambda i: {"g": None}, {5: "x"})):
            for reuse in (False, True):
                for kbad in (1, 2, 4, 5, 7):
                    if csv:
                        db.close()
                    db = fresh(csv)
                    handle = db.measurement("m")
                    db.insert_multiple([tf.Point(time=T0 + timedelta(seconds=10 + i), measurement="m", tags={"a": "z"}, fields={"f": float(i)}) for i in range(6)])
                    before = [M.canon_point(x) for x in db.all(sorted=False)]
                    state = {"n": 0, "d": {}}

                    def fn(old, _s=state, _good=good, _ill=ill, _k=kbad, _reuse=reuse):
                        _s["n"] += 1
                        res = dict(_ill) if _s["n"] == _k else _good(_s["n"])
                        if not _reuse:
                            return res
                        _s["d"].clear()
                        _s["d"].update(res)
                        return _s["d"]
                    for name, call in (("db.update_all", lambda: db.update_all(**{slot: fn})), ("measurement.update", lambda: handle.update(q_all, **{slot: fn}))):
                        state["n"] = 0
                        r = raises(call)
                        n_checks += 1
                        bad = stored_ok(tf, db)
                        after = [M.canon_point(x) for x in db.all(sorted=False)]
                        desc = f"{slot}=callable whose result no. {kbad} is {ill!r} ({'one mapping object refilled' if reuse else 'a fresh mapping'} per call)"
                        if bad:
                            note(name, desc, "an ill-typed value was stored", {"stored": bad[:3]})
                        elif r is None:
                            note(name, desc, "the ill-typed result of a callable was accepted")
                        elif after != before:
                            note(name, desc, "a rejected update changed the stored contents")
                        if bad or r is None or after != before:
                            break
        if csv:
            db.close()
    # tie: the model's checks give the same verdicts
    f = ck.work / "cases_c14.v"
    lines = ["From Coq Require Import List ZArith NArith Bool.", "From TF Require Import Base Query DB Valid.", "Import ListNotations.",
             "Definition rows : list (bool * bool) := ["]
    lines.append(";\n".join(f"({e}, {M.cbool(a)})" for e, a, _ in rows))
    lines.append("].\nFixpoint bad (i : nat) (l : list (bool * bool)) : list nat := match l with [] => [] | (a, b) :: r => if Bool.eqb a b then bad (S i) r else i :: bad (S i) r end.")
    lines.append("Eval vm_compute in (length rows, bad 0 rows).")
    f.write_text("\n".join(lines) + "\n")
    rc, out = coqc_file(f, timeout=900)
    nums = parse_nat_list(out) if rc == 0 else None
    # the same rejections with the interpreter started as `python -O` (assert statements stripped)
    rc_o, out_o = sh([PY, "-O", str(VERIF / "harness" / "c14_optimized.py")], env=impl_env(), timeout=120)
    try:
        found_o = json.loads([l for l in out_o.splitlines() if l.startswith("[")][-1])
    except Exception:  # noqa
        found_o = [{"entry_point": "python -O child", "rejected": f"the child did not finish: {out_o[-300:]}"}]
    for x in found_o[:2]:
        note(f"{x.get('entry_point')} under python -O", x.get("value"), f"an ill-typed {x.get('slot', 'value')} was not rejected when the interpreter runs with -O (rejected: {x.get('rejected')})",
             {"stored": x.get("stored", [])})
    if direct_bad:
        ck.violation(dict(direct_bad[0], more=direct_bad[1:]))
    if not b["ok"]:
        ck.violation({"kind": "proof-broken", "what_no_longer_checks": f"Prop_C14.v {b['theorems']} (incl. the equivalence of the validators regenerated from point.py with the model)",
                      "log": b["log"][-1500:], "forbidden": b["forbidden"], "translator_refused": regen.refused}, no_input=not direct_bad)
    elif nums is None:
        ck.violation({"kind": "model-evaluation-failed", "what_no_longer_checks": "cases_c14.v", "log": out[-800:]}, no_input=True)
    elif len(nums) > 1:
        e, a, desc = rows[nums[1]]
        ck.violation({"kind": "correspondence-broken", "what_no_longer_checks": "correspondence Valid.v (theorems C14_*) vs the implementation's checks",
                      "call": desc, "implementation_accepts": a, "model_expression": e, "disagreements": len(nums) - 1,
                      "others": [rows[i][2] for i in nums[2:8]]}, no_input=True)
    ck.cov = {
        "obligations": b["obligations"], "discharged": b["discharged"],
        "checker_cmd": "make -C /verif/coq Prop_C14.vo Valid.vo; Print Assumptions per theorem; the model's checks evaluated with vm_compute on the value universe",
        "trusted_base": TRUSTED_BASE_COMMON + ["hand model Valid.v of the validators / setters / argument checks, tied by correspondence on the whole value universe",
                                               "Print Assumptions: " + json.dumps(b["assumptions"])],
        "theorems": b["theorems"], "forbidden_tokens_found": b["forbidden"],
        "translator": {"source": "tinyflux/point.py: validate_tags, validate_fields -> coq/gen/ValidGen.v (regenerated on this run)",
                       "refused": regen.refused, "equivalence_theorems": ["gen_validate_tags_eq", "gen_validate_fields_eq", "gen_rejected_time_eq / _measurement_eq / _tags_eq / _fields_eq / _unset_eq, gen_nothing_given_eq (tinyflux/database.py: the argument checks of _generate_updater -> coq/gen/UpdArgGen.v)"]},
        "evaluations": len(rows) + n_checks, "distinct_nontrivial": len({r[2] for r in rows if not r[1]}),
        "rule": f"value universe of {len(U)} values (every kind of atom, single-entry dicts over all key x value kinds, two-entry dicts with a good entry next to a bad one) x "
                "slots {time, measurement, tags, fields} x entry points {validate_*, Point(...), attribute assignment, db/measurement update and update_all with a "
                "static value and with a callable returning the value, insert / insert_multiple / measurement.insert, insert(measurement=...), unset_tags} x "
                "{memory, csv}; after every call the stored points are inspected for ill-typed values; non-trivial = a call the implementation rejects; exhaustive over the universe",
        "exhaustive": True, "universe_size": len(U), "verdicts_compared_with_model": len(rows), "rejected_calls": sum(1 for r in rows if not r[1]),
        "traces_validated_against_impl": (nums[0] - (len(nums) - 1)) if nums else 0,
        "samples": [{"call": rows[i][2], "accepted": rows[i][1]} for i in (0, 7, len(rows) // 2, len(rows) - 1)],
    }
    return ck.finish(level="proof", extra_assumptions=["a falsy update argument is 'not given' (nothing assigned); a Point whose dicts are mutated by the caller "
                                                       "after validation is caller-side mutation, outside the model (F22)"])
