"""C01: decided on the database-level Coq model (DB.v) — theorems in coq/Prop_C01.v, tie by correspondence."""
from common import *  # noqa
import dbtie

PROFILE = {'scenario_also': ['ne_writes'], 'scenario_pref': ['or_not', 'or_not', 'one_us_late', 'noop_compose', 'epoch', 'sparse_write', 'nan_fields', 'nested_not', 'fold_twins', 'big_ties', 'same_count', 'hash_twins', 'ooo_batch', 'nested_not', 'odd_strings'], 'p_write': 0.3}


def main(tier, seed):
    # the guard that decides index vs scan is regenerated from database.py and proved equal to the model's (proofs/GuardGenP.v)
    refused = []

    def regen():
        rc, out = sh([PY, str(VERIF / "harness" / "py2coq_guard.py"), str(REPO / "tinyflux" / "database.py"), str(COQ / "gen" / "GuardGen.v")], timeout=60)
        refused.extend(l for l in out.splitlines() if l.startswith("REFUSED"))
        rc, out = sh([PY, str(VERIF / "harness" / "py2coq_search.py"), str(REPO / "tinyflux" / "index.py"), str(COQ / "gen" / "SearchGen.v")], timeout=60)
        refused.extend(l for l in out.splitlines() if l.startswith("REFUSED"))
        run_translator("py2coq_read.py", "tinyflux", "gen/ReadGen.v", refused)
    return dbtie.db_check("C01", tier, seed, PROFILE, 800, 6000, "Prop_C01",
                          "user callables and re are an environment the theorems quantify over; the tie instantiates them with the twin table",
                          pre=regen, extra_cov={"translator": {"source": "tinyflux/database.py: index_is_exact -> coq/gen/GuardGen.v (regenerated on this run)",
                                                               "refused": refused, "equivalence_theorem": "gen_index_is_exact_eq"},
                                     "translator_index_search": {"source": "tinyflux/index.py: IndexResult.__invert__/__and__/__or__, Index._search_helper, Index._search_timestamps, Index.search -> coq/gen/SearchGen.v (regenerated on this run)",
                                                                 "refused": refused, "equivalence_theorem": "gen_search_helper_eq (C01_source_index_search_is_the_model, C01_source_index_search_exact)"},
                                     "translator_read_path": {"source": "tinyflux/database.py: read_op, TinyFlux.reindex, TinyFlux.contains / count / get / search (symbolic execution; storage loops recognised by what their body does) -> coq/gen/ReadGen.v (regenerated on this run)",
                                                              "refused": refused, "equivalence_theorem": "gen_contains_eq, gen_count_eq, gen_get_eq, gen_search_eq, gen_read_prelude_eq (C01_source_*_is_the_model, C01_source_*_exact)"}})

