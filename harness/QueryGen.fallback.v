(* GENERATED on every run by harness/py2coq_query.py from tinyflux/queries.py (every place where a query object gets its
   `_hash` key, its test operator, its ==) - do not edit.  proofs/QueryGenP.v proves the model's hash trees and qeq equal to these. *)
From Coq Require Import List NArith Bool.
From TF Require Import Base Query QuerySem.
Import ListNotations.

Definition refused : bool := false.

Definition cmp_operator (m : meth) : cmp :=
  match m with
  | Meq => Ceq
  | Mne => Cne
  | Mlt => Clt
  | Mle => Cle
  | Mgt => Cgt
  | Mge => Cge
  end.

Definition hash_cmp (m : meth) (a : attr) (ks : list str) (rhs : value) : pyh :=
  match m with
  | Meq => (PCons (PAttr a) (PCons (PStr [61; 61]%N) (PCons (PPath ks) (PCons (PVal rhs) PNil))))
  | Mne => (PCons (PAttr a) (PCons (PStr [33; 61]%N) (PCons (PPath ks) (PCons (PVal rhs) PNil))))
  | Mlt => (PCons (PAttr a) (PCons (PStr [60]%N) (PCons (PPath ks) (PCons (PVal rhs) PNil))))
  | Mle => (PCons (PAttr a) (PCons (PStr [60; 61]%N) (PCons (PPath ks) (PCons (PVal rhs) PNil))))
  | Mgt => (PCons (PAttr a) (PCons (PStr [62]%N) (PCons (PPath ks) (PCons (PVal rhs) PNil))))
  | Mge => (PCons (PAttr a) (PCons (PStr [62; 61]%N) (PCons (PPath ks) (PCons (PVal rhs) PNil))))
  end.

Definition hash_exists (a : attr) (ks : list str) : pyh :=
  (PCons (PAttr a) (PCons (PStr [101; 120; 105; 115; 116; 115]%N) (PCons (PPath ks) PNil))).

Definition hash_matches (a : attr) (ks : list str) (re fl : N) : pyh :=
  (PCons (PAttr a) (PCons (PStr [109; 97; 116; 99; 104; 101; 115]%N) (PCons (PPath ks) (PCons (PN re) (PCons (PN fl) PNil))))).

Definition matches_is_search : bool := false.

Definition hash_search (a : attr) (ks : list str) (re fl : N) : pyh :=
  (PCons (PAttr a) (PCons (PStr [115; 101; 97; 114; 99; 104]%N) (PCons (PPath ks) (PCons (PN re) (PCons (PN fl) PNil))))).

Definition search_is_search : bool := true.

Definition hash_test (a : attr) (ks : list str) (id : N) : pyh :=
  (PCons (PAttr a) (PCons (PStr [116; 101; 115; 116]%N) (PCons (PPath ks) (PCons (PN id) (PCons (PN id) PNil))))).

Definition hash_noop : pyh :=
  PNil.

(* True = still hashable: __getattr__ keeps a key only if the builder had one *)
Definition builder_hashable_after_key (was : bool) : bool := was.

Definition builder_hashable_after_map (was : bool) : bool := false.

Definition simple_hash (builder_hashable : bool) (hashval : pyh) : pyh := if builder_hashable then hashval else PNone.

Definition s_and_hash (self other : pyh) : pyh :=
  if andb (negb (pyh_is_none self)) (negb (pyh_is_none other)) then (PCons (PStr [97; 110; 100]%N) (PCons (PFrozen2 self other) PNil)) else PNone.

Definition s_and_operator : boolop := BAnd.

Definition s_or_hash (self other : pyh) : pyh :=
  if andb (negb (pyh_is_none self)) (negb (pyh_is_none other)) then (PCons (PStr [111; 114]%N) (PCons (PFrozen2 self other) PNil)) else PNone.

Definition s_or_operator : boolop := BOr.

Definition s_not_hash (self : pyh) : pyh :=
  if negb (pyh_is_none self) then (PCons (PStr [110; 111; 116]%N) (PCons self PNil)) else PNone.

Definition s_not_operator : boolop := BNot.

(* other is a query object: a SimpleQuery or a CompoundQuery *)
Definition s_eq (other_is_simple : bool) (self other : pyh) : bool :=
  if andb other_is_simple (andb (pyh_truthy self) (pyh_truthy other)) then pyh_eqb self other else false.

Definition c_and_hash (self other : pyh) : pyh :=
  if andb (negb (pyh_is_none self)) (negb (pyh_is_none other)) then (PCons (PStr [97; 110; 100]%N) (PCons (PFrozen2 self other) PNil)) else PNone.

Definition c_and_operator : boolop := BAnd.

Definition c_or_hash (self other : pyh) : pyh :=
  if andb (negb (pyh_is_none self)) (negb (pyh_is_none other)) then (PCons (PStr [111; 114]%N) (PCons (PFrozen2 self other) PNil)) else PNone.

Definition c_or_operator : boolop := BOr.

Definition c_not_hash (self : pyh) : pyh :=
  if negb (pyh_is_none self) then (PCons (PStr [110; 111; 116]%N) (PCons self PNil)) else PNone.

Definition c_not_operator : boolop := BNot.

(* other is a query object: a SimpleQuery or a CompoundQuery *)
Definition c_eq (other_is_simple : bool) (self other : pyh) : bool :=
  if andb true (andb (pyh_truthy self) (pyh_truthy other)) then pyh_eqb self other else false.

(* SimpleQuery.__call__: the path resolver may fail (a missing key, a function in the path that raises): the answer is then a constant;
   otherwise whatever the test says, its exceptions included *)
Definition gen_simple_call (resolved : option value) (test : value -> res) : res :=
  match resolved with None => (RB false) | Some value => test value end.

(* CompoundQuery.__call__: both operands are evaluated, then the operator is applied to their results *)
Definition gen_compound_call (op : boolop) (r1 : res) (r2 : option res) : res :=
  match r2 with Some b => apply_boolop2 op r1 b | None => apply_boolop1 op r1 end.

(* the test closure: a test that is not a comparison calls the function (its exceptions propagate); a comparison that raises
   (None < 3, str < float) is a constant *)
Definition gen_test (against_rhs : bool) (plain : res) (compared : option bool) : res :=
  if negb against_rhs then plain else match compared with Some b => RB b | None => (RB false) end.

(* the path resolver walks self._path: a string part is a key lookup, any other part is called; checked structurally *)
Definition path_walk_is_key_or_call : bool := true.
