#!/usr/bin/env python3
"""Fail-closed translator: tinyflux/database.py (TinyFlux._remove_helper, _reset_database, remove, drop_measurement) -> coq/gen/RemoveGen.v

What a removal does is decided around two loops: is the index asked, with which query; nothing named -> 0; everything named -> the database is
reset; after the loop: nothing removed -> 0 (and nothing is swapped in), nothing kept -> reset; otherwise the staged rows are swapped in and the
index is either maintained (remove + update) or dropped.  The function body is executed symbolically (py2coq_read.py's machinery: straight-line
code, if / else with early returns, `use_index`), the two loops and the try / except around the swap are recognised literally.

    gen_reset s : state                         _reset_database
    gen_remove_helper s q m : state * out       _remove_helper (after the decorators)
    gen_remove s q m, gen_drop s name           remove / drop_measurement: read_op's re-indexing, then the helper

proofs/RemoveGenP.v proves them equal to the model's reset_database / remove_helper / db_remove / db_drop for every state and argument.
Anything outside the fragment: REFUSED (exit 3), the last verified translation (harness/RemoveGen.fallback.v) stands in.
Usage: py2coq_remove.py <path/to/tinyflux> <out.v>
"""
import ast
import os
import sys

sys.path.insert(0, os.path.dirname(os.path.abspath(__file__)))
from py2coq_read import Fn, Refuse, U, strip  # noqa: E402

FALLBACK_FILE = os.path.join(os.path.dirname(os.path.abspath(__file__)), "RemoveGen.fallback.v")

LOOP_INDEX = """for i, item in enumerate(self._storage):
    if j == len(index_rst._items) or i not in index_rst._items:
        self._storage.append([item], temporary=True)
        if i != new_position:
            updated_items[i] = new_position
        new_position += 1
        keep_count += 1
        continue
    removed_items.add(i)
    j += 1"""
LOOP_SCAN = """for i, item in enumerate(self._storage):
    if measurement:
        _measurement = self._storage._deserialize_measurement(item)
        if _measurement != measurement:
            self._storage.append([item], temporary=True)
            keep_count += 1
            continue
    if query(self._storage._deserialize_storage_item(item)):
        removed_items.add(i)
    else:
        self._storage.append([item], temporary=True)
        keep_count += 1"""
SWAP = "try:\n    self._storage._swap_temp_with_primary()\nexcept Exception:\n    self._index.invalidate()\n    raise"
INITS = {"removed_items = set({})": "removed_items", "removed_items = set()": "removed_items", "updated_items: Dict[int, int] = {}": "updated_items", "updated_items = {}": "updated_items",
         "new_position = 0": "new_position", "keep_count = 0": "keep_count", "j = 0": "j"}
INDEX_ACTIONS = {("self._index.remove(removed_items)", "self._index.update(updated_items)"): "(index_remove_update removed s)",
                 ("self._index.invalidate()",): "(ix_invalidate (st_idx s))"}


class RemoveFn(Fn):
    def __init__(self, fn):
        self.fn = fn
        if [a.arg for a in fn.args.args] != ["self", "query", "measurement"] or fn.decorator_list:
            raise Refuse("_remove_helper: unexpected signature or decorators")

    def cond(self, e, env):
        s = U(e)
        if s == "self._auto_index":
            return "(st_auto s)"
        if s in ("not len(removed_items)", "not removed_items", "len(removed_items) == 0"):
            return f"(Nat.eqb (length {self.removed(env)}) 0)"
        if s in ("not keep_count", "keep_count == 0"):
            self.removed(env)
            return "(Nat.eqb (keep_count removed s) 0)"
        if s in ("len(index_rst.items) == len(self._index)",):
            return f"(Nat.eqb (length {self.items(env)}) (index_len s))"
        return super().cond(e, env)

    def removed(self, env):
        if not env.get("removed"):
            raise Refuse("_remove_helper: removed_items read before a loop has filled it")
        return "removed"

    def count(self, e, env):
        s = U(e)
        if s == "0":
            return "0"
        if s in ("len(index_rst.items)", "len(index_rst._items)"):
            return f"(length {self.items(env)})"
        if s == "len(removed_items)":
            return f"(length {self.removed(env)})"
        raise Refuse(f"_remove_helper: unsupported return value `{s}`")

    def block(self, stmts, env):
        stmts = strip(stmts)
        if not stmts:
            raise Refuse("_remove_helper: control falls off the end")
        st, rest = stmts[0], stmts[1:]
        s = U(st)
        if isinstance(st, ast.Return):
            return f"({env['state']}, ONat {self.count(st.value, env)})"
        if s in INITS:
            return self.block(rest, dict(env, inits=env["inits"] | {INITS[s]}))
        if s == "self._reset_database()":
            if env["state"] != "s":
                raise Refuse("_remove_helper: reset after the state has changed")
            return self.block(rest, dict(env, state="(gen_reset s)"))
        if isinstance(st, ast.Assign) and U(st.targets[0]) == "use_index" and len(st.targets) == 1:
            return self.block(rest, dict(env, use_index=self.cond(st.value, env)))
        if self.is_search_if(st):
            e = f"(if {self.cond(st.test, env)} then {self.search_assign(st.body)} else {self.search_assign(st.orelse)})"
            return f"(match {e} with None => (s, ORaise) | Some items => {self.block(rest, dict(env, items=True))} end)"
        if s in (LOOP_INDEX, LOOP_SCAN):
            need = {"removed_items", "updated_items", "new_position", "keep_count"} | ({"j"} if s == LOOP_INDEX else set())
            if not need <= env["inits"] or env.get("removed") or env["state"] != "s":
                raise Refuse("_remove_helper: a loop runs on variables that are not freshly initialised")
            env2 = dict(env, removed=True)
            if s == LOOP_INDEX:
                if env.get("use_index") != "true":
                    raise Refuse("_remove_helper: the index-assisted loop is reached without use_index")
                return f"(let removed := loop_remove_by_items {self.items(env)} s in {self.block(rest, env2)})"
            return f"(match loop_remove_by_scan E q m s with None => (s, ORaise) | Some removed => {self.block(rest, env2)} end)"
        if s == SWAP:
            self.removed(env)
            if env["state"] != "s":
                raise Refuse("_remove_helper: swap after the state has changed")
            return self.block(rest, dict(env, state="SWAPPED"))
        if isinstance(st, ast.If) and env["state"] == "SWAPPED" and st.orelse:
            # the statement that decides what becomes of the index once the new rows are in
            def action(b):
                k = tuple(U(x) for x in strip(b))
                if k not in INDEX_ACTIONS:
                    raise Refuse(f"_remove_helper: unsupported index maintenance {k}")
                return INDEX_ACTIONS[k]
            idx = f"(if {self.cond(st.test, env)} then {action(st.body)} else {action(st.orelse)})"
            return self.block(rest, dict(env, state=f"(swapped_in removed s {idx})"))
        if env["state"] == "SWAPPED":
            raise Refuse("_remove_helper: the index is not decided right after the swap")
        if isinstance(st, ast.If):
            c = self.cond(st.test, env)
            on_flag = U(st.test) == "use_index"
            if c == "true":
                return self.block(list(st.body) + rest, env)
            if c == "false":
                return self.block(list(st.orelse) + rest, env)
            t = self.block(list(st.body) + rest, dict(env, use_index="true") if on_flag else env)
            f = self.block(list(st.orelse) + rest, dict(env, use_index="false") if on_flag else env)
            return f"(if {c}\n     then {t}\n     else {f})"
        raise Refuse(f"_remove_helper: unsupported statement `{s[:70]}`")

    def run(self):
        return self.block(list(self.fn.body), {"use_index": None, "items": False, "acc": {}, "state": "s", "inits": frozenset(), "removed": False})


def reset(fns):
    fn = fns.get("_reset_database")
    if fn is None or fn.decorator_list or [a.arg for a in fn.args.args] != ["self"]:
        raise Refuse("_reset_database not found")
    b = strip(fn.body)
    if len(b) != 4 or [U(b[0]), U(b[1]), U(b[3])] != ["self._storage.reset()", "self._measurements.clear()", "return"]:
        raise Refuse("_reset_database: unexpected shape")
    v = b[2]
    acts = {("self._index._reset()",): "(ix_reset (st_idx s))", ("self._index.invalidate()",): "(ix_invalidate (st_idx s))"}
    if not (isinstance(v, ast.If) and v.orelse and U(v.test) in ("self._auto_index", "not self._auto_index")):
        raise Refuse("_reset_database: unexpected index statement")
    c = "(st_auto s)" if U(v.test) == "self._auto_index" else "(negb (st_auto s))"
    try:
        t, f = acts[tuple(U(x) for x in strip(v.body))], acts[tuple(U(x) for x in strip(v.orelse))]
    except KeyError:
        raise Refuse("_reset_database: unsupported index action")
    return f"Definition gen_reset (s : state) : state :=\n  emptied s (if {c} then {t} else {f}).\n\n"


def wrappers(fns):
    rm, dr = fns.get("remove"), fns.get("drop_measurement")
    decs = ["read_op", "write_op", "temp_storage_op"]
    if rm is None or [U(d) for d in rm.decorator_list] != decs or [a.arg for a in rm.args.args] != ["self", "query", "measurement"] \
            or [U(x) for x in strip(rm.body)] != ["return self._remove_helper(query, measurement)"]:
        raise Refuse("remove: unexpected shape")
    if dr is None or [U(d) for d in dr.decorator_list] != decs or [a.arg for a in dr.args.args] != ["self", "name"] \
            or [U(x) for x in strip(dr.body)] != ["if name in self._measurements:\n    del self._measurements[name]", "return self._remove_helper(MeasurementQuery() == name, name)"]:
        raise Refuse("drop_measurement: unexpected shape")
    return ("Definition gen_remove (s : state) (q : query) (m : option str) : state * out :=\n  gen_remove_helper (gen_read_prelude s) q m.\n\n"
            "Definition gen_drop (s : state) (name : str) : state * out :=\n  gen_remove_helper (gen_read_prelude s) (meas_query (Some name)) (Some name).\n\n")


def main():
    pkg, out_path = sys.argv[1], sys.argv[2]
    refused = None
    try:
        tree = ast.parse(open(os.path.join(pkg, "database.py")).read())
        cls = [n for n in tree.body if isinstance(n, ast.ClassDef) and n.name == "TinyFlux"]
        if len(cls) != 1:
            raise Refuse("class TinyFlux not found")
        fns = {n.name: n for n in cls[0].body if isinstance(n, ast.FunctionDef)}
        if "_remove_helper" not in fns:
            raise Refuse("_remove_helper not found")
        text = HEADER + "Definition refused : bool := false.\n\n" + reset(fns) + "Section Gen.\nVariable E : env.\n\n" + \
            f"Definition gen_remove_helper (s : state) (q : query) (m : option str) : state * out :=\n  {RemoveFn(fns['_remove_helper']).run()}.\n\n" + \
            wrappers(fns) + "End Gen.\n"
    except (Refuse, SyntaxError, OSError) as r:
        refused = str(r)
        snap = open(FALLBACK_FILE).read().replace("Definition refused : bool := false.", "Definition refused : bool := true.")
        text = "(* REFUSED by the translator: " + refused[:140].replace("*", "x").replace("(", "[").replace(")", "]").replace('"', "'") + \
               " - the last verified translation (harness/RemoveGen.fallback.v) stands in *)\n" + snap
    try:
        old = open(out_path).read()
    except FileNotFoundError:
        old = None
    if old != text:
        open(out_path, "w").write(text)
    if refused:
        print(f"REFUSED remove path: {refused}")
    return 3 if refused else 0


HEADER = """(* GENERATED on every run by harness/py2coq_remove.py from tinyflux/database.py (TinyFlux._remove_helper, _reset_database, remove, drop_measurement) - do not edit.
   proofs/RemoveGenP.v proves each equal to the model's remove_helper / reset_database / db_remove / db_drop. *)
From Coq Require Import List ZArith Bool Arith.
From TF Require Import Base Query Index DB InsertSem ReadSem RemoveSem.
From TF Require Import gen.ReadGen.
Import ListNotations.

"""

if __name__ == "__main__":
    sys.exit(main())
