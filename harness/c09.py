"""C09: query expressions mean what the DSL says and never fail on valid points."""
import json
import random

from common import *  # noqa
import dbmodel as M
import pyspec
import qtie


def main(tier, seed):
    ck = Check("C09", tier, seed)
    tf = use_impl()
    rng = random.Random(seed)
    refused = []

    def regen():
        # the identity / operator table of query objects is regenerated from queries.py and proved equal to the model's (proofs/QueryGenP.v)
        rc, out = sh([PY, str(VERIF / "harness" / "py2coq_query.py"), str(REPO / "tinyflux" / "queries.py"), str(COQ / "gen" / "QueryGen.v")], timeout=60)
        refused.extend(l for l in out.splitlines() if l.startswith("REFUSED"))
    b = ck.build_proofs("Prop_C09", pre=regen, extra_targets=["Run.vo"])
    univ = qtie.universe()
    rpts = [M.real_point(tf, p) for p in univ]
    vocab, raising = qtie.vocabulary()
    c = qtie.core(vocab)
    qs = list(vocab) + raising + qtie.depth1(c) + qtie.twin_compounds() + qtie.deep_chains()
    n_exh = len(qs)
    n_rand = 1500 if tier == "quick" else 40000
    for _ in range(n_rand):
        qs.append(qtie.random_expr(rng, vocab + raising, rng.choice([2, 2, 3, 3, 4])))
    expected, direct_bad = [], []
    shapes = {"simple": 0, "depth1": 0, "deeper": 0}
    # every query is BUILT first, all from one set of shared builder objects (as a caller who keeps `tags = TagQuery()` around does), and only
    # then evaluated: deriving a query (a key, a map(), a comparison) from a builder must not change what an earlier query means
    builders, built = {}, []
    for q in qs:
        try:
            built.append(M.real_query(tf, q, builders))
        except Exception:  # noqa  building the query itself raised: the same outcome on every point
            built.append(None)
    for qi, q in enumerate(qs):
        rq = built[qi]
        if rq is None:
            row = [2] * len(rpts)
        else:
            row = [qtie.impl_eval(tf, rq, rp) for rp in rpts]
        expected.append(row)
        shapes["simple" if q[0] in ("S", "noop") else ("depth1" if qi < n_exh else "deeper")] += 1
        if qtie.wf(q):
            # the property itself, stated directly: never raises, equals the documented meaning
            for p, got in zip(univ, row):
                try:
                    want = 1 if pyspec.denote(q, p) else 0
                except pyspec.Undefined:
                    continue
                if got != want and len(direct_bad) < 5:
                    direct_bad.append({"query": q, "point": p, "implementation": ["False", "True", "raised", "non-bool"][got],
                                       "documented_meaning": bool(want),
                                       "built_with": [x for x in qs[:400] if x[0] == "S" and q[0] == "S" and x[1] == q[1] and x[2][:1] == q[2][:1]][:40],
                                       "note": "all queries are built from shared builder objects before any is evaluated (built_with: the simple queries on the same "
                                               "attribute and first key, built in this order from the same builders)"})
    ebad, edited_checked = qtie.edited_point_check(tf, qs[:n_exh], built[:n_exh], univ)
    direct_bad += [dict(x, point=x["point_after_edit"], implementation=x["same_object_after"], documented_meaning=x["fresh_equal_query_after"]) for x in ebad]
    dbad, derived_checked = qtie.derived_check(tf, qs[:n_exh], univ)
    direct_bad += [dict(x, point="(every 24th point of the universe)", implementation=[x.get("q_after"), x.get("holders_after"), x.get("d"), x.get("e")],
                        documented_meaning=[x.get("q_before"), x.get("holders_before"), x.get("fresh_q_and_c"), x.get("fresh_q_or_c")]) for x in dbad]
    # test functions that tell apart values that compare equal (3 / 3.0, 0.0 / -0.0, one instant in two zones): ONE query object asked about one and
    # then the other, in both orders - whatever it remembers about a value must not answer for another value that merely compares equal
    import math as _math
    from datetime import datetime as _dtm, timedelta as _tdl, timezone as _tzn
    sens_checked = 0
    inst = _dtm(2021, 6, 1, 12, 0, tzinfo=_tzn.utc)
    sens = [("fields", lambda v: isinstance(v, int), [3, 3.0, 1, 1.0]), ("fields", lambda v: _math.copysign(1.0, v) > 0, [0.0, -0.0, 0, -0.0]),
            ("fields", lambda v: type(v).__name__ == "float", [2.0, 2, 5, 5.0]),
            ("time", lambda t_: t_.utcoffset() == _tdl(0), [inst, inst.astimezone(_tzn(_tdl(hours=5))), inst.astimezone(_tzn(_tdl(hours=-8))), inst])]
    for attr, fn, values in sens:
        for order in (values, list(reversed(values))):
            q = (tf.FieldQuery().a.test(fn) if attr == "fields" else tf.TimeQuery().test(fn))
            for v in order:
                pt = tf.Point(time=v, fields={"a": 1}) if attr == "time" else tf.Point(time=inst, fields={"a": v})
                want = bool(fn(v))
                try:
                    got = q(pt)
                except Exception as e:  # noqa
                    got = type(e).__name__
                sens_checked += 1
                if got is not want and len(direct_bad) < 5:
                    direct_bad.append({"query": f"{'FieldQuery().a' if attr == 'fields' else 'TimeQuery()'}.test(<function telling ==-equal values apart>), ONE object asked in turn about {order!r}",
                                       "point": {"value": repr(v)}, "implementation": repr(got), "documented_meaning": want})
    shard = 600
    files = []
    for i in range(0, len(qs), shard):
        f = ck.work / f"cases_c09_{i // shard}.v"
        qtie.emit_eval_cases(f, univ, qs[i:i + shard], expected[i:i + shard])
        files.append((f, i))
    outs = ck.run_case_files([f for f, _ in files])
    mism, evaluated = [], 0
    for f, base in files:
        rc, out = outs[f]
        nums = parse_nat_list(out) if rc == 0 else None
        if nums is None:
            ck.violation({"kind": "model-evaluation-failed", "what_no_longer_checks": f.name, "log": out[-600:]}, no_input=True)
            continue
        evaluated += nums[0]
        mism += [base + k for k in nums[1:]]
    if not b["ok"]:
        ck.violation({"kind": "proof-broken", "what_no_longer_checks": f"Prop_C09.v {b['theorems']}", "log": b["log"][-1500:],
                      "forbidden": b["forbidden"]}, no_input=True)
    if direct_bad:
        d = direct_bad[0]
        ck.violation({"kind": "failing-input", **d, "more": direct_bad[1:],
                      "how_to_replay": "build the query with harness/dbmodel.real_query and call it on real_point(point)"})
    elif mism:
        q = qs[mism[0]]
        ck.violation({"kind": "correspondence-broken", "query": q, "implementation_outcomes_over_universe": expected[mism[0]],
                      "what_no_longer_checks": "correspondence Query.eval (theorems C09_*) vs SimpleQuery/CompoundQuery.__call__",
                      "disagreeing_queries": len(mism)}, no_input=True)
    for f_ in load_known_findings():
        if f_.get("status") == "known" and "C09" in f_.get("properties", []) and f_.get("repro"):
            rc_, out_ = sh([PY, str(VERIF / "findings" / "repro.py"), f_["repro"]], env=impl_env(), timeout=120)
            if "DEFECT" in out_:
                ck.known_finding(f"{f_['id']}: {f_['what']}")
    ck.cov = {
        "same_object_after_in_place_edit_checked": edited_checked, "queries_unchanged_by_deriving_from_them_checked": derived_checked, "type_sensitive_tests_checked": sens_checked,
        "translator": {"source": "tinyflux/queries.py: every place a query object gets its _hash key, its test operator, its == -> coq/gen/QueryGen.v (regenerated on this run)",
                       "refused": refused, "equivalence_theorems": "enc_eqb, gen_qhash_eq, gen_qeq_eq, gen_tables (proofs/QueryGenP.v)"},
        "obligations": b["obligations"], "discharged": b["discharged"],
        "checker_cmd": "make -C /verif/coq Prop_C09.vo Run.vo (coqc, full .vo); Print Assumptions per theorem; model evaluated with vm_compute",
        "trusted_base": TRUSTED_BASE_COMMON + ["hand model Query.v tied by correspondence", "twin table (user callables, regexes)",
                                               "Print Assumptions: " + json.dumps(b["assumptions"])],
        "theorems": b["theorems"], "forbidden_tokens_found": b["forbidden"],
        "evaluations": len(qs) * len(univ), "queries": len(qs), "universe_points": len(univ), "model_query_rows": evaluated,
        "distinct_nontrivial": len({json.dumps(q) for q, row in zip(qs, expected) if 0 in row and 1 in row}),
        "rule": "every simple query of the vocabulary and the whole depth-1 closure of a 20-query core (exhaustive) plus random expressions of "
                "depth 2-4, each evaluated on the full point universe (all combinations of missing key / None / '' / strings, missing / None / 0 / "
                "negative / positive / fractional / inf field, 2 measurements, 2 adjacent instants); non-trivial = true on some point and false on another",
        "exhaustive": False, "exhaustive_part": {"queries": n_exh, "points": len(univ)}, "random_queries": n_rand,
        "shapes": shapes, "outcome_counts": {k: sum(r.count(i) for r in expected) for i, k in enumerate(["false", "true", "raise"])},
        "traces_validated_against_impl": evaluated * len(univ),
        "samples": [{"query": qs[i], "outcomes_first_8_points": expected[i][:8]} for i in (0, len(vocab) + 5, len(qs) - 1)],
    }
    return ck.finish(level="proof", extra_assumptions=["user test/map functions and re are an environment (theorems quantify over all of them); "
                                                       "the tie instantiates them with the twin table"])
