"""C12: a crash at any I/O step leaves the file holding the old or the new contents."""
import json
import os
import random

from common import *  # noqa
import dbmodel as M
import iotie

KINDS = ["insert", "insert_multiple", "remove_some", "remove_none", "remove_all_match", "update_some",
         "update_nochange", "drop", "remove_all", "handle_update", "insert_multiple_bad", "update_raises", "update_shrink", "remove_most", "insert_big_rows", "update_newest_big", "insert_after_failed_update_big", "insert_newer_unsorted", "rewrite_line_separators", "rewrite_twice_linebreaks"]
BAD = [{"time": 0, "meas": "<undecodable>", "tags": {}, "fields": {}}]


def prefix_ok(state, before, after):
    """old, new, or (for appends) old plus a prefix of the appended points"""
    if iotie.same_points(state, before) or iotie.same_points(state, after):
        return True
    if state is not None and not isinstance(state, tuple) and before is not None and after is not None \
            and len(before) <= len(state) <= len(after) and iotie.same_points(after[:len(before)], before):
        return iotie.same_points(state, after[:len(state)])
    return False


def main(tier, seed):
    ck = Check("C12", tier, seed)
    tf = use_impl()
    refused = []
    # the storage's I/O calls are regenerated from storages.py (symbolic execution) and proved equal to the model's scripts (proofs/IOGenP.v)
    b = ck.build_proofs("Prop_C12", pre=lambda: run_translator("py2coq_io.py", "tinyflux/storages.py", "gen/IOGen.v", refused), extra_targets=["Run.vo", "IO.vo"])
    n_cases = 20 if tier == "quick" else 180
    cases = iotie.io_cases(seed, n_cases, kinds=KINDS)
    coq_cases, direct_bad, n_pairs, kinds, hard_checked = [], [], 0, {}, 0
    for ci, (hist, op, auto, kind) in enumerate(cases):
        other = ci % 2 == 1      # every second case keeps the temp directory on another filesystem than the database
        iotie.HARDLINK = ci % 3 == 2      # every third case: the database file has a second hard link (a `cp -l` snapshot) when the operation starts
        rec = iotie.recorded_run(tf, str(ck.work / f"rec{ci}"), hist, op, auto, other_fs=other)
        # old / new are the LOGICAL contents (what the database answers), not what the file happened to hold: a row of an
        # earlier, completed operation that never reached the file is a lost point
        lb = iotie.logical_contents(tf, str(ck.work / f"lb{ci}"), hist, auto)
        la = iotie.logical_contents(tf, str(ck.work / f"la{ci}"), list(hist) + [op], auto)
        if lb is not None and la is not None:
            rec["before"], rec["after"] = lb, la
            if op[0] == "insert" and all(p is not None and p.get("time") is not None for p in op[1]) and iotie.same_points(la[:len(lb)], lb):
                # "the old contents plus a prefix of the new points": the new points are the batch AS GIVEN, in the order given
                given, stored = [p["time"] for p in op[1]], [p["time"] for p in la[len(lb):]]
                if given != stored and len(direct_bad) < 4:
                    direct_bad.append({"kind": "failing-input", "history": hist, "op": op, "auto_index": auto, "contents_before_op": lb, "contents_after_op": la,
                                       "times_given": given, "times_stored_after_the_old_contents": stored,
                                       "why": "the completed insert did not append the batch in the order given: a crash inside it cannot leave the old contents plus a prefix of the new points"})
        n = len(rec["events"])
        kinds[kind] = kinds.get(kind, 0) + n + 1
        obs = []
        for k in range(n + 1):
            if kind == "update_newest_big" and not (k % 23 == 0 or k > n - 70):
                obs.append(None)          # a long schedule (six calls per row): every 23rd boundary and the last seventy
                continue
            hard = (tier == "thorough" or ci < 3) and k % 5 == 2
            r = iotie.crash_run(tf, str(ck.work / f"cr{ci}_{k}"), hist, op, k, auto, hard=hard, other_fs=other)
            hard_checked += hard
            n_pairs += 1
            obs.append(r["state"] if r["state"] is not None else BAD)
            ok_file = prefix_ok(r["state"], rec["before"], rec["after"])
            ok_lib = not isinstance(r["lib_state"], tuple) and prefix_ok(r["lib_state"], rec["before"], rec["after"])
            if not (ok_file and ok_lib) and len(direct_bad) < 4:
                direct_bad.append({"kind": "failing-input", "history": hist, "op": op, "auto_index": auto, "crash_before_call": k, "database_file_has_a_second_hard_link": iotie.HARDLINK, "temp_dir_on_other_filesystem": other,
                                   "call": list(rec["events"][k][1:3]) if k < n else "end",
                                   "calls_of_op": [f"{t}.{c}" for _, t, c, _ in rec["events"]],
                                   "contents_before_op": rec["before"], "contents_after_op": rec["after"],
                                   "file_decodes_to": r["state"], "reopened_database_holds": r["lib_state"], "files_left": r["left"],
                                   "why": "file left by the crash is neither the old nor the new contents" if not ok_file
                                          else "reopening the database after the crash does not give the old or the new contents"})
        if kind not in ("insert_big_rows", "update_newest_big", "insert_after_failed_update_big"):        # (its 70 KiB of text is checked directly above; as Coq literals it would dominate the run time)
            coq_cases.append((auto, hist, op, obs))
    # tie: the observed sequence of file contents must walk monotonically through the model's crash states
    f = ck.work / "cases_c12.v"
    lines = [iotie.COQ_HEAD, "Definition results : list bool := ["]
    lines.append(";\n".join(f"crash_ok {M.cbool(a)} {M.clist(h, M.cop)} {M.cop(o)} {M.clist(obs, lambda ps: M.clist(ps, M.cpoint))}"
                            for a, h, o, obs in coq_cases))
    lines.append("].\nEval vm_compute in map (fun b : bool => if b then 1 else 0) results.")
    f.write_text("\n".join(lines) + "\n")
    rc, out = coqc_file(f, timeout=1200)
    nums = parse_nat_list(out) if rc == 0 else None
    if not b["ok"]:
        ck.violation({"kind": "proof-broken", "what_no_longer_checks": f"Prop_C12.v {b['theorems']}", "log": b["log"][-1500:],
                      "forbidden": b["forbidden"]}, no_input=True)
    if direct_bad:
        ck.violation(dict(direct_bad[0], more=len(direct_bad) - 1))
    elif nums is None:
        ck.violation({"kind": "model-evaluation-failed", "what_no_longer_checks": "cases_c12.v", "log": out[-800:]}, no_input=True)
    elif 0 in nums:
        i = nums.index(0)
        a, h, o, obs = coq_cases[i]
        ck.violation({"kind": "correspondence-broken",
                      "what_no_longer_checks": "I/O-script correspondence IO.v crash_states vs file contents at real I/O boundaries (theorems C12_*)",
                      "history": h, "op": o, "auto_index": a, "observed_sizes": [len(x) for x in obs]}, no_input=True)
    ck.cov = {
        "translator": dict(IO_TRANSLATOR_COV, refused=refused),
        "obligations": b["obligations"], "discharged": b["discharged"],
        "checker_cmd": "make -C /verif/coq Prop_C12.vo IO.vo Run.vo; Print Assumptions per theorem; crash_states evaluated with vm_compute",
        "trusted_base": TRUSTED_BASE_COMMON + [
            "hand model IO.v (I/O scripts, one flush = one atomic write, no OS page cache) and DB.v, tied by correspondence",
            "run-time proxies harness/ioproxy.py on open/NamedTemporaryFile/shutil/os inside tinyflux.storages; process death by os._exit, a subset by SIGKILL",
            "Print Assumptions: " + json.dumps(b["assumptions"])],
        "theorems": b["theorems"], "forbidden_tokens_found": b["forbidden"],
        "evaluations": n_pairs, "histories": len(cases),
        "distinct_nontrivial": sum(1 for a, h, o, obs in coq_cases if len({json.dumps(x, default=str) for x in obs}) >= 2),
        "rule": "sampled (history, operation) pairs on a CSV database with flush_on_insert=True; for EVERY I/O boundary k of the operation's recorded schedule a child "
                "process runs the history and dies at boundary k; the file is decoded by an independent reader and reopened through the library; "
                "non-trivial = the file content changes somewhere along the boundaries",
        "boundaries_by_operation_kind": kinds, "temp_dir_on_other_filesystem_available": iotie.other_fs_tmp(str(ck.work / "x")).startswith("/dev/shm"), "really_killed_with_SIGKILL": hard_checked,
        "traces_validated_against_impl": sum(nums) if nums else 0,
        "samples": [{"op": coq_cases[0][2], "sizes_along_boundaries": [len(x) for x in coq_cases[0][3]]}],
    }
    return ck.finish(level="proof", extra_assumptions=["process death only (not power loss); one flush is one atomic write"])
