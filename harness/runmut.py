#!/usr/bin/env python3
"""runmut.py <seeded-id> <CHECK-ID> [tier]: apply a seeded change to /repo, run one check, undo the change.
Records the outcome in seeded/<id>/detected.json.  Never commits anything in /repo."""
import json, subprocess, sys, os, re
V = os.path.dirname(os.path.dirname(os.path.abspath(__file__)))
sid, chk = sys.argv[1], sys.argv[2]
tier = sys.argv[3] if len(sys.argv) > 3 else "quick"
patch = f"{V}/seeded/{sid}/patch.diff"
assert subprocess.run(["git", "-C", "/repo", "status", "--porcelain", "--", "tinyflux"], capture_output=True, text=True).stdout.strip() == "", "repo dirty"
subprocess.run(["git", "-C", "/repo", "apply", patch], check=True)
try:
    p = subprocess.run([f"{V}/check", chk, tier], capture_output=True, text=True, cwd=V, timeout=3000)
finally:
    subprocess.run(["git", "-C", "/repo", "checkout", "--", "tinyflux"], check=True)
out = p.stdout + p.stderr
viol = [l for l in out.splitlines() if l.startswith("VIOLATION")]
kind = None
if viol:
    m = re.search(r"replay=(\S+)", viol[0])
    try:
        kind = json.load(open(m.group(1))).get("kind")
    except Exception:
        pass
res = {"check": chk, "tier": tier, "exit": p.returncode, "violation_lines": viol, "replay_kind": kind}
f = f"{V}/seeded/{sid}/detected.json"
cur = json.load(open(f)) if os.path.exists(f) else []
cur = [c for c in cur if not (c["check"] == chk and c["tier"] == tier)] + [res]
json.dump(cur, open(f, "w"), indent=1)
print(sid, chk, tier, "exit", p.returncode, viol[:1], kind)
