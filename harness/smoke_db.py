import sys, os, json, time
sys.path.insert(0, os.path.dirname(os.path.abspath(__file__)))
from common import *
import dbtie
n = int(sys.argv[1]) if len(sys.argv) > 1 else 40
seed = int(sys.argv[2]) if len(sys.argv) > 2 else 1
ck = Check("SMOKE", "quick", seed)
tf = use_impl()
t0 = time.time()
res = dbtie.run_tie(ck, tf, n, {})
print("time", time.time() - t0, "cases", len(res["cases"]), "div", len(res["divergences"]), "failed", len(res["failed_files"]))
for name, tail in res["failed_files"][:2]:
    print(name, tail)
from collections import Counter
c = Counter()
for ci, k in res["divergences"]:
    csv, auto, ops, outs = res["cases"][ci]
    c[(dbtie.attribute(ops, outs, k), dbtie.op_kind(ops[k]))] += 1
print(c)
for ci, k in res["divergences"][:int(os.environ.get("SHOW", "3"))]:
    csv, auto, ops, outs = res["cases"][ci]
    print("=== case", ci, "csv", csv, "auto", auto, "step", k, "known", dbtie.in_known_class(csv, ops, k))
    for j in range(max(0, k - 6), k + 1):
        print("   ", j, ops[j], "->", str(outs[j])[:300])
    print("   MODEL:", dbtie.model_outputs(ck, (csv, auto, ops, outs), k)[-1500:])
print(res["stats"])
