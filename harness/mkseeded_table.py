#!/usr/bin/env python3
"""Print the markdown table of seeded changes (id, one-line description, caught by) from seeded/*/meta.json + detected.json."""
import glob, json, os, re
V = os.path.dirname(os.path.dirname(os.path.abspath(__file__)))
print("| change | what it is | caught by (quick tier) |\n|---|---|---|")
for d in sorted(glob.glob(f"{V}/seeded/C*"), key=lambda p: (os.path.basename(p).split("-")[0], int(os.path.basename(p).split("-")[1]))):
    sid = os.path.basename(d)
    m = json.load(open(f"{d}/meta.json"))
    desc = re.sub(r"^#+\s*", "", (m.get("needs_to_manifest") or "").strip())
    desc = re.sub(r"^(C\d+\s+)?[Cc]hange\s*\d+\s*[-:–—]*\s*", "", desc)[:110].replace("|", "/")
    det = json.load(open(f"{d}/detected.json")) if os.path.exists(f"{d}/detected.json") else []
    last = {}
    for x in det:
        last[x["check"]] = x
    caught = ", ".join(f"{c} ({v.get('replay_kind') or 'violation'})" for c, v in sorted(last.items()) if v["exit"] == 1) or "-"
    print(f"| {sid} | {desc} | {caught} |")
