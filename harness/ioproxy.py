"""Run-time I/O proxies: the names open, NamedTemporaryFile, shutil and os inside tinyflux.storages are
rebound to recording objects (no source hook).  Every call that reaches the operating system through
those names is a *boundary*; the harness can record them, make the process die at boundary k, or make
call k fail with OSError before or after it took effect."""
import builtins
import errno
import os as real_os
import shutil as real_shutil
import tempfile as real_tempfile

DIE_EXIT = 77
# the error an injected fault carries varies with the boundary: what a caller may do with an error must not depend on its number ("transient"
# numbers - EAGAIN, EINTR, ETIMEDOUT, ESTALE - are the ones a retry would be written for)
ERRNOS = [errno.EIO, errno.ENOSPC, errno.EAGAIN, errno.EINTR, errno.ETIMEDOUT, errno.ESTALE, errno.EDQUOT, errno.EACCES]


def injected_error(k, where):
    return OSError(ERRNOS[(k or 0) % len(ERRNOS)], where)


class Stop(Exception):
    pass


class IOHarness:
    def __init__(self):
        self.events = []            # (index, target, call, detail)
        self.mode = "off"           # off | record | die | fail_before | fail_after
        self.k = None
        self.count = 0
        self.snap_path = None       # primary path: bytes snapshot after every boundary (record mode)
        self.snaps = []
        self.primary = None
        self.injected = False

    # called by every proxied operation, BEFORE it takes effect
    def before(self, target, call, detail=None):
        if self.mode == "off":
            return None
        i = self.count
        self.count += 1
        self.events.append((i, target, call, detail))
        if self.k is not None and i == self.k:
            if self.mode == "die":
                real_os._exit(DIE_EXIT)
            if self.mode == "fail_before":
                self.injected = True
                raise injected_error(self.k, f"injected before {target}.{call}")
            if self.mode == "fail_after":
                return "fail_after"
        return None

    def after(self, token, target, call):
        if self.mode == "record" and self.snap_path:
            try:
                with builtins.open(self.snap_path, "rb") as f:
                    self.snaps.append(f.read())
            except FileNotFoundError:
                self.snaps.append(None)
        if token == "fail_after":
            self.injected = True
            raise injected_error(self.k, f"injected after {target}.{call}")

    def arm(self, mode, k=None, snap_path=None):
        self.mode, self.k, self.count, self.events, self.snaps, self.snap_path = mode, k, 0, [], [], snap_path
        self.injected = False

    def disarm(self):
        self.mode = "off"


class FileProxy:
    def __init__(self, h, real, target):
        object.__setattr__(self, "_h", h)
        object.__setattr__(self, "_f", real)
        object.__setattr__(self, "_t", target)

    def _call(self, name, *a, **kw):
        tok = self._h.before(self._t, name, (a[:2] if name == "seek" else a[:1]) if name in ("seek", "write") else None)
        r = getattr(self._f, name)(*a, **kw)
        self._h.after(tok, self._t, name)
        return r

    def seek(self, *a):
        return self._call("seek", *a)

    def write(self, s):
        return self._call("write", s)

    def flush(self):
        return self._call("flush")

    def truncate(self, *a):
        return self._call("truncate", *a)

    def close(self):
        return self._call("close")

    def tell(self):
        return self._call("tell")

    def fileno(self):
        return self._call("fileno")

    def read(self, *a):
        return self._call("read", *a)

    def readline(self, *a):
        return self._call("readline", *a)

    def __iter__(self):
        return self

    def __next__(self):
        tok = self._h.before(self._t, "next")
        try:
            r = next(self._f)
        finally:
            self._h.after(tok, self._t, "next")
        return r

    def __enter__(self):
        return self

    def __exit__(self, *a):
        self.close()

    def __getattr__(self, n):
        return getattr(self._f, n)

    def __setattr__(self, n, v):
        setattr(self._f, n, v)


class OsProxy:
    """stands for the module `os` inside tinyflux.storages"""

    def __init__(self, h):
        self._h = h
        self.path = real_os.path
        self.SEEK_END = real_os.SEEK_END

    def fsync(self, fd):
        tok = self._h.before("os", "fsync")
        real_os.fsync(fd)
        self._h.after(tok, "os", "fsync")

    def replace(self, a, b):
        tok = self._h.before("os", "replace")
        real_os.replace(a, b)
        self._h.after(tok, "os", "replace")

    def remove(self, p):
        tok = self._h.before("os", "remove", real_os.path.basename(str(p)))
        real_os.remove(p)
        self._h.after(tok, "os", "remove")

    def __getattr__(self, n):
        return getattr(real_os, n)


class ShutilProxy:
    def __init__(self, h):
        self._h = h

    def _copy(self, src, dst, label):
        # chunked re-implementation so that "open", "mid" and "done" are separate boundaries
        tok = self._h.before("copy", "open", label)
        with builtins.open(src, "rb") as fs:
            data = fs.read()
        fd = builtins.open(dst, "wb")
        self._h.after(tok, "copy", "open")
        try:
            half = len(data) // 2
            fd.write(data[:half])
            fd.flush()
            tok = self._h.before("copy", "mid")
            fd.write(data[half:])
            fd.flush()
            self._h.after(tok, "copy", "mid")
            tok = self._h.before("copy", "done")
        finally:
            fd.close()
        self._h.after(tok, "copy", "done")
        return dst

    def copyfile(self, src, dst, **kw):
        return self._copy(src, dst, "copyfile")

    def copy(self, src, dst, **kw):
        r = self._copy(src, dst, "copy")
        real_shutil.copymode(src, dst)
        return r

    def copy2(self, src, dst, **kw):
        return self._copy(src, dst, "copy2")

    def move(self, src, dst, **kw):
        tok = self._h.before("shutil", "move")
        try:
            real_os.rename(src, dst)
        except OSError:
            self._h.after(tok, "shutil", "move")
            self._copy(src, dst, "move-copy")
            real_os.unlink(src)
            return dst
        self._h.after(tok, "shutil", "move")
        return dst

    def __getattr__(self, n):
        return getattr(real_shutil, n)


def install(storages_module, h):
    """rebind the four names inside tinyflux.storages; returns an undo function"""
    saved = {n: getattr(storages_module, n) for n in ("open", "NamedTemporaryFile", "shutil", "os") if hasattr(storages_module, n)}
    had_open = "open" in storages_module.__dict__

    def p_open(path, *a, **kw):
        mode = kw.get("mode", a[0] if a else "r")
        target = "P"
        if h.primary is not None and real_os.path.realpath(str(path)) != real_os.path.realpath(str(h.primary)):
            target = "X:" + real_os.path.basename(str(path))
        tok = h.before(target, "open", mode)
        f = builtins.open(path, *a, **kw)
        h.after(tok, target, "open")
        return FileProxy(h, f, target)

    def p_ntf(*a, **kw):
        tok = h.before("T", "create")
        f = real_tempfile.NamedTemporaryFile(*a, **kw)
        h.after(tok, "T", "create")
        return FileProxy(h, f, "T")

    storages_module.open = p_open
    storages_module.NamedTemporaryFile = p_ntf
    storages_module.shutil = ShutilProxy(h)
    storages_module.os = OsProxy(h)

    def undo():
        for n, v in saved.items():
            setattr(storages_module, n, v)
        if not had_open:
            try:
                del storages_module.open
            except AttributeError:
                pass
    return undo
