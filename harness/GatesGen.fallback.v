(* GENERATED on every run by harness/py2coq_gates.py from tinyflux/database.py (class TinyFlux: gates, direct storage effects and calls of every method) -
   do not edit.  proofs/GatesGenP.v decides the three gate rules on it. *)
From Coq Require Import List String Bool.
From TF Require Import GateSem.
Import ListNotations.
Local Open Scope string_scope.

Definition refused : bool := false.

Definition gen_decorators : list (string * list gate) := [("append_op", [GAppend]); ("read_op", [GRead]); ("temp_storage_op", [GTemp]); ("write_op", [GWrite])].

Definition gen_methods : list meth := [
  mkMeth "__init__" true [] [] ["reindex"];
  mkMeth "storage" true [] [] [];
  mkMeth "index" true [] [] [];
  mkMeth "__enter__" true [] [] [];
  mkMeth "__exit__" true [] [] ["close"];
  mkMeth "__iter__" true [] [ERead] [];
  mkMeth "__len__" true [] [ERead] [];
  mkMeth "__repr__" true [] [] [];
  mkMeth "all" true [GRead] [ERead] [];
  mkMeth "close" true [] [] [];
  mkMeth "contains" true [GRead] [ERead] [];
  mkMeth "count" true [GRead] [ERead] [];
  mkMeth "drop_measurement" true [GRead; GWrite; GTemp] [] ["_remove_helper"];
  mkMeth "get" true [GRead] [ERead] [];
  mkMeth "get_field_keys" true [GRead] [ERead] [];
  mkMeth "get_field_values" true [GRead] [ERead] [];
  mkMeth "get_measurements" true [GRead] [ERead] [];
  mkMeth "get_tag_keys" true [GRead] [ERead] [];
  mkMeth "get_tag_values" true [GRead] [ERead] [];
  mkMeth "get_timestamps" true [GRead] [ERead] [];
  mkMeth "insert" true [GAppend] [] ["_insert_helper"];
  mkMeth "insert_multiple" true [GAppend] [] ["_insert_helper"];
  mkMeth "measurement" true [] [] [];
  mkMeth "reindex" true [GRead] [ERead] [];
  mkMeth "remove" true [GRead; GWrite; GTemp] [] ["_remove_helper"];
  mkMeth "remove_all" true [GWrite] [] ["_reset_database"];
  mkMeth "search" true [GRead] [ERead] [];
  mkMeth "select" true [GRead] [ERead] [];
  mkMeth "update" true [GRead; GWrite; GTemp] [] ["_update_helper"];
  mkMeth "update_all" true [GRead; GWrite; GTemp] [] ["_update_helper"];
  mkMeth "_generate_updater" false [] [] [];
  mkMeth "_insert_helper" false [] [EAppend] [];
  mkMeth "_remove_helper" false [] [ERead; EStage; ESwap] ["_reset_database"];
  mkMeth "_reset_database" false [] [EReset] [];
  mkMeth "_update_helper" false [] [ERead; EStage; ESwap] ["_generate_updater"];
  mkMeth "Measurement.__init__" true [] [] [];
  mkMeth "Measurement.index" true [] [] [];
  mkMeth "Measurement.name" true [] [] [];
  mkMeth "Measurement.storage" true [] [] [];
  mkMeth "Measurement.__iter__" true [] [ERead] [];
  mkMeth "Measurement.__len__" true [] [ERead] [];
  mkMeth "Measurement.__repr__" true [] [] [];
  mkMeth "Measurement.all" true [] [] [];
  mkMeth "Measurement.contains" true [] [] ["contains"];
  mkMeth "Measurement.count" true [] [] ["count"];
  mkMeth "Measurement.get" true [] [] ["get"];
  mkMeth "Measurement.get_field_keys" true [] [] ["get_field_keys"];
  mkMeth "Measurement.get_field_values" true [] [] ["get_field_values"];
  mkMeth "Measurement.get_tag_keys" true [] [] ["get_tag_keys"];
  mkMeth "Measurement.get_tag_values" true [] [] ["get_tag_values"];
  mkMeth "Measurement.get_timestamps" true [] [] ["get_timestamps"];
  mkMeth "Measurement.insert" true [] [] ["insert"];
  mkMeth "Measurement.insert_multiple" true [] [] ["insert_multiple"];
  mkMeth "Measurement.remove" true [] [] ["remove"];
  mkMeth "Measurement.remove_all" true [] [] ["drop_measurement"];
  mkMeth "Measurement.search" true [] [] ["search"];
  mkMeth "Measurement.select" true [] [] ["select"];
  mkMeth "Measurement.update" true [] [] ["update"];
  mkMeth "Measurement.update_all" true [] [] ["update"]
].
