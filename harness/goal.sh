#!/bin/bash
# goal.sh <file.v> <line>: show the proof state after line <line> of the file (development aid)
f=$1; n=$2
tmp=/verif/.work/_goal_$$.v
head -n $n "$f" > $tmp
echo "Show. Abort All." >> $tmp
cd /verif/coq && timeout 300 coqc -R . TF -w -notation-overridden $tmp 2>&1 | grep -v conda | head -${3:-60}
rm -f $tmp /verif/.work/_goal_$$.*
