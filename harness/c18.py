"""C18: sorted-list search helpers.  Proof over the translated utils.py + exhaustive tie."""
import itertools
import json
import random

from common import *  # noqa

FUNCS = ["find_eq", "find_lt", "find_le", "find_gt", "find_ge"]


# ---- the documented meaning, stated directly (oracle for the failing-input search) ----
def oracle(fn, l, x):
    if fn == "find_eq":
        idx = [i for i, a in enumerate(l) if a == x]
        return idx[0] if idx else None
    if fn == "find_lt":
        idx = [i for i, a in enumerate(l) if a < x]
        return idx[-1] if idx else None
    if fn == "find_le":
        idx = [i for i, a in enumerate(l) if a <= x]
        return idx[-1] if idx else None
    if fn == "find_gt":
        idx = [i for i, a in enumerate(l) if a > x]
        return idx[0] if idx else None
    if fn == "find_ge":
        idx = [i for i, a in enumerate(l) if a >= x]
        return idx[0] if idx else None


def run_impl(utils, fn, l, x):
    try:
        r = getattr(utils, fn)(list(l), x)
    except Exception as e:  # noqa
        return ("raise", type(e).__name__)
    if r is None or (isinstance(r, int) and not isinstance(r, bool)):
        return ("ret", r)
    return ("ret-other", repr(r))


def exhaustive_scope():
    """All sorted lists of length 0..7 over 5 values (encoded 2,4,6,8,10) x probes inside,
    between and outside (1..11)."""
    vals = [2, 4, 6, 8, 10]
    for n in range(0, 8):
        for l in itertools.combinations_with_replacement(vals, n):
            for x in range(1, 12):
                yield l, x


def random_scope(rng, n):
    """Random float lists (with duplicates, -0.0/0.0, infinities); the model sees ranks."""
    specials = [0.0, -0.0, float("inf"), float("-inf"), 1.0, 1.0000000000000002, 5e-324, -5e-324]
    # a fixed battery first (whatever the random stream does): probes that a conversion to float would move onto - or past - a stored element
    from decimal import Decimal as _D
    from fractions import Fraction as _F
    for l, x in [([0, 2 ** 63, 2 ** 64 + 1], 2 ** 63 - 1), ([0, 2 ** 63, 2 ** 64 + 1], 2 ** 63 + 1), ([10 ** 30], 10 ** 30 + 1), ([10 ** 30 - 1, 10 ** 30], 10 ** 30 - 1),
                 ([-2 ** 70, 0], -2 ** 70 - 1), ([2 ** 53, 2 ** 53 + 2], 2 ** 53 + 1), ([float(2 ** 53)], 2 ** 53 + 1), ([0.1, 0.5], _D("0.1")), ([0.1, 0.5], _D("0.5")),
                 ([0.1, 0.3], _F(1, 10)), ([_F(1, 3), _F(2, 3)], 1 / 3), ([0.5, 2.5], _F(5, 2)), ([1, 2, 3], 2.0000000000000004), ([1.0, 2.0], 2 ** 70)]:
        yield l, x
    # INT (and bool) probes on lists that hold fractions between the probe and its successor, and ties next to gaps in lists of consecutive ints:
    # every sorted list of length <= 4 over {1, 1.25, 1.5, 2, 2.5, 2.75} x probes 0..3 / True / False; every sorted int list of length <= 5 over {0, 1, 2, 3}
    # whose span is its length - 1 although it has a tie
    for k_ in range(1, 5):
        for l in itertools.combinations_with_replacement([1, 1.25, 1.5, 2, 2.5, 2.75], k_):
            if any(isinstance(a, float) for a in l):
                for x in (0, 1, 2, 3, True, False):
                    yield list(l), x
    for k_ in range(3, 6):
        for l in itertools.combinations_with_replacement([0, 1, 2, 3, 4], k_):
            if l[-1] - l[0] == k_ - 1 and len(set(l)) < k_:
                for x in range(-1, 6):
                    yield list(l), x
    for c in range(n):
        k = rng.randrange(0, 40)
        if c % 25 == 7:
            # long lists (lengths around 256 / 512 / 1024, few distinct values or none repeated), probes at and beyond both ends and at
            # runs of equal elements: whatever depends on the SIZE of the list or of a run
            k = rng.choice([255, 256, 257, 258, 300, 511, 512, 513, 1024, 1025])
            distinct = rng.choice([3, 40, k])
            pool = sorted(rng.uniform(-10, 10) for _ in range(distinct))
            l = sorted(rng.choice(pool) for _ in range(k)) if distinct < k else pool
            x = rng.choice([l[-1], l[-1] + 1, l[0], l[0] - 1, rng.choice(pool), rng.choice(pool) + 1e-9, l[k // 2]])
            yield l, x
            continue
        if c % 25 in (3, 12, 21):
            # the helpers take ANY sorted list and ANY probe that compares with its elements: datetimes, strings, tuples, big ints, Fractions
            from datetime import datetime, timedelta, timezone
            from fractions import Fraction
            k = rng.randrange(0, 12)
            kind = ["datetime", "str", "tuple", "bigint", "fraction", "naive datetime", "ints probed by float", "floats probed by int", "mixed numbers", "decimal"][(c // 3) % 10]
            if kind == "datetime":
                pool = [datetime(2020, 1, 1, tzinfo=timezone.utc) + timedelta(seconds=rng.randrange(0, 6), microseconds=rng.choice([0, 1, 999999])) for _ in range(max(1, k // 2 + 1))]
                mk = lambda: rng.choice(pool + [pool[0] - timedelta(days=1), pool[-1] + timedelta(days=400 * 365)])
            elif kind == "naive datetime":
                pool = [datetime(1999, 12, 31, 23, 59, 59) + timedelta(seconds=rng.randrange(0, 4)) for _ in range(max(1, k // 2 + 1))]
                mk = lambda: rng.choice(pool + [datetime(1, 1, 1), datetime(9999, 12, 31)])
            elif kind == "str":
                pool = [rng.choice(["", "a", "ab", "b", "B", "\u00e9", "a\n"]) for _ in range(max(1, k // 2 + 1))]
                mk = lambda: rng.choice(pool + ["", "zz", "aa"])
            elif kind == "tuple":
                pool = [(rng.randrange(3), rng.choice(["x", "y"])) for _ in range(max(1, k // 2 + 1))]
                mk = lambda: rng.choice(pool + [(0, ""), (9, "z"), (1,)])
            elif kind == "bigint":
                pool = [rng.choice([0, 1, -1, 2 ** 63, 2 ** 64 + 1, -2 ** 70, 10 ** 30]) for _ in range(max(1, k // 2 + 1))]
                mk = lambda: rng.choice(pool + [2 ** 63 - 1, 10 ** 30 + 1, -10 ** 40])
            elif kind == "ints probed by float":
                pool = [rng.randrange(-4, 5) for _ in range(max(1, k // 2 + 1))]
                mk = lambda: float(rng.choice(pool + [9, -9])) if rng.random() < 0.8 else rng.choice(pool) + 0.5
            elif kind == "floats probed by int":
                pool = [float(rng.randrange(-4, 5)) for _ in range(max(1, k // 2 + 1))]
                mk = lambda: int(rng.choice(pool + [9.0, -9.0]))
            elif kind == "mixed numbers":
                pool = [rng.choice([1, 1.5, 2, 2.0, -1, -1.0, 0, 0.0, True]) for _ in range(max(1, k // 2 + 1))]
                mk = lambda: rng.choice([1, 1.0, 2, 2.0, 0, -1, 1.5, 3, True])
            elif kind == "decimal":
                from decimal import Decimal
                pool = [rng.choice([0.1, 0.5, 1.0, 2.5, -0.25]) for _ in range(max(1, k // 2 + 1))]
                mk = lambda: rng.choice([Decimal("0.1"), Decimal("0.5"), Decimal("2.5"), Decimal("-0.25"), Decimal("7")])
            else:
                pool = [Fraction(rng.randrange(-5, 6), rng.randrange(1, 4)) for _ in range(max(1, k // 2 + 1))]
                mk = lambda: rng.choice(pool + [Fraction(1, 7), 3, -8])
            l = sorted(rng.choice(pool) for _ in range(k))
            yield l, mk()
            continue
        if c % 25 in (9, 19):
            # magnitudes at which arithmetic on the elements (differences, products, midpoints) underflows to 0.0 or overflows to inf, while the
            # comparisons the helpers are specified by stay exact: probes just outside and just inside the stored span
            scale = rng.choice([1e-170, 1e-200, 1e-165, 3e-162, 1e-300, 5e-324, 1e300, 1.5e154, -1e-180, 1e-310])
            k = rng.randrange(1, 9)
            pool = [scale * j for j in rng.sample(range(1, 12), min(k, 6))]
            l = sorted(rng.choice(pool) for _ in range(k))
            lo, hi = l[0], l[-1]
            x = rng.choice([lo - abs(scale), hi + abs(scale), lo, hi, lo - abs(scale) / 2, hi + abs(scale) / 2, (lo + hi) / 2, rng.choice(pool), 0.0, -abs(scale)])
            yield l, x
            continue
        if c % 25 == 16:
            # runs of exactly 7 / 8 / 9 / 16 / 17 equal elements inside a longer list, probed at the run's value and next to it
            run = rng.choice([7, 8, 9, 15, 16, 17, 32, 33])
            v = rng.choice([0.0, 1577836800.0, -3.5])
            l = sorted([v - 2, v - 1] * rng.choice([0, 1, 2]) + [v] * run + [v + 1, v + 2][:rng.choice([0, 1, 2])])
            yield l, rng.choice([v, v, v + 1, v - 1, v + 0.5])
            continue
        if c % 3 == 2:
            # the index's use: epoch timestamps (large magnitude, microsecond spacing), probes right next to stored values
            base = rng.choice([0.0, 1.7e9, -8.5e9, 8.5e9, 1577836800.0])
            pool = [base + rng.choice([0, 1e-6, 2e-6, 0.5, 1, 60, -1e-6, 3600]) for _ in range(max(1, k // 2 + 1))]
            l = sorted(rng.choice(pool) for _ in range(k))
            x = rng.choice(pool) + rng.choice([0, 0, 1e-6, -1e-6, 0.25, -0.5, 1e-3])
            yield l, x
            continue
        pool = [rng.choice(specials) if rng.random() < 0.3 else rng.uniform(-10, 10) for _ in range(max(1, k // 2 + 1))]
        l = sorted(rng.choice(pool) for _ in range(k))
        x = rng.choice(pool + [rng.uniform(-11, 11)])
        yield l, x


def ranks(l, x):
    """Order-isomorphic integer image of (l, x): comparisons are all the helpers can see."""
    vs = sorted(set(l) | {x})          # -0.0 == 0.0 collapse, as Python's == and < see them
    rk = {}
    for i, v in enumerate(vs):
        rk[v] = 2 * i
    return [rk[a] for a in l], rk[x]


def coq_res(r):
    if r[0] == "raise":
        return "Raise"
    if r[0] == "ret":
        return "Ret None" if r[1] is None else f"Ret (Some {coq_Z(r[1])})"
    return "Raise"  # a non-int result can never equal a model result; flagged separately


def model_cases_file(path, module, cases):
    """cases: list of (fn, list_of_int, probe_int, impl_result).  The file evaluates the model
    and prints the indices on which it differs from the implementation."""
    lines = [f"From Coq Require Import List ZArith Bool.\nFrom TF Require Import Bisect {module}.\nImport ListNotations.\n",
             "Definition res_eqb (a b : res) : bool := match a, b with\n"
             "  | Raise, Raise => true | Ret None, Ret None => true\n"
             "  | Ret (Some x), Ret (Some y) => Z.eqb x y | _, _ => false end.\n",
             "Definition run (f : nat) (l : list Z) (x : Z) : res := match f with\n"
             "  | 0 => find_eq Z.ltb Z.eqb l x | 1 => find_lt Z.ltb l x | 2 => find_le Z.ltb l x\n"
             "  | 3 => find_gt Z.ltb l x | _ => find_ge Z.ltb l x end.\n",
             "Fixpoint mism (i : nat) (cs : list (nat * list Z * Z * res)) : list nat := match cs with\n"
             "  | [] => [] | (f, l, x, r) :: t => if res_eqb (run f l x) r then mism (S i) t else i :: mism (S i) t end.\n",
             "Definition cases : list (nat * list Z * Z * res) := ["]
    body = []
    for fn, l, x, r in cases:
        body.append(f"({FUNCS.index(fn)}, [{'; '.join(coq_Z(a) for a in l)}], {coq_Z(x)}, {coq_res(r)})")
    lines.append(";\n".join(body))
    lines.append("]%nat.\nEval vm_compute in (length cases, mism 0 cases).\n")
    path.write_text("\n".join(lines))


def main(tier, seed):
    ck = Check("C18", tier, seed)
    rng = random.Random(seed)
    use_impl()
    import tinyflux.utils as utils

    # 1. translate the current source, build the proofs about the translation
    state = {}

    def pre():
        rc, out = sh([PY, str(VERIF / "harness" / "py2coq.py"), str(REPO / "tinyflux" / "utils.py"),
                      str(ck.work / "UtilsGen.v")])
        state["translator_rc"], state["translator_out"] = rc, out
        if rc == 0:
            write_if_changed(COQ / "gen" / "UtilsGen.v", (ck.work / "UtilsGen.v").read_text())

    b = ck.build_proofs("Prop_C18", pre=pre)
    translated = state["translator_rc"] == 0
    proof_ok = translated and b["ok"]

    # 2. the property's own scope, on the implementation against the documented meaning
    cases, direct_bad = [], []
    n_exh = 0
    for l, x in exhaustive_scope():
        n_exh += 1
        for fn in FUNCS:
            r = run_impl(utils, fn, l, x)
            cases.append((fn, list(l), x, r))
            if r != ("ret", oracle(fn, l, x)):
                direct_bad.append((fn, list(l), x, r, oracle(fn, l, x)))
    # 2b. the answer depends on the CONTENTS of the list alone: one list object refilled in place between calls (same length, other
    # contents), and short-lived lists whose storage the interpreter hands out again
    buf, n_reused = [], 0
    for l, x in exhaustive_scope():
        if len(l) < 2 or (tier == "quick" and n_reused >= 60000):
            continue
        buf[:] = l
        for fn in FUNCS:
            try:
                got = ("ret", getattr(utils, fn)(buf, x))
            except Exception as e:  # noqa
                got = ("raise", type(e).__name__)
            n_reused += 1
            if got != ("ret", oracle(fn, l, x)):
                direct_bad.append((fn, list(l), x, got, oracle(fn, l, x)))
        for fn in FUNCS:
            try:
                got = ("ret", getattr(utils, fn)(list(l), x))       # a temporary list, freed right after the call
            except Exception as e:  # noqa
                got = ("raise", type(e).__name__)
            if got != ("ret", oracle(fn, l, x)):
                direct_bad.append((fn, list(l), x, got, oracle(fn, l, x)))
    n_rand = 300 if tier == "quick" else 5000
    float_samples = []
    for l, x in random_scope(rng, n_rand):
        rl, rx = ranks(l, x)
        for fn in FUNCS:
            r = run_impl(utils, fn, l, x)
            cases.append((fn, rl, rx, r))
            if r != ("ret", oracle(fn, l, x)):
                direct_bad.append((fn, l, x, r, oracle(fn, l, x)))
        if len(float_samples) < 2:
            float_samples.append({"list": [repr(a) for a in l], "probe": repr(x)})

    # 3. tie: the model (generated, or the committed snapshot when the translation/proof is unavailable)
    module = "gen.UtilsGen"
    if not proof_ok:
        # fall back to the committed hand model = last verified translation, proofs in proofs/UtilsHandP.v
        module = "UtilsHand"
        with BuildLock():
            okh, logh = coq_make(["Prop_C18_hand.vo"])
        if not okh:
            ck.notes.append("hand-model build failed: " + logh[-400:])
    shard = 6000
    files = []
    for i in range(0, len(cases), shard):
        f = ck.work / f"cases_c18_{i // shard}.v"
        model_cases_file(f, module, cases[i:i + shard])
        files.append((f, i))
    outs = ck.run_case_files([f for f, _ in files])
    mismatches, evaluated = [], 0
    for f, base in files:
        rc, out = outs[f]
        nums = parse_nat_list(out) if rc == 0 else None
        if nums is None:
            ck.notes.append(f"model evaluation failed for {f.name}: {out[-300:]}")
            mismatches.append(("model-eval-failed", f.name))
            continue
        evaluated += nums[0]
        mismatches += [cases[base + k] for k in nums[1:]]

    # 4. decide
    if direct_bad:
        fn, l, x, got, exp = direct_bad[0]
        ck.violation({"kind": "failing-input", "function": fn, "list": [repr(a) for a in l], "probe": repr(x),
                      "implementation_returned": got, "documented_meaning": exp,
                      "how_to_replay": f"PYTHONPATH=<repo> python -c \"from tinyflux.utils import {fn}; print({fn}({list(l)!r}, {x!r}))\"",
                      "failing_inputs_total": len(direct_bad),
                      "proof_over_translation": "ok" if proof_ok else "broken",
                      "translator": state["translator_out"].strip()})
    elif mismatches:
        ck.violation({"kind": "correspondence-broken", "what_no_longer_checks":
                      f"correspondence utils.find_* vs Coq model {module} (theorems C18_* are about that model)",
                      "first_disagreements": [str(m) for m in mismatches[:5]]}, no_input=True)
    elif not proof_ok:
        # harmless rewrite: translation refused or its proof broke, but the implementation agrees with the
        # verified hand model on the whole scope and with the documented meaning: property still shown.
        ck.notes.append("proof over fresh translation unavailable; property shown via hand model + exhaustive correspondence")
        if not (COQ / "Prop_C18_hand.vo").exists():
            ck.violation({"kind": "proof-broken", "what_no_longer_checks": "Prop_C18.v over gen/UtilsGen.v and the hand-model fallback",
                          "log": b["log"][-1500:], "translator": state["translator_out"]}, no_input=True)

    ck.cov = {
        "obligations": b["obligations"], "discharged": b["discharged"],
        "checker_cmd": "make -C /verif/coq Prop_C18.vo (coqc, full .vo) after regenerating coq/gen/UtilsGen.v from tinyflux/utils.py; Print Assumptions re-run per theorem",
        "trusted_base": TRUSTED_BASE_COMMON + [
            "harness/py2coq.py (translator utils.py -> gen/UtilsGen.v) and Python's ast module",
            "Bisect.v: hand model of CPython's bisect_left/bisect_right loop (stdlib code, modelled not verified)",
            "Print Assumptions: " + json.dumps(b["assumptions"]),
        ],
        "theorems": b["theorems"], "cone": b["cone"], "forbidden_tokens_found": b["forbidden"],
        "translated_this_run": translated, "proof_over_translation_ok": proof_ok, "model_used_for_tie": module,
        "translator_output": state["translator_out"].strip(),
        "evaluations": len(cases), "model_evaluations": evaluated,
        "distinct_nontrivial": len({(fn, tuple(l), x) for fn, l, x, r in cases if len(l) >= 2}),
        "rule": "exhaustive: every sorted list of length 0-7 over a 5-value domain x 11 probes (inside, between, outside) x 5 helpers; "
                "plus random float lists with duplicates/-0.0/inf mapped to ranks for the model; non-trivial = list length >= 2; "
                "each case compared implementation = documented meaning (linear-scan oracle) and implementation = Coq model",
        "exhaustive": True, "exhaustive_lists_x_probes": n_exh, "calls_on_one_refilled_list_object": n_reused, "random_float_cases": n_rand,
        "traces_validated_against_impl": evaluated,
        "samples": [{"function": c[0], "list": c[1], "probe": c[2], "implementation": c[3]} for c in cases[40000:40003]] + float_samples,
        "notes": ck.notes,
    }
    return ck.finish(level="proof", extra_assumptions=[
        "element comparison is a strict weak order (no NaN in the list or probe)",
        "bisect module behaves as Lib/bisect.py's loop (modelled in Bisect.v)"])
