"""c15_optimized.py: run with `python -O` (asserts stripped) against the tree on PYTHONPATH: a write attempted on a database opened
read-only must raise and leave the file byte-for-byte unchanged (and a read on an append-only database must raise) - the access-mode gates
are part of the library's behaviour, whatever the interpreter's optimisation level.  argv[1]: a scratch directory.
Prints a JSON list of findings."""
import json
import os
import sys
import tempfile
from datetime import datetime, timedelta, timezone

import tinyflux as tf

T0 = datetime(2020, 1, 1, tzinfo=timezone.utc)
work = sys.argv[1]
tmpd = os.path.join(work, "tmp")
os.makedirs(tmpd, exist_ok=True)
tempfile.tempdir = tmpd
bad = []


def listing(d):
    return sorted(os.listdir(d))


def fresh(name):
    d = os.path.join(work, name)
    os.makedirs(d, exist_ok=True)
    path = os.path.join(d, "db.csv")
    db = tf.TinyFlux(path)
    for i in range(6):
        db.insert(tf.Point(time=T0 + timedelta(seconds=i), measurement="m1" if i % 2 else "m2", tags={"a": "x" if i < 3 else "y"}, fields={"n": float(i)}))
    db.close()
    return d, path


q = tf.TagQuery().a == "x"
WRITES = [
    ("insert", lambda db: db.insert(tf.Point(time=T0 + timedelta(seconds=9), tags={"a": "z"}))),
    ("insert_multiple", lambda db: db.insert_multiple([tf.Point(time=T0 + timedelta(seconds=9)), tf.Point(time=T0 + timedelta(seconds=10))])),
    ("remove", lambda db: db.remove(q)),
    ("remove (time query)", lambda db: db.remove(tf.TimeQuery() >= T0 + timedelta(seconds=4))),
    ("remove_all", lambda db: db.remove_all()),
    ("update", lambda db: db.update(q, tags={"z": "1"})),
    ("update_all", lambda db: db.update_all(fields={"n": 7.0})),
    ("drop_measurement", lambda db: db.drop_measurement("m1")),
    ("measurement.remove", lambda db: db.measurement("m1").remove(q)),
    ("measurement.remove_all", lambda db: db.measurement("m2").remove_all()),
    ("measurement.update", lambda db: db.measurement("m1").update(q, fields={"n": 1.5})),
    ("measurement.update_all", lambda db: db.measurement("m2").update_all(tags={"z": "1"})),
    ("measurement.insert", lambda db: db.measurement("m1").insert(tf.Point(time=T0 + timedelta(seconds=11)))),
]
READS = [
    ("all", lambda db: db.all()), ("len", lambda db: len(db)), ("count", lambda db: db.count(q)), ("search", lambda db: db.search(q)),
    ("get_tag_keys", lambda db: db.get_tag_keys()), ("reindex", lambda db: db.reindex()), ("iter", lambda db: list(db)),
    ("measurement.all", lambda db: db.measurement("m1").all()), ("measurement.len", lambda db: len(db.measurement("m1"))),
]
n = 0
for auto in (True, False):
    for mode, ops in (("r", WRITES), ("a", READS + [w for w in WRITES if "insert" not in w[0]])):
        for name, fn in ops:
            d, path = fresh(f"{mode}_{auto}_{n}")
            n += 1
            before = open(path, "rb").read()
            files = (listing(d), listing(tmpd))
            db = out = None
            try:
                db = tf.TinyFlux(path, access_mode=mode, auto_index=auto)       # (append-only with auto_index: opening itself reads, and raises)
                out = fn(db)
                raised = None
            except Exception as e:  # noqa
                raised = type(e).__name__
            try:
                db.close()
            except Exception:  # noqa
                pass
            after = open(path, "rb").read()
            files2 = (listing(d), listing(tmpd))
            if raised is None or after != before or files2 != files:
                bad.append({"optimisation": sys.flags.optimize, "access_mode": mode, "auto_index": auto, "operation": name, "raised": raised, "returned": repr(out)[:80],
                            "file_unchanged": after == before, "files_before": files, "files_after": files2})
print(json.dumps(bad))
