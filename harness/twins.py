"""Python side of the twin table (coq/Twins.v holds the Gallina side).

Every callable the harness hands to tinyflux comes from here, by index; the model is run
under the environment twinE/twinC whose functions are the Gallina twins.  check_twins()
cross-checks the two tables on a value universe through coqc on every run."""
import operator as _operator
import re
from datetime import timedelta, timezone


def _boom(*a):
    raise RuntimeError("boom")


PATTERNS = ["a", "^ab", "b+", r"\S+", r"\s+", "(?i)ab"]      # (\S+ / \s+) differ only in the CASE of an escape letter and mean opposite things
FLAGS = [0, int(re.IGNORECASE)]

MAPS = [
    lambda x: x,
    lambda s: s[0] if isinstance(s, str) else _boom(),
    lambda x: -x,
    lambda d: "many" if len(d) >= 2 else "few",
    lambda t: t + timedelta(seconds=10),
    lambda x: None,
    lambda d: d if len(d) >= 2 else {},
]
# guard the str-only / number-only twins exactly as the Gallina side is total on other types
_m2 = MAPS[2]
MAPS[2] = lambda x: _m2(x) if isinstance(x, (int, float)) and not isinstance(x, bool) else _boom()
_m3 = MAPS[3]
MAPS[3] = lambda d: _m3(d) if isinstance(d, (str, dict)) else _boom()
_m4 = MAPS[4]
MAPS[4] = lambda t: _m4(t) if hasattr(t, "tzinfo") else _boom()
_m6 = MAPS[6]
MAPS[6] = lambda d: _m6(d) if isinstance(d, dict) else _boom()


def _num(x):
    return isinstance(x, (int, float)) and not isinstance(x, bool)


def _t1(x):
    if not _num(x):
        raise TypeError("not a number")
    return x > 0


def _t2(x, a, b):
    if not _num(x):
        raise TypeError("not a number")
    return a <= x <= b


def _t3(x):
    if not isinstance(x, (str, dict)):
        raise TypeError("no len")
    return len(x) > 1


class _Range:
    """two instances of one class: their bound methods share code, defaults and closure but not __self__"""
    def __init__(self, lo, hi):
        self.lo, self.hi = lo, hi

    def contains(self, x):
        if not _num(x):
            raise TypeError("not a number")
        return self.lo <= x <= self.hi


# (function, args)
TESTS = [
    (lambda x: x == 1, ()),
    (_t1, ()),
    (_t2, (1, 5)),
    (_t3, ()),
    (lambda x: True, ()),
    (_Range(0, 1).contains, ()),
    (_Range(5, 9).contains, ()),
    (_operator.ge, (2,)),          # a comparison FUNCTION of the operator module handed to test(): value >= 2, raising for what has no order with 2
    (_operator.ne, (1,)),          # value != 1: total
]


# update callables ---------------------------------------------------------------------
def _ct4(t):
    if t.second % 3 == 2:
        raise RuntimeError("boom")
    return t + timedelta(hours=1)


C_TIME = [
    lambda t: t + timedelta(hours=1),
    lambda t: "notatime",
    _boom,
    lambda t: t,
    _ct4,
    lambda t: (t + timedelta(hours=1)).astimezone(timezone(timedelta(hours=5))),
]


def _cm3(m):
    if m == "m1":
        raise RuntimeError("boom")
    return m + "y"


C_MEAS = [
    lambda m: m + "x",
    lambda m: 5,
    lambda m: m,
    _cm3,
]


def _ctg6(d):
    d["k"] = "new"          # edits the mapping it was handed and returns that very object
    return d


def _cf6(d):
    d["a"] = 10
    return d


def _ctg3(d):
    if "bad" in d:
        raise RuntimeError("boom")
    return {"k": "new"}


C_TAGS = [
    lambda d: {"k": "new"},
    lambda d: {"k": 1},
    lambda d: {},
    _ctg3,
    lambda d: dict(d),
    lambda d: {"n": None},
    _ctg6,
]


def _cf3(d):
    if d.get("a") == 2:
        raise RuntimeError("boom")
    return {"a": 10}


C_FIELDS = [
    lambda d: {"a": 10},
    lambda d: {"a": "str"},
    lambda d: {},
    _cf3,
    lambda d: {"b": None},
    lambda d: {"a": True},
    _cf6,
]
