"""Database-level correspondence: run histories on the implementation, evaluate the Coq model
(DB.v under the twin environment) on the same histories with vm_compute, find the first
diverging step of every history and attribute it to a property."""
import json
import os
import random
from collections import Counter

from common import *  # noqa
import dbgen
import dbimpl
import dbmodel as M
import pyspec

CONFIGS = [(False, True), (False, False), (True, True), (True, False)]     # (csv, auto_index)
WRITE_KINDS = {"insert", "remove", "drop", "remove_all", "update", "update_all", "reindex", "reopen"}
GETTERS = {"get_measurements", "get_tag_keys", "get_tag_values", "get_field_keys", "get_field_values",
           "get_timestamps", "len", "iter", "all"}


def op_kind(o):
    return ("handle:" + o[2][0]) if o[0] == "handle" else o[0]


def attribute(ops, outs, k):
    """property a first divergence at step k is attributed to (DESIGN section 5)"""
    o = ops[k]
    kind = o[0]
    # the last state-changing op at or before k, and whether some op before k raised
    prev_write = None
    for j in range(k, -1, -1):
        kj = ops[j][0] if ops[j][0] != "handle" else ops[j][2][0]
        if kj in WRITE_KINDS or kj in ("insert",):
            prev_write = (j, ops[j])
            break
    if kind == "handle":
        return "C10"
    if kind in ("index_valid",):
        if prev_write and outs[prev_write[0]][0] == "raise":
            return "C11"
        return "C06"
    observing = kind in ("iter",) and prev_write is not None and prev_write[0] < k
    if observing or kind in WRITE_KINDS:
        w = prev_write[1] if observing else o
        wk = w[0] if w[0] != "handle" else w[2][0]
        wj = prev_write[0] if observing else k
        if outs[wj][0] == "raise":
            return "C11"
        if wk in ("remove", "drop", "remove_all"):
            return "C02"
        if wk in ("update", "update_all"):
            return "C03"
        if wk == "insert":
            return "C11" if any(p is None for p in w[1]) else "C01"
        if wk in ("reindex", "reopen"):
            return "C06"
    if kind in GETTERS:
        return "C07"
    if kind in ("search", "count", "contains", "get", "select"):
        return "C01"
    return "C01"


def in_known_class(csv, ops, k):
    """is step k inside the guard class of a recorded known finding (DESIGN 2.5)?  None at present:
    F21/F24 were repaired in /repo (queries with map() go to the scan), so nothing is excused."""
    return None


def emit_cases(path, cases):
    """cases: list of (csv, auto, ops, outs)"""
    lines = ["From Coq Require Import List ZArith NArith Bool.",
             "From TF Require Import Base Query Index DB Codec Twins Run.",
             "Import ListNotations.", "Local Open Scope nat_scope.", ""]
    names = []
    for i, (csv, auto, ops, outs) in enumerate(cases):
        lines.append(f"Definition c{i} : case := ({M.cbool(csv)}, {M.cbool(auto)},\n  [" +
                     ";\n   ".join(M.cop(o) for o in ops) + "],\n  [" +
                     ";\n   ".join(M.cout(x) for x in outs) + "]).")
        names.append(f"c{i}")
    lines.append(f"Eval vm_compute in diverging 0 [{'; '.join(names)}].")
    path.write_text("\n".join(lines) + "\n")


def model_outputs(ck, case, upto):
    """raw Coq text of the model's outputs for one case (for replay files)"""
    f = ck.work / f"single_{abs(hash(json.dumps(case, default=str))) % 10**8}.v"
    csv, auto, ops, outs = case
    f.write_text("From Coq Require Import List ZArith NArith Bool.\nFrom TF Require Import Base Query Index DB Codec Twins Run.\n"
                 "Import ListNotations.\nLocal Open Scope nat_scope.\n"
                 f"Eval vm_compute in nth_error (model_run {M.cbool(csv)} {M.cbool(auto)} [" +
                 ";\n ".join(M.cop(o) for o in ops[:upto + 1]) + f"]) {upto}.\n")
    rc, out = coqc_file(f, timeout=300)
    if os.environ.get("VERIF_DEBUG_DIFF"):
        g = ck.work / "single_expected.v"
        g.write_text("From Coq Require Import List ZArith NArith Bool.\nFrom TF Require Import Base Query Index DB Codec Twins Run.\n"
                     "Import ListNotations.\nLocal Open Scope nat_scope.\n"
                     f"Eval vm_compute in Some {M.cout(outs[upto])}.\n")
        rc2, out2 = coqc_file(g, timeout=300)
        import difflib
        d = list(difflib.unified_diff(out2.splitlines(), out.splitlines(), "implementation", "model", lineterm="", n=2))
        return "\n".join(d[:60])
    return out.strip()[-3000:]


def shrink(tf, ck, case, k, still_diverges):
    """delta-debug the op list of a diverging case (drop ops while a divergence remains)"""
    csv, auto, ops, outs = case
    ops = list(ops[:k + 1])
    i = 0
    budget = 40
    while i < len(ops) - 1 and budget > 0:
        trial = ops[:i] + ops[i + 1:]
        budget -= 1
        r = still_diverges(trial)
        if r is not None:
            ops = trial[:r + 1]
        else:
            i += 1
    return ops


def run_tie(ck, tf, n_hist, profile, configs=CONFIGS, corpus=()):
    """returns dict(divergences=[...], stats=...)"""
    gen_seed = ck.seed
    cases, meta = [], []
    kinds, qshapes, errs, sizes, paths = Counter(), Counter(), Counter(), Counter(), Counter()
    idx = 0
    for ops_c in corpus:
        cases.append((ops_c["csv"], ops_c["auto"], ops_c["ops"], None))
        meta.append(("corpus", ops_c.get("name")))
    for h in range(n_hist):
        csv, auto = configs[h % len(configs)]
        g = dbgen.Gen((gen_seed << 20) + h, profile)
        ops = g.history(csv)
        cases.append((csv, auto, ops, None))
        meta.append(("gen", h))
    done = []
    for ci, (csv, auto, ops, _) in enumerate(cases):
        outs = dbimpl.run_history(tf, csv, auto, ops, str(ck.work / f"h{ci}"))
        done.append((csv, auto, ops, outs))
        for o, x in zip(ops, outs):
            kinds[op_kind(o)] += 1
            if x[0] == "raise":
                errs[x[1]] += 1
        sizes[max((len(x[1]) for o, x in zip(ops, outs) if o[0] == "iter" and x[0] == "points"), default=0)] += 1
    cases = done
    # shard and evaluate the model
    shard = 40
    files = []
    for i in range(0, len(cases), shard):
        f = ck.work / f"cases_db_{i // shard}.v"
        emit_cases(f, cases[i:i + shard])
        files.append((f, i))
    outs = ck.run_case_files([f for f, _ in files], timeout=1200)
    divergences, failed_files = [], []
    for f, base in files:
        rc, out = outs[f]
        nums = parse_nat_list(out) if rc == 0 else None
        if nums is None:
            failed_files.append((f.name, out[-600:]))
            continue
        for j in range(0, len(nums), 2):
            divergences.append((base + nums[j], nums[j + 1]))
    return dict(cases=cases, meta=meta, divergences=divergences, failed_files=failed_files,
                stats=dict(op_kinds=dict(kinds), error_kinds=dict(errs), db_sizes=dict(sizes)))


def direct_oracle(cases):
    """the documented meaning (pyspec) against the implementation's outputs, step by step, on every history;
    where the spec is silent (a user callable raised, invalid arguments) the walk resynchronises on the next
    iteration output.  -> list of (case index, step, spec output), steps checked"""
    bad, checked = [], 0
    for ci, (csv, auto, ops, outs) in enumerate(cases):
        db = []
        for k, (o, x) in enumerate(zip(ops, outs)):
            if db is None:
                if o[0] == "iter" and x[0] == "points":
                    db = [dict(p) for p in x[1]]
                continue
            if o[0] == "index_valid":
                continue
            try:
                db2, want = pyspec.step(db, o)
            except pyspec.Undefined:
                db = None
                continue
            except Exception:
                db = None
                continue
            checked += 1
            if not pyspec.same(want, x):
                bad.append((ci, k, want))
                break
            db = db2
    return bad, checked


def nontrivial(case):
    """history contains a write and a query read whose answer is neither empty nor everything"""
    csv, auto, ops, outs = case
    size = 0
    ok_w = ok_r = False
    for o, x in zip(ops, outs):
        if o[0] == "iter" and x[0] == "points":
            size = len(x[1])
        if o[0] in WRITE_KINDS or (o[0] == "handle" and o[2][0] in WRITE_KINDS):
            ok_w = True
        if o[0] in ("search", "count") and x[0] in ("points", "nat"):
            n = len(x[1]) if x[0] == "points" else x[1]
            if 0 < n < size:
                ok_r = True
    return ok_w and ok_r


def db_check(pid, tier, seed, profile, n_quick, n_thorough, prop_module, claims_note, extra_cov=None, direct=None):
    """generic driver for the properties decided on the database-level model"""
    ck = Check(pid, tier, seed)
    tf = use_impl()
    b = ck.build_proofs(prop_module, extra_targets=["Run.vo"])
    n = n_quick if tier == "quick" else n_thorough
    corpus = load_corpus(pid)
    res = run_tie(ck, tf, n, profile, corpus=corpus)
    cases = res["cases"]
    mine, elsewhere, known_hits = [], Counter(), Counter()
    for ci, k in res["divergences"]:
        csv, auto, ops, outs = cases[ci]
        a = attribute(ops, outs, k)
        kc = in_known_class(csv, ops, k)
        if kc:
            known_hits[kc] += 1
            continue
        if a == pid:
            mine.append((ci, k))
        else:
            elsewhere[a] += 1
    for name, tail in res["failed_files"]:
        ck.violation({"kind": "model-evaluation-failed", "what_no_longer_checks": f"coqc on generated {name}", "log": tail}, no_input=True)
    if not b["ok"]:
        ck.violation({"kind": "proof-broken", "what_no_longer_checks": f"{prop_module}.v (theorems {b['theorems']})",
                      "log": b["log"][-2000:], "forbidden": b["forbidden"]}, no_input=True)
    reported = 0
    spec_bad, spec_checked = direct_oracle(cases)
    spec_mine = [(ci, k, want) for ci, k, want in spec_bad if attribute(cases[ci][2], cases[ci][3], k) == pid]
    for ci, k, want in spec_mine[:2]:
        csv, auto, ops, outs = cases[ci]
        if (ci, k) in mine:
            continue
        ck.violation({"kind": "failing-input", "config": {"csv": csv, "auto_index": auto, "TZ": os.environ.get("TZ", "UTC")},
                      "ops": ops[:k + 1], "first_differing_step": k, "implementation_output": outs[k], "spec_output": want,
                      "attributed_to": pid, "origin": res["meta"][ci],
                      "why": "the implementation's answer differs from the documented meaning (harness/pyspec.py) although it agrees with the Coq model"})
    for ci, k in mine[:3]:
        csv, auto, ops, outs = cases[ci]
        ops = ops[:k + 1]
        spec = pyspec.expected(csv, ops, tf)
        impl_out = outs[k]
        genuine = spec is not None and not pyspec.same(spec, impl_out)
        replay = {"kind": "failing-input" if genuine else "correspondence-broken",
                  "config": {"csv": csv, "auto_index": auto, "TZ": os.environ.get("TZ", "UTC")},
                  "ops": ops, "first_differing_step": k, "implementation_output": impl_out,
                  "spec_output": spec, "model_output_coq": model_outputs(ck, (csv, auto, ops, outs), k),
                  "attributed_to": pid, "origin": res["meta"][ci],
                  "what_no_longer_checks": None if genuine else f"correspondence DB.v step vs implementation at op kind {op_kind(ops[k])}"}
        ck.violation(replay, no_input=not genuine)
        reported += 1
    if direct:
        direct(ck, tf)
    # known findings of this property: replay their witnesses on the implementation
    import subprocess
    for f in load_known_findings():
        if f.get("status") == "known" and pid in f.get("properties", []) and f.get("repro"):
            rc, out = sh([PY, str(VERIF / "findings" / "repro.py"), f["repro"]], env=impl_env(), timeout=120)
            if "DEFECT" in out:
                ck.known_finding(f"{f['id']}: {f['what']}")
    cov = {
        "obligations": b["obligations"], "discharged": b["discharged"],
        "checker_cmd": f"make -C /verif/coq {prop_module}.vo Run.vo (coqc, full .vo); Print Assumptions re-run per theorem; model evaluated by coqc/vm_compute on generated cases",
        "trusted_base": TRUSTED_BASE_COMMON + [
            "hand-written model coq/{Base,Query,Index,DB,Codec,Twins,Run}.v tied to /repo by correspondence at the public API (not verified code)",
            "twin table harness/twins.py <-> coq/Twins.v for user callables and regular expressions",
            "Print Assumptions: " + json.dumps(b["assumptions"]),
        ],
        "theorems": b["theorems"], "forbidden_tokens_found": b["forbidden"],
        "evaluations": len(cases), "steps_compared": sum(len(c[2]) for c in cases),
        "distinct_nontrivial": len({json.dumps(c[2], default=str) for c in cases if nontrivial(c)}),
        "rule": "histories generated from VERIF_SEED over {memory,csv} x {auto_index on,off}; every step's output compared implementation vs Coq model; "
                "non-trivial = the history contains a write and a search/count whose answer is neither empty nor everything; distinct by op list",
        "traces_validated_against_impl": len(cases) - len({ci for ci, _ in res["divergences"]}),
        "divergences_attributed_here": len(mine), "diverged_elsewhere": dict(elsewhere),
        "steps_compared_with_documented_meaning": spec_checked, "documented_meaning_mismatches": len(spec_bad),
        "inside_known_finding_class": dict(known_hits),
        "distribution": res["stats"],
        "samples": [{"config": {"csv": c[0], "auto_index": c[1]}, "ops": c[2][:6], "outputs": c[3][:6]} for c in cases[:2]],
    }
    if extra_cov:
        cov.update(extra_cov)
    ck.cov = cov
    return ck.finish(level="proof", extra_assumptions=[claims_note])


def load_corpus(pid):
    out = []
    d = VERIF / "corpus"
    for p in sorted(d.glob(f"{pid}-*.json")) + sorted(d.glob("ALL-*.json")):
        try:
            c = json.loads(p.read_text())
            c["name"] = p.name
            out.append(c)
        except Exception:
            pass
    return out


