"""Database-level correspondence: run histories on the implementation, evaluate the Coq model
(DB.v under the twin environment) on the same histories with vm_compute, find the first
diverging step of every history and attribute it to a property."""
import json
import os
import random
from collections import Counter

from common import *  # noqa
import dbgen
import dbimpl
import dbmodel as M
import pyspec

CONFIGS = [(False, True), (False, False), (True, True), (True, False)]     # (csv, auto_index)
WRITE_KINDS = {"insert", "remove", "drop", "remove_all", "update", "update_all", "reindex", "reopen"}
GETTERS = {"get_measurements", "get_tag_keys", "get_tag_values", "get_field_keys", "get_field_values",
           "get_timestamps", "len", "iter", "all"}


def op_kind(o):
    return ("handle:" + o[2][0]) if o[0] == "handle" else o[0]


QUERY_READS = {"search", "count", "contains", "get", "select"}
REMOVALS = {"remove", "drop", "remove_all"}
UPDATES = {"update", "update_all"}


def _kind(o):
    """(kind, through a handle?)"""
    return (o[2][0], True) if o[0] == "handle" else (o[0], False)


def scopes(csv, auto, ops, outs, k):
    """the properties in whose scope a divergence at step k lies (DESIGN section 5).  Only the first divergence of a
    history is used (afterwards model and implementation may be in different states); it is attributed to EVERY
    property whose statement speaks about that step, so one defect can be reported by several checks."""
    kind, via_handle = _kind(ops[k])
    sc = set()
    # the last state-changing operation at or before k
    prev = None
    for j in range(k, -1, -1):
        kj, hj = _kind(ops[j])
        if kj in WRITE_KINDS:
            prev = (j, kj, hj)
            break
    if kind == "file":
        sc.add("C04")
    if csv and kind in ("reopen", "all", "iter") and prev is not None:
        sc.add("C04")
    if kind in QUERY_READS:
        sc.add("C01")
    if kind in GETTERS:
        sc.add("C07")
    if via_handle:
        sc.add("C10")
    if prev is not None:
        j, kj, hj = prev
        if kj in REMOVALS:
            sc.add("C02")
        if kj in UPDATES:
            sc.add("C03")
        if hj:
            sc.add("C10")
        if outs[j][0] == "raise":
            sc.add("C11")
    # C11 also speaks about everything that follows a call that raised ("subsequent operations behave normally")
    if any(outs[j][0] == "raise" and (_kind(ops[j])[0] in WRITE_KINDS) for j in range(k)):
        sc.add("C11")
        if kj == "insert" and kind in ("insert", "iter", "all", "len"):
            sc.add("C01")                       # what was inserted is what is stored
        if kj in ("reindex", "reopen"):
            sc.add("C06")
    # C06: the validity flag itself, and every answer given while the index is (or must be) valid
    if kind == "index_valid":
        sc.add("C06")
    elif kind in QUERY_READS or kind in GETTERS:
        last_valid = None
        for j in range(k - 1, -1, -1):
            if ops[j][0] == "index_valid" and outs[j][0] == "bool":
                last_valid = outs[j][1]
                break
            if _kind(ops[j])[0] in WRITE_KINDS:
                break
        if auto or last_valid:
            sc.add("C06")
    return sc or {"C01"}


def attribute(ops, outs, k):
    """kept for reports: the single most specific property of a step"""
    return sorted(scopes(False, True, ops, outs, k))[0]


def in_known_class(csv, ops, k):
    """is step k inside the guard class of a recorded known finding (DESIGN 2.5)?  None at present:
    F21/F24 were repaired in /repo (queries with map() go to the scan), so nothing is excused."""
    return None


def emit_cases(path, cases):
    """cases: list of (csv, auto, ops, outs)"""
    lines = ["From Coq Require Import List ZArith NArith Bool.",
             "From TF Require Import Base Query Index DB Codec Twins Run.",
             "Import ListNotations.", "Local Open Scope nat_scope.", ""]
    names = []
    for i, (csv, auto, ops, outs) in enumerate(cases):
        lines.append(f"Definition c{i} : case := ({M.cbool(csv)}, {M.cbool(auto)},\n  [" +
                     ";\n   ".join(M.cop(o) for o in ops) + "],\n  [" +
                     ";\n   ".join(M.cout(x) for x in outs) + "]).")
        names.append(f"c{i}")
    lines.append(f"Eval vm_compute in diverging 0 [{'; '.join(names)}].")
    path.write_text("\n".join(lines) + "\n")


def model_outputs(ck, case, upto):
    """raw Coq text of the model's outputs for one case (for replay files)"""
    f = ck.work / f"single_{abs(hash(json.dumps(case, default=str))) % 10**8}.v"
    csv, auto, ops, outs = case
    f.write_text("From Coq Require Import List ZArith NArith Bool.\nFrom TF Require Import Base Query Index DB Codec Twins Run.\n"
                 "Import ListNotations.\nLocal Open Scope nat_scope.\n"
                 f"Eval vm_compute in nth_error (model_run {M.cbool(csv)} {M.cbool(auto)} [" +
                 ";\n ".join(M.cop(o) for o in ops[:upto + 1]) + f"]) {upto}.\n")
    rc, out = coqc_file(f, timeout=300)
    if os.environ.get("VERIF_DEBUG_DIFF"):
        g = ck.work / "single_expected.v"
        g.write_text("From Coq Require Import List ZArith NArith Bool.\nFrom TF Require Import Base Query Index DB Codec Twins Run.\n"
                     "Import ListNotations.\nLocal Open Scope nat_scope.\n"
                     f"Eval vm_compute in Some {M.cout(outs[upto])}.\n")
        rc2, out2 = coqc_file(g, timeout=300)
        import difflib
        d = list(difflib.unified_diff(out2.splitlines(), out.splitlines(), "implementation", "model", lineterm="", n=2))
        return "\n".join(d[:60])
    return out.strip()[-3000:]


def shrink(tf, ck, case, k, still_diverges):
    """delta-debug the op list of a diverging case (drop ops while a divergence remains)"""
    csv, auto, ops, outs = case
    ops = list(ops[:k + 1])
    i = 0
    budget = 40
    while i < len(ops) - 1 and budget > 0:
        trial = ops[:i] + ops[i + 1:]
        budget -= 1
        r = still_diverges(trial)
        if r is not None:
            ops = trial[:r + 1]
        else:
            i += 1
    return ops


def sanitize_for(kw, x):
    """F32 (known finding): with the csv option lineterminator = one line-break character, strings containing the OTHER one do not survive
    (a property of the stdlib csv module); the generated histories replace that character for such a configuration"""
    lt = (kw or {}).get("lineterminator")
    enc = (kw or {}).get("encoding")
    narrow = enc in ("latin-1", "ascii")
    if lt not in ("\n", "\r") and not narrow:
        return x
    bad, good = ("\r", "r") if lt == "\n" else (("\n", "n") if lt == "\r" else ("", ""))
    limit = 256 if enc == "latin-1" else 128

    def go(v):
        if isinstance(v, str):
            if narrow:
                # a text encoding that cannot express a character makes the write itself fail (UnicodeEncodeError, judged by C11's own
                # battery): the histories of such a configuration stay inside what it can express
                v = "".join(c if ord(c) < limit else "\u00a4" if limit == 256 else "?" for c in v)
            return v.replace(bad, good) if bad else v
        if isinstance(v, tuple):
            return tuple(go(i) for i in v)
        if isinstance(v, list):
            return [go(i) for i in v]
        if isinstance(v, dict):
            return {go(k): go(i) for k, i in v.items()}
        return v
    return go(x)


def default_kwargs_for(h):
    """storage options of generated history h when the check has none of its own: one CSV history in four is opened
    with access mode 'w+' (a fresh file either way; a reopen inside a history always uses the default mode)"""
    if h % 8 in (2, 7):
        return {"access_mode": "w+"}
    if h % 16 == 3:
        return {"delimiter": ";"}                      # csv options belong to every operation, not only to inserts
    if h % 16 == 6:
        return {"delimiter": "|", "quotechar": "'"}
    if h % 32 in (14, 27):
        if h % 64 >= 32:
            return {"flush_on_insert": False}          # what the database answers must not depend on whether a row has left the handle's buffer yet
        return {"encoding": "latin-1"}                 # the text encoding belongs to every file the storage opens, scratch files included
    if h % 32 in (30, 11):
        if h % 64 >= 32:
            return {"flush_on_insert": False, "encoding": "utf-8"}
        return {"encoding": "utf-16"}
    return {}


PROCESS_ZONES = [None, None, None, "America/Los_Angeles", None, None, "Asia/Kathmandu", None, None, None, "EST5", None, "Australia/Lord_Howe", None, None, None]


def tz_for(h):
    """the time zone of the PROCESS while generated history h runs (None = the zone the check runs in, UTC): the database stores instants, so
    no answer may depend on it; the harness hands in and reads back aware datetimes only, the model knows instants only"""
    return PROCESS_ZONES[(h // 4) % len(PROCESS_ZONES)]


class process_zone:
    def __init__(self, tz):
        self.tz = tz

    def __enter__(self):
        import time
        self.old = os.environ.get("TZ")
        if self.tz:
            os.environ["TZ"] = self.tz
            time.tzset()

    def __exit__(self, *a):
        import time
        if self.tz:
            if self.old is None:
                os.environ.pop("TZ", None)
            else:
                os.environ["TZ"] = self.old
            time.tzset()


def run_tie(ck, tf, n_hist, profile, configs=CONFIGS, corpus=(), kwargs_for=None, extra_cases=()):
    """returns dict(divergences=[...], stats=...)"""
    kwargs_for = kwargs_for or default_kwargs_for
    gen_seed = ck.seed
    cases, meta = [], []
    kinds, qshapes, errs, sizes, paths = Counter(), Counter(), Counter(), Counter(), Counter()
    idx = 0
    for ops_c in corpus:
        cases.append((ops_c["csv"], ops_c["auto"], ops_c["ops"], None))
        meta.append(("corpus", ops_c.get("name")))
    # every scenario this check prefers is run ONCE IN EVERY CONFIGURATION, in ADDITION to the random histories (appended after them, so that the random
    # histories - and what they are known to catch - stay what they were): what a check catches through a scenario does not depend on how the
    # scenario list or the random stream happens to be laid out
    upref = list(dict.fromkeys((profile.get("scenario_pref") or []) + (profile.get("scenario_also") or []))) if not profile.get("scenario_force") else []
    # (first the preferred ones, then every other scenario there is: all of them once per configuration; the second pass - CSV with inserts left in
    # the handle's buffer, flush_on_insert=False - for the preferred ones only)
    uall = (upref + [x for x in dbgen.SCENARIOS if x not in upref]) if upref else []
    n_forced, n_pref = len(uall) * len(configs), len(upref) * len(configs)
    kw_override = {}
    for h in range(n_hist + n_forced + n_pref):
        csv, auto = configs[h % len(configs)]
        kw = kwargs_for(h) if kwargs_for else None
        forced = None
        if h >= n_hist + n_forced:
            if not csv:
                continue
            kw = {"flush_on_insert": False}
            kw_override[h] = kw
            forced = upref[((h - n_hist - n_forced) // len(configs)) % len(upref)]
        elif h >= n_hist:
            forced = uall[((h - n_hist) // len(configs)) % len(uall)]
        prof = dict(profile, storage_kwargs=kw) if kw is not None else profile
        if forced:
            prof = dict(prof, scenario_force=forced, p_scenario=1.0)
        g = dbgen.Gen((gen_seed << 20) + h, prof)
        ops = sanitize_for(kw if csv else None, g.history(csv))
        cases.append((csv, auto, ops, None))
        meta.append(("gen", h) if kw is None else ("gen", h, {k: str(v) for k, v in kw.items()}))
        if tz_for(h):
            meta[-1] = meta[-1] + ({"process_TZ": tz_for(h)},) if len(meta[-1]) == 2 else meta[-1][:2] + (dict(meta[-1][2], process_TZ=tz_for(h)),)
    for (csv, auto, ops) in extra_cases:
        cases.append((csv, auto, ops, None))
        meta.append(("enumerated", len(cases)))
    done, kws, tzs = [], [], []
    for ci, (csv, auto, ops, _) in enumerate(cases):
        kw = (kw_override.get(meta[ci][1]) or kwargs_for(meta[ci][1])) if (kwargs_for and meta[ci][0] == "gen") else None
        kws.append(kw if csv else None)
        tz = tz_for(meta[ci][1]) if meta[ci][0] == "gen" else None
        tzs.append(tz)
        with process_zone(tz):
            outs = dbimpl.run_history(tf, csv, auto, ops, str(ck.work / f"h{ci}"), kw)
        done.append((csv, auto, ops, outs))
        for o, x in zip(ops, outs):
            kinds[op_kind(o)] += 1
            if x[0] == "raise":
                errs[x[1]] += 1
        sizes[max((len(x[1]) for o, x in zip(ops, outs) if o[0] in ("iter", "all") and x[0] == "points"), default=0)] += 1
    cases = done
    # shard and evaluate the model
    shard = 40
    files = []
    for i in range(0, len(cases), shard):
        f = ck.work / f"cases_db_{i // shard}.v"
        emit_cases(f, cases[i:i + shard])
        files.append((f, i))
    outs = ck.run_case_files([f for f, _ in files], timeout=1200)
    divergences, failed_files = [], []
    for f, base in files:
        rc, out = outs[f]
        nums = parse_nat_list(out) if rc == 0 else None
        if nums is None:
            failed_files.append((f.name, out[-600:]))
            continue
        for j in range(0, len(nums), 2):
            divergences.append((base + nums[j], nums[j + 1]))
    return dict(cases=cases, meta=meta, kws=kws, tzs=tzs, divergences=divergences, failed_files=failed_files,
                stats=dict(op_kinds=dict(kinds), error_kinds=dict(errs), db_sizes=dict(sizes)))


READ_OPS = {"search", "count", "contains", "get", "select", "all", "get_measurements", "get_tag_keys", "get_tag_values", "get_field_keys",
            "get_field_values", "get_timestamps"}


def direct_oracle(cases):
    """the documented meaning (pyspec) against the implementation's outputs, step by step, on every history;
    where the spec is silent (a user callable raised, invalid arguments) the walk resynchronises on the next
    iteration output.  -> list of (case index, step, spec output), steps checked"""
    bad, checked = [], 0
    for ci, (csv, auto, ops, outs) in enumerate(cases):
        db = []
        cur_auto = auto
        last_valid, expect_valid = None, False         # C06: "with automatic indexing on, inserting in non-decreasing time order keeps the index valid"
        for k, (o, x) in enumerate(zip(ops, outs)):
            if o[0] == "reopen" and x[0] != "raise":
                cur_auto = bool(o[1])                  # a reopen chooses auto_index anew
                last_valid = None
            if o[0] == "index_valid" and x[0] == "bool":
                if expect_valid and x[1] is False:
                    bad.append((ci, k, ("bool", True)))
                last_valid, expect_valid = x[1], False
            elif o[0] == "insert" and x[0] == "nat" and db is not None and cur_auto and last_valid is True:
                ts = [p["time"] for p in o[1] if p is not None and p.get("time") is not None]
                newest = max((p["time"] for p in db), default=None)
                expect_valid = len(ts) == len(o[1]) and all(a <= b for a, b in zip(ts, ts[1:])) and (newest is None or not ts or ts[0] >= newest) \
                    and all(abs(t_) < (1 << 62) for t_ in ts)
            elif o[0] in READ_OPS and x[0] != "raise" and cur_auto:
                last_valid, expect_valid = True, False
            elif _kind(o)[0] in WRITE_KINDS or o[0] == "handle":
                last_valid, expect_valid = None, False
            if db is None:
                if o[0] == "iter" and x[0] == "points":
                    db = [dict(p) for p in x[1]]
                continue
            if o[0] == "index_valid":
                # "any read leaves it valid": with auto_index on, right after a read that goes through the database's read path
                if cur_auto and k > 0 and x == ("bool", False) and ops[k - 1][0] in READ_OPS and outs[k - 1][0] != "raise":
                    bad.append((ci, k, ("bool", True)))
                continue
            try:
                db2, want = pyspec.step(db, o)
            except Exception:          # pyspec.Undefined (the meaning is silent: a user callable raised, invalid arguments) or an oracle limitation
                kind = _kind(o)[0]
                if kind in WRITE_KINDS and not (x[0] == "raise" and kind != "insert"):
                    db = None          # what the write did is unknown: resynchronise at the next iteration output
                # a read leaves the contents alone; so does a removal / update that RAISED (C11: the contents are what they were before the
                # call) - keep the state and keep judging the following steps
                continue
            checked += 1
            if not pyspec.same(want, x):
                bad.append((ci, k, want))
                kind, _ = _kind(o)
                if kind in WRITE_KINDS:
                    # the documented meaning says what the contents are after this write, whatever the call returned: the following steps (the
                    # file, an iteration, reads) are judged against THAT - a wrong count and wrong contents are then both seen, each by the
                    # properties that speak about it
                    db = db2
                # a read that answers wrongly leaves the contents alone: later steps (e.g. the same read through a handle) are still judged
                continue
            db = db2
    return bad, checked


def nontrivial(case):
    """history contains a write and a query read whose answer is neither empty nor everything"""
    csv, auto, ops, outs = case
    size = 0
    ok_w = ok_r = False
    for o, x in zip(ops, outs):
        if o[0] == "iter" and x[0] == "points":
            size = len(x[1])
        if o[0] in WRITE_KINDS or (o[0] == "handle" and o[2][0] in WRITE_KINDS):
            ok_w = True
        if o[0] in ("search", "count") and x[0] in ("points", "nat"):
            n = len(x[1]) if x[0] == "points" else x[1]
            if 0 < n < size:
                ok_r = True
    return ok_w and ok_r


def db_check(pid, tier, seed, profile, n_quick, n_thorough, prop_module, claims_note, extra_cov=None, direct=None, configs=CONFIGS, kwargs_for=None,
             extra_cases=(), pre=None, extra_targets=()):
    """generic driver for the properties decided on the database-level model"""
    ck = Check(pid, tier, seed)
    tf = use_impl()
    b = ck.build_proofs(prop_module, pre=pre, extra_targets=["Run.vo", "Refinement.vo", *extra_targets])
    n = n_quick if tier == "quick" else n_thorough
    corpus = load_corpus(pid)
    # a few histories on databases of some hundred points (sizes around 128 / 256: thresholds inside the library)
    nb = profile.get("bulk", 2 if tier == "quick" else 8)
    order = [c for c in [(False, True), (True, True), (True, False), (False, False)] if c in configs] or list(configs)
    bulk = []
    for j in range(nb):
        csv_b, auto_b = order[j % len(order)]
        g = dbgen.Gen((seed << 20) + 900000 + j, dict(profile, scenario_force="bulk", p_scenario=1.0, file_obs=False))
        bulk.append((csv_b, auto_b, g.history(csv_b)))
    extra_cases = list(extra_cases) + bulk
    res = run_tie(ck, tf, n, profile, configs=configs, corpus=corpus, kwargs_for=kwargs_for, extra_cases=extra_cases)
    cases = res["cases"]
    mine, elsewhere, known_hits = [], Counter(), Counter()
    for ci, k in res["divergences"]:
        csv, auto, ops, outs = cases[ci]
        sc = scopes(csv, auto, ops, outs, k)
        kc = in_known_class(csv, ops, k)
        if kc:
            known_hits[kc] += 1
            continue
        if pid in sc:
            mine.append((ci, k))
        else:
            elsewhere["/".join(sorted(sc))] += 1
    for name, tail in res["failed_files"]:
        ck.violation({"kind": "model-evaluation-failed", "what_no_longer_checks": f"coqc on generated {name}", "log": tail}, no_input=True)
    reported = 0
    spec_bad, spec_checked = direct_oracle(cases)
    spec_mine = [(ci, k, want) for ci, k, want in spec_bad if pid in scopes(cases[ci][0], cases[ci][1], cases[ci][2], cases[ci][3], k)]
    spec_at = {(ci, k): want for ci, k, want in spec_bad}
    for ci, k, want in spec_mine[:2]:
        csv, auto, ops, outs = cases[ci]
        if (ci, k) in mine:
            continue
        ck.violation({"kind": "failing-input", "config": {"csv": csv, "auto_index": auto, "TZ": res["tzs"][ci] or os.environ.get("TZ", "UTC"), "storage_kwargs": res["kws"][ci] or {}},
                      "ops": ops[:k + 1], "first_differing_step": k, "implementation_output": outs[k], "spec_output": want,
                      "attributed_to": pid, "origin": res["meta"][ci],
                      "why": "the implementation's answer differs from the documented meaning (harness/pyspec.py) although it agrees with the Coq model"})
    mine.sort(key=lambda ck_: (ck_ not in spec_at, ck_))       # divergences where the documented meaning is contradicted first
    for ci, k in mine[:3]:
        csv, auto, ops, outs = cases[ci]
        ops = ops[:k + 1]
        spec = spec_at.get((ci, k))
        impl_out = outs[k]
        genuine = spec is not None
        if not genuine:
            # the step itself agrees with the documented meaning (or the meaning is silent there, e.g. index.valid):
            # look for a later step of the same history where the implementation contradicts it
            later = [(k2, w) for (c2, k2, w) in spec_bad if c2 == ci and k2 > k and pid in scopes(csv, auto, cases[ci][2], outs, k2)]
            if later:
                k, spec = later[0]
                ops, impl_out, genuine = cases[ci][2][:k + 1], outs[k], True
        replay = {"kind": "failing-input" if genuine else "correspondence-broken",
                  "config": {"csv": csv, "auto_index": auto, "TZ": res["tzs"][ci] or os.environ.get("TZ", "UTC"), "storage_kwargs": res["kws"][ci] or {}},
                  "ops": ops, "first_differing_step": k, "implementation_output": impl_out,
                  "spec_output": spec, "model_output_coq": model_outputs(ck, (csv, auto, ops, outs), k),
                  "attributed_to": pid, "origin": res["meta"][ci],
                  "what_no_longer_checks": None if genuine else f"correspondence DB.v step vs implementation at op kind {op_kind(ops[k])}"}
        ck.violation(replay, no_input=not genuine)
        reported += 1
    if direct:
        direct(ck, tf)
    if not b["ok"]:
        ck.violation({"kind": "proof-broken", "what_no_longer_checks": f"{prop_module}.v (theorems {b['theorems']}) or a file of its cone / the generated definitions",
                      "log": b["log"][-2000:], "forbidden": b["forbidden"]}, no_input=not ck.violations)
    # known findings of this property: replay their witnesses on the implementation
    import subprocess
    for f in load_known_findings():
        if f.get("status") == "known" and pid in f.get("properties", []) and f.get("repro"):
            rc, out = sh([PY, str(VERIF / "findings" / "repro.py"), f["repro"]], env=impl_env(), timeout=120)
            if "DEFECT" in out:
                ck.known_finding(f"{f['id']}: {f['what']}")
    cov = {
        "obligations": b["obligations"], "discharged": b["discharged"],
        "checker_cmd": f"make -C /verif/coq {prop_module}.vo Run.vo (coqc, full .vo); Print Assumptions re-run per theorem; model evaluated by coqc/vm_compute on generated cases",
        "trusted_base": TRUSTED_BASE_COMMON + [
            "hand-written model coq/{Base,Query,Index,DB,Codec,Twins,Run}.v tied to /repo by correspondence at the public API (not verified code)",
            "twin table harness/twins.py <-> coq/Twins.v for user callables and regular expressions",
            "Print Assumptions: " + json.dumps(b["assumptions"]),
        ],
        "theorems": b["theorems"], "forbidden_tokens_found": b["forbidden"],
        "evaluations": len(cases), "steps_compared": sum(len(c[2]) for c in cases),
        "distinct_nontrivial": len({json.dumps(c[2], default=str) for c in cases if nontrivial(c)}),
        "rule": "histories generated from VERIF_SEED over {memory,csv} x {auto_index on,off}; every step's output compared implementation vs Coq model; "
                "non-trivial = the history contains a write and a search/count whose answer is neither empty nor everything; distinct by op list",
        "traces_validated_against_impl": len(cases) - len({ci for ci, _ in res["divergences"]}),
        "divergences_attributed_here": len(mine), "diverged_elsewhere": dict(elsewhere),
        "steps_compared_with_documented_meaning": spec_checked, "documented_meaning_mismatches": len(spec_bad),
        "inside_known_finding_class": dict(known_hits),
        "distribution": res["stats"],
        "samples": [{"config": {"csv": c[0], "auto_index": c[1]}, "ops": c[2][:6], "outputs": c[3][:6]} for c in cases[:2]],
    }
    if extra_cov:
        cov.update(extra_cov)
    ck.cov = cov
    return ck.finish(level="proof", extra_assumptions=[claims_note])


def load_corpus(pid):
    out = []
    d = VERIF / "corpus"
    for p in sorted(d.glob(f"{pid}-*.json")) + sorted(d.glob("ALL-*.json")):
        try:
            c = json.loads(p.read_text())
            c["name"] = p.name
            out.append(c)
        except Exception:
            pass
    return out


