"""C17: queries that compare equal behave identically; equal queries hash equal; & and | commute; map never equal."""
import json
import random

from common import *  # noqa
import dbmodel as M
import qtie


def has_map(q):
    if q[0] in ("and", "or"):
        return has_map(q[1]) or has_map(q[2])
    if q[0] == "not":
        return has_map(q[1])
    return q[0] == "S" and any(p[0] == "m" for p in q[2])


def main(tier, seed):
    ck = Check("C17", tier, seed)
    tf = use_impl()
    rng = random.Random(seed)
    refused = []

    def regen():
        # the identity / operator table of query objects is regenerated from queries.py and proved equal to the model's (proofs/QueryGenP.v)
        rc, out = sh([PY, str(VERIF / "harness" / "py2coq_query.py"), str(REPO / "tinyflux" / "queries.py"), str(COQ / "gen" / "QueryGen.v")], timeout=60)
        refused.extend(l for l in out.splitlines() if l.startswith("REFUSED"))
    b = ck.build_proofs("Prop_C17", pre=regen, extra_targets=["Run.vo"])
    univ = qtie.universe()
    rpts = [M.real_point(tf, p) for p in univ]
    vocab, raising = qtie.vocabulary()
    # near-duplicates: same query built twice, equal rhs in another representation, same regex other flags
    extra = [("S", "fields", [("k", "a")], ("cmp", "==", ("n", 1))), ("S", "fields", [("k", "a")], ("cmp", "==", ("n", 1.0))),
             ("S", "tags", [("k", "a")], ("match", 0, 0)), ("S", "tags", [("k", "a")], ("match", 0, 1)), ("S", "tags", [("k", "a")], ("search", 0, 0)),
             ("S", "tags", [("k", "b")], ("cmp", "==", ("s", "ab"))), ("S", "tags", [("k", "a")], ("cmp", "==", ("s", "ab"))),
             ("S", "tags", [("k", "a")], ("user", 3)), ("S", "tags", [("k", "a")], ("user", 3)), ("S", "fields", [("k", "a")], ("user", 1)),
             ("S", "tags", [("k", "a"), ("m", 0)], ("cmp", "==", ("s", "ab"))), ("S", "tags", [("m", 0), ("k", "a")], ("cmp", "==", ("s", "ab")))]
    base = vocab + raising + extra
    c = qtie.core(vocab)[:(8 if tier == "quick" else 12)] + extra[:6]
    d1 = qtie.depth1(c)
    # noop() as an operand (documented as a base value for building filters in a loop): noop | a is always true, noop & a is a
    atoms = extra[:3] + [v for v in vocab if v[0] == "S"][:5]
    noops = []
    for nq in [("noop", "tags"), ("noop", "fields"), ("noop", "time"), ("noop", "meas"), ("noop", "tags", "a"), ("noop", "tags", "zz"), ("noop", "fields", "zz"), ("noop", "fields", "a", "y")]:
        attr = nq[1]
        noops.append(("not", nq))
        for a in atoms:
            noops += [("or", nq, a), ("or", a, nq), ("and", nq, a), ("and", a, nq), ("or", ("and", nq, a), a), ("and", ("or", nq, a), a)]
        noops += [("or", nq, ("noop", "tags")), ("and", nq, ("noop", "fields"))]
    qs = base + d1 + noops + qtie.twin_compounds()
    n_exh = len(qs)
    n_d2 = 150 if tier == "quick" else 700
    for _ in range(n_d2):
        a, bq = rng.choice(d1), rng.choice(base + d1)
        k = rng.random()
        qs.append(("not", a) if k < 0.2 else ((rng.choice(["and", "or"]), a, bq) if k < 0.6 else (rng.choice(["and", "or"]), bq, a)))
    # mirrored commutative pairs so that a & b / b & a both occur
    for q in list(qs[-n_d2:]):
        if q[0] in ("and", "or"):
            qs.append((q[0], q[2], q[1]))
    # every query whose user test raises on some values, against atoms that decide on their own, in both operand orders (whatever the random picks above
    # were): a & b and b & a are equal queries, so they must also agree on the points where one operand raises
    for r_ in raising:
        for a_ in extra[:2] + [v for v in vocab if v[0] == "S" and v[3][0] in ("cmp", "exists")][:4]:
            for op_ in ("and", "or"):
                qs += [(op_, r_, a_), (op_, a_, r_)]
    shared_builders = {}                       # as in C09: all queries derive from one set of builder objects
    rqs = [M.real_query(tf, q, shared_builders) for q in qs]
    n = len(qs)
    eq_rows, hashable, direct_bad = [], [], []
    behaviour = [tuple(qtie.impl_eval(tf, rq, rp) for rp in rpts) for rq in rqs]
    n_equal = 0
    for i in range(n):
        row = []
        hashable.append(bool(rqs[i].is_hashable()))
        for j in range(n):
            try:
                e = rqs[i] == rqs[j]
            except Exception as ex:  # noqa
                e = None
            if e is True:
                row.append(j)
                n_equal += 1
                # the property, directly: equal => same truth value on every point, equal hashes
                if behaviour[i] != behaviour[j] and len(direct_bad) < 5:
                    k = next(t for t in range(len(univ)) if behaviour[i][t] != behaviour[j][t])
                    direct_bad.append({"q1": qs[i], "q2": qs[j], "point": univ[k], "q1(p)": behaviour[i][k], "q2(p)": behaviour[j][k],
                                       "why": "compare equal but evaluate differently"})
                try:
                    if hash(rqs[i]) != hash(rqs[j]) and len(direct_bad) < 5:
                        direct_bad.append({"q1": qs[i], "q2": qs[j], "why": "compare equal but hash differently"})
                except TypeError:
                    pass
                if (has_map(qs[i]) or has_map(qs[j])) and len(direct_bad) < 5:
                    direct_bad.append({"q1": qs[i], "q2": qs[j], "why": "a query containing map compares equal to something"})
        eq_rows.append(row)
    # commutativity, directly
    comm_checked = 0
    for i in range(len(base)):
        for j in range(0, len(base), 7):
            a, bq = rqs[i], rqs[j]
            if not has_map(qs[i]) and not has_map(qs[j]):
                comm_checked += 1
                if not ((a & bq) == (bq & a)) or not ((a | bq) == (bq | a)):
                    if len(direct_bad) < 5:
                        direct_bad.append({"q1": qs[i], "q2": qs[j], "why": "a & b != b & a (or |) for hashable operands"})
    # ... and for operands whose keys differ only in values that Python hashes alike (-1 / -2, in either numeric type)
    fq = lambda c, v: ("S", "fields", [("k", "a")], ("cmp", c, ("n", v)))
    twins_ = []
    for c in ("==", "!=", "<", "<=", ">", ">="):
        for a_, b_ in ((-1, -2), (-1.0, -2.0), (-1, -2.0)):
            twins_ += [(fq(c, a_), fq(c, b_)), (("not", fq(c, a_)), ("not", fq(c, b_))), (fq(c, a_), ("not", fq(c, b_)))]
    twins_ += [(("S", "tags", [("k", "a")], ("cmp", "==", ("s", "-1"))), ("S", "tags", [("k", "a")], ("cmp", "==", ("s", "-2")))),
               (("and", fq("==", -1), fq(">", 0)), ("and", fq("==", -2), fq(">", 0)))]
    # ... and for a compound against one of its own operands (x = a & b: x & b and b & x, x | a and a | x), and against another compound sharing one
    ta = [fq("==", 1), fq(">", 0), ("S", "tags", [("k", "a")], ("cmp", "==", ("s", "ab"))), ("S", "tags", [("k", "b")], ("exists",)), ("S", "meas", [], ("cmp", "==", ("s", "m1")))]
    for i_, a_ in enumerate(ta):
        for b_ in ta[i_ + 1:]:
            for op_ in ("and", "or"):
                x_ = (op_, a_, b_)
                twins_ += [(x_, a_), (x_, b_), (x_, (op_, b_, a_)), (("not", x_), a_), (x_, ("not", b_))]
    for qa, qb in twins_:
        a, bq = M.real_query(tf, qa, shared_builders), M.real_query(tf, qb, shared_builders)
        comm_checked += 1
        if (not ((a & bq) == (bq & a)) or not ((a | bq) == (bq | a)) or hash(a & bq) != hash(bq & a) or hash(a | bq) != hash(bq | a)) and len(direct_bad) < 5:
            direct_bad.append({"q1": qa, "q2": qb, "why": "a & b != b & a (or |, or their hashes differ) for operands whose keys hash alike"})
    ebad, edited_checked = qtie.edited_point_check(tf, qs, rqs, univ)
    direct_bad += [dict(x, q1=x["query"], q2=x["query"]) for x in ebad]
    dbad, derived_checked = qtie.derived_check(tf, qs, univ)
    direct_bad += [dict(x, q1=x["query"], q2=("and", x["query"], x.get("held_with"))) for x in dbad]
    # test(func, *args) with MUTABLE arguments (a list / set of accepted values, a dict of bounds) that the caller edits after the query was built: the
    # function receives the live object; whenever the edited query still compares equal to a query over the original content, the two must behave alike
    from datetime import datetime as _dtm, timezone as _tzn
    mutable_checked = 0

    def _member(v, allowed):
        return v in allowed

    def _within(v, bounds):
        return bounds["lo"] <= v <= bounds["hi"]
    rooms = [tf.Point(time=_dtm(2022, 1, 1, tzinfo=_tzn.utc), tags={"room": r_}, fields={"t": x_}) for r_, x_ in (("kitchen", 1), ("lab", 5), ("attic", 9))]
    for label, build, make, edit in (
            ("a list of accepted values", lambda a: tf.TagQuery().room.test(_member, a), lambda: ["kitchen"], lambda a: a.append("lab")),
            ("a set of accepted values", lambda a: tf.TagQuery().room.test(_member, a), lambda: {"kitchen"}, lambda a: a.add("lab")),
            ("a dict of bounds", lambda a: tf.FieldQuery().t.test(_within, a), lambda: {"lo": 0, "hi": 2}, lambda a: a.update(hi=6)),
            ("a list inside a compound query", lambda a: tf.TagQuery().room.test(_member, a) | (tf.FieldQuery().t > 8), lambda: ["kitchen"], lambda a: a.append("lab"))):
        try:
            live = make()
            q1, q2 = build(live), build(make())
            eq_before = (q1 == q2)
            edit(live)
            eq_after = (q1 == q2)
            b1, b2 = [bool(q1(p_)) for p_ in rooms], [bool(q2(p_)) for p_ in rooms]
        except TypeError:
            continue          # (a compound over an unhashable argument cannot be built: nothing to compare)
        mutable_checked += 1
        if eq_after and b1 != b2 and len(direct_bad) < 5:
            direct_bad.append({"q1": f"test(func, <{label}>) whose argument was edited after the query was built", "q2": "the same call over an equal, unedited argument",
                               "equal_before_the_edit": eq_before, "equal_after_the_edit": eq_after, "q1_on_rooms_kitchen_lab_attic": b1, "q2_on_the_same_points": b2,
                               "why": "two queries compare equal and answer differently"})
    f = ck.work / "cases_c17.v"
    qtie.emit_eq_cases(f, qs, eq_rows, hashable)
    rc, out = coqc_file(f, timeout=1500)
    nums = parse_nat_list(out) if rc == 0 else None
    if not b["ok"]:
        ck.violation({"kind": "proof-broken", "what_no_longer_checks": f"Prop_C17.v {b['theorems']}", "log": b["log"][-1500:],
                      "forbidden": b["forbidden"]}, no_input=True)
    if direct_bad:
        ck.violation({"kind": "failing-input", **direct_bad[0], "more": direct_bad[1:]})
    elif nums is None:
        ck.violation({"kind": "model-evaluation-failed", "what_no_longer_checks": "cases_c17.v", "log": out[-800:]}, no_input=True)
    elif nums[1:]:
        r = nums[1]
        what = {"query_index": r % 1000000, "query": qs[r % 1000000],
                "implementation": ("is_hashable=%s" % hashable[r % 1000000]) if r >= 1000000 else {"equal_to": [qs[j] for j in eq_rows[r][:4]]}}
        ck.violation({"kind": "correspondence-broken", "what_no_longer_checks": "correspondence Query.qeq/qhash (theorems C17_*) vs __eq__/is_hashable",
                      **what, "disagreeing_rows": len(nums) - 1}, no_input=True)
    for f_ in load_known_findings():
        if f_.get("status") == "known" and "C17" in f_.get("properties", []) and f_.get("repro"):
            rc_, out_ = sh([PY, str(VERIF / "findings" / "repro.py"), f_["repro"]], env=impl_env(), timeout=120)
            if "DEFECT" in out_:
                ck.known_finding(f"{f_['id']}: {f_['what']}")
    ck.cov = {
        "translator": {"source": "tinyflux/queries.py: every place a query object gets its _hash key, its test operator, its == -> coq/gen/QueryGen.v (regenerated on this run)",
                       "refused": refused, "equivalence_theorems": "enc_eqb, gen_qhash_eq, gen_qeq_eq, gen_tables (proofs/QueryGenP.v)"},
        "obligations": b["obligations"], "discharged": b["discharged"],
        "checker_cmd": "make -C /verif/coq Prop_C17.vo Run.vo (coqc, full .vo); Print Assumptions per theorem; qeq evaluated on all pairs with vm_compute",
        "trusted_base": TRUSTED_BASE_COMMON + ["hand model Query.v (qhash, hv_eqb, qeq) tied by correspondence", "twin table",
                                               "Print Assumptions: " + json.dumps(b["assumptions"])],
        "theorems": b["theorems"], "forbidden_tokens_found": b["forbidden"],
        "evaluations": n * n, "expressions": n, "pairs_equal": n_equal, "commutativity_pairs_checked": comm_checked, "same_object_after_in_place_edit_checked": edited_checked, "queries_unchanged_by_deriving_from_them_checked": derived_checked, "mutable_test_arguments_checked": mutable_checked,
        "distinct_nontrivial": sum(1 for i in range(n) for j in eq_rows[i] if i != j),
        "rule": "all ordered pairs over {vocabulary, near-duplicates, depth-1 closure of a core (exhaustive), sampled depth-2 expressions with their mirror images}: "
                "q1 == q2 and is_hashable compared implementation vs model; for equal pairs, equal behaviour on the whole point universe and equal hash() checked "
                "directly; non-trivial = an equal pair of two different expression objects",
        "exhaustive": False, "exhaustive_part": {"expressions": n_exh}, "universe_points": len(univ),
        "traces_validated_against_impl": (nums[0] ** 2) if nums else 0,
        "samples": [{"q1": qs[i], "q2": qs[eq_rows[i][-1]]} for i in range(n) if len(eq_rows[i]) > 1][:3],
    }
    return ck.finish(level="proof", extra_assumptions=["test(func, *args) identity is modelled by the twin index (same index = same function and arguments)"])
