"""C15: reads and no-op writes change nothing and leave nothing behind."""
import json
import random

from common import *  # noqa
import dbgen
import dbmodel as M
import iotie

PURE_KINDS = ["read", "getter", "reindex", "remove_none", "update_nochange", "update_nomatch", "len_iter", "handle_read", "update_all_same", "unset_other_namespace", "time_neighbour_nomatch", "grown_file_nomatch"]
SWEPT = {"remove_none": 8, "update_nochange": 4, "unset_other_namespace": 5, "update_nomatch": 2, "len_iter": 4}      # kinds whose options are swept: number of options
WRITE_KINDS = ["insert", "remove_some", "update_some", "drop", "remove_all", "update_raises", "insert_multiple_bad", "remove_all_match", "update_all_match"]
MUTATING_P_CALLS = {"write", "truncate"}


class _Pick:
    """r.choice, or - when the sweep asks for option number g.opt - that option"""

    def __init__(self, g):
        self.g = g

    def choice(self, opts):
        o = getattr(self.g, "opt", None)
        return self.g.r.choice(opts) if o is None else opts[o % len(opts)]

    def __getattr__(self, name):
        return getattr(self.g.r, name)


def make_op(g, kind):
    r = _Pick(g) if kind in SWEPT else g.r
    j = r.randrange(1, g.ids) if g.ids > 1 else 1
    one = ("S", "tags", [("k", "id")], ("cmp", "==", ("s", str(j))))
    nomatch = ("S", "tags", [("k", "id")], ("cmp", "==", ("s", "nope")))
    if kind == "read":
        return r.choice([("search", g.query(), g.mfilter(), r.random() < 0.5), ("count", g.query(), g.mfilter()), ("get", g.query(), None),
                         ("contains", one, None), ("select", g.selkeys(), g.query(), g.mfilter()), ("all", r.random() < 0.5)])
    if kind == "getter":
        return r.choice([("get_measurements",), ("get_tag_keys", g.mfilter()), ("get_tag_values", [], g.mfilter()), ("get_field_keys", g.mfilter()),
                         ("get_field_values", "a", g.mfilter()), ("get_timestamps", g.mfilter())])
    if kind == "reindex":
        return ("reindex",)
    if kind == "remove_none":
        return r.choice([("remove", nomatch, None), ("drop", "m3"), ("handle", "m3", ("remove_all",)), ("remove", one, "m3"),
                         ("drop", ""), ("handle", "", ("remove_all",)), ("drop", ""), ("handle", "m3", ("remove", ("noop", "tags")))])
    if kind == "update_nochange":
        return r.choice([("update", one, {"tags": ("static", {"id": str(j)})}, None),
                         # unset_* given as ONE string that names no key, although each of its characters is a key of the stored points
                         ("update", ("noop", "tags"), {"unset_tags": ["abk"], "unset_as_str": True}, None),
                         ("update_all", {"unset_fields": ["ab"], "unset_as_str": True}),
                         ("update_all", {"unset_tags": ["ba"], "unset_as_str": True, "unset_fields": ["ba"]})])
    if kind == "unset_other_namespace":
        # unset a key that exists only in the OTHER namespace ("n" is a field key, "id" a tag key): nothing to remove, through the database and through a handle
        return r.choice([("update_all", {"unset_tags": ["n"]}), ("update_all", {"unset_fields": ["id"]}),
                         ("handle", r.choice(["m1", "m2", "_default"]), ("update_all", {"unset_tags": ["n", "a_b"]})),
                         ("handle", r.choice(["m1", "m2", "_default"]), ("update", ("noop", "tags"), {"unset_fields": ["id"]})),
                         ("handle", r.choice(["m1", "m2", "_default"]), ("update_all", {"unset_tags": ["n"], "unset_fields": ["id"]}))])
    if kind == "time_neighbour_nomatch":
        return ("remove", nomatch, None)          # (replaced in main, where the stored instants are known)
    if kind == "grown_file_nomatch":
        return r.choice([("remove", nomatch, None), ("drop", "ghost"), ("handle", "ghost", ("remove", ("noop", "tags"))), ("update", nomatch, {"fields": ("static", {"a": 5})}, None)])
    if kind == "update_nomatch":
        return r.choice([("update", nomatch, {"fields": ("static", {"a": 5})}, None), ("handle", "m3", ("update_all", {"fields": ("static", {"a": 5})}))])
    if kind == "update_all_same":
        return ("update_all", {"tags": ("static", {"same": "v"}), "fields": ("static", {"same": 1})})
    if kind == "len_iter":
        return r.choice([("len",), ("iter",), ("handle", "m1", ("len",)), ("handle", "m1", ("iter",))])
    if kind == "handle_read":
        return g.handle_op(False)
    if kind == "insert":
        return ("insert", [g.point()], None)
    if kind == "insert_multiple_bad":
        return ("insert", [g.point(), None, g.point()], None, "multiple")
    if kind == "remove_some":
        return ("remove", one, None)
    if kind == "remove_all_match":
        return ("remove", ("noop", "tags"), None)
    if kind == "update_some":
        return ("update", one, {"tags": ("static", {"a": "changed"})}, None)
    if kind == "update_all_match":
        # update(query) whose query is true of EVERY stored point (the index, when valid, answers "all of them")
        q = r.choice([("S", "time", [], ("cmp", ">", ("t", dbgen.T0 - 10 ** 9))), ("noop", "tags"), ("S", "time", [], ("cmp", ">=", ("t", dbgen.T0 - 10 ** 9)))])
        return ("update", q, r.choice([{"tags": ("static", {"a": "changed"})}, {"unset_tags": ["nonexistent"]}, {"fields": ("static", {"zz": 1})}]), None)
    if kind == "update_raises":
        return ("update_all", {"fields": ("call", 3), "tags": ("static", {"a": "zz"})})
    if kind == "drop":
        return ("drop", r.choice(["m1", "m2"]))
    if kind == "remove_all":
        return ("remove_all",)
    raise ValueError(kind)


def main(tier, seed):
    ck = Check("C15", tier, seed)
    tf = use_impl()
    refused = []
    # the storage's I/O calls are regenerated from storages.py (symbolic execution) and proved equal to the model's scripts (proofs/IOGenP.v)
    b = ck.build_proofs("Prop_C15", pre=lambda: (run_translator("py2coq_io.py", "tinyflux/storages.py", "gen/IOGen.v", refused),
                                                      # the access gates of every method of TinyFlux / Measurement and what each does to storage (C15_source_every_*)
                                                      run_translator("py2coq_gates.py", "tinyflux/database.py", "gen/GatesGen.v", refused)), extra_targets=["Run.vo", "IO.vo"])
    n = 231 if tier == "quick" else 1617          # 33 kinds x 7 access modes: every kind meets every mode
    kinds = PURE_KINDS * 2 + WRITE_KINDS
    modes = [None, None, "r+", "r", "r", "a", "w+"]
    direct_bad, coq_cases, stats, seen = [], [], {}, set()
    # after the n sampled cases: EVERY option of the kinds that have several (which removal that matches nothing, which update that changes nothing,
    # which way of unsetting a key of the other namespace, ...) once in every access mode - what is caught does not depend on the random choice
    jobs = [(i, None, None, None) for i in range(n)]
    j = n
    for sk, nopt in SWEPT.items():
        for o in range(nopt):
            for sm in (None, "r", "a", "w+"):
                jobs.append((j, sk, sm, o))
                j += 1
    # ... and removals that name a whole measurement by the plain query `MeasurementQuery() == name` AFTER measurement(name) has handed out a handle:
    # one that removes points, one (an empty measurement) that removes nothing
    for xk in ("handle_then_remove_measurement", "handle_then_remove_empty_measurement"):
        for sm in (None, "r+", "r", "a", "w+"):
            for o in range(2):
                jobs.append((j, xk, sm, o))
                j += 1
    for i, kind_over, mode_over, opt_over in jobs:
        g = dbgen.Gen((seed << 14) + i, {"p_selective": 1.0, "allow_raise": False})
        g.opt = opt_over
        r = g.r
        g.ids = 1
        kind = kind_over or kinds[i % len(kinds)]
        auto = r.random() < 0.7
        pts = g.points_batch(r.choice([1, 2, 3, 5, 8]), in_order=r.random() < 0.7)
        for p in pts:
            if r.random() < 0.3:
                p["tags"]["s"] = r.choice(["a,b", "q\"q", "x\r\ny", "é"])
            if p["fields"].get("a") == 2:
                p["fields"]["a"] = 1
        if r.random() < 0.5 and len(pts) > 1:
            pts[-1]["fields"]["a"] = 2                  # fields callable 3 raises on this one (after earlier rows were staged)
        hist = [("insert", pts, None, "multiple") + (("compact",) if r.random() < 0.5 else ())]
        if r.random() < 0.4 or kind == "update_all_same":
            hist.append(("update_all", {"tags": ("static", {"same": "v"}), "fields": ("static", {"same": 1})}))
            hist.append(("insert", [g.point()], None, "compact"))
            hist.append(("update_all", {"tags": ("static", {"same": "v"}), "fields": ("static", {"same": 1})}))
        for _ in range(r.choice([0, 1, 2])):
            hist.append(r.choice([g.read_op(), ("get", g.query(), None), ("insert", [g.point()], None)]))
        if kind in ("read", "getter", "len_iter", "handle_read", "reindex") and i % 3 == 1:
            # the operation before the read is a batch insert that RAISED part-way: whatever it left in a buffer is part of that insert, not of the read
            hist.append(("insert", [g.point(), None, g.point()], None, "multiple"))
        if kind == "update_all_same":
            # every stored point already carries the values: the update changes nothing; rows are in compact-prefix form
            for p in pts:
                p["tags"]["same"], p["fields"]["same"] = "v", 1
            hist = [("insert", pts, None, "multiple", "compact"), ("get", g.query(), None)]
        mode = modes[(3 * i + 5 * (i // len(kinds))) % len(modes)]          # every kind meets every mode within seven rounds
        if kind_over:
            mode = mode_over
        if kind == "update_all_match":
            # the index must be valid when the call is made: points in time order, nothing in between
            auto = True
            pts.sort(key=lambda p: p["time"])
            hist = [("insert", pts, None, "multiple")]
        if kind.startswith("handle_then_remove"):
            name = pts[0]["meas"] if kind == "handle_then_remove_measurement" else "m3"
            hist += [("handle", name, ("len",)), ("handle", name, ("count", ("noop", "tags")))]
            mq = ("S", "meas", [], ("cmp", "==", ("s", name)))
            op = ("remove", mq, None) if opt_over == 0 else ("remove", mq, name)
        else:
            op = make_op(g, kind)
        if kind == "update_nochange" and opt_over is None and (i // len(kinds)) % 3 != 2:
            # the time a point already has, handed in again - in another zone, or as a naive datetime (local time): the same instant, no change;
            # the rows are in compact-prefix form, so a needless rewrite shows in the bytes
            tgt = [p for p in pts if "id" in p["tags"]]
            if tgt:
                p0 = r.choice(tgt)
                hist = [("insert", pts, None, "multiple", "compact")] + [h for h in hist[1:] if h[0] not in ("insert", "update_all")]
                op = ("update", ("S", "tags", [("k", "id")], ("cmp", "==", ("s", p0["tags"]["id"]))), {"time": ("static", p0["time"]), "naive_time": i % len(kinds) < 9}, None)
        if kind == "update_nochange" and opt_over is None and (i // len(kinds)) % 3 == 2:
            # a call whose steps cancel out: a key set and unset by the same call, on points that never had it (unset wins) - nothing changes; compact rows
            hist = [("insert", pts, None, "multiple", "compact")] + [h for h in hist[1:] if h[0] not in ("insert", "update_all")]
            op = r.choice([("update_all", {"tags": ("static", {"zz9": "x"}), "unset_tags": ["zz9"]}),
                           ("update_all", {"fields": ("static", {"zz9": 1}), "unset_fields": ["zz9"]}),
                           ("update", ("noop", "tags"), {"tags": ("static", {"zz9": "x"}), "fields": ("static", {"zz8": 2}), "unset_tags": ["zz9"], "unset_fields": ["zz8", "zz7"]}, None)])
        pre_hook = None
        if kind == "time_neighbour_nomatch":
            # a removal / update selected by `time == t` where NO point is stamped t but one is stamped one microsecond later (or earlier), with a
            # valid index answering: it matches nothing
            auto = True
            pts.sort(key=lambda p: p["time"])
            stamps = {p["time"] for p in pts}
            cand = [t + d for t in sorted(stamps) for d in (-1, 1) if t + d not in stamps]
            t_abs = r.choice(cand)
            hist = [("insert", pts, None, "multiple"), ("count", ("noop", "tags"), None)]
            tq = ("S", "time", [], ("cmp", "==", ("t", t_abs)))
            op = r.choice([("remove", tq, None), ("update", tq, {"tags": ("static", {"hit": "1"})}, None), ("remove", ("not", ("S", "time", [], ("cmp", "!=", ("t", t_abs)))), None)])
        if kind == "grown_file_nomatch":
            # this object was opened on an EMPTY file and has answered a read (its index is valid and empty); then rows arrive through a second
            # object on the same file, which is closed again; a removal / update through the first object that matches nothing changes nothing
            hist = [("count", ("noop", "tags"), None)]
            arrived = list(pts)

            def pre_hook(s, _arrived=arrived):
                other = tf.TinyFlux(s.path, auto_index=False)
                other.insert_multiple([M.real_point(tf, p) for p in _arrived])
                other.close()
        if kind == "unset_other_namespace":
            hist = [("insert", pts, None, "multiple", "compact")] + [h for h in hist[1:] if h[0] not in ("insert", "update_all")]
        if mode == "a":
            auto = False          # with auto_index the constructor itself reads (and raises) in append-only mode
        other = i % 3 == 1
        if kind == "grown_file_nomatch":
            mode = None
        rec = iotie.recorded_run(tf, str(ck.work / f"rec{i}"), hist, op, auto, other_fs=other, mode=mode, pre_hook=pre_hook)
        if rec.get("open_failed"):
            stats[f"open in mode {mode} raised {rec['open_failed']}"] = stats.get(f"open in mode {mode} raised {rec['open_failed']}", 0) + 1
            continue
        key = (kind, mode or "r+")
        stats[str(key)] = stats.get(str(key), 0) + 1
        seen.add(json.dumps([kind, mode, op], default=str))
        ev = rec["events"]
        raised = rec["out"][0] == "raise"
        pure = kind in PURE_KINDS or kind == "handle_then_remove_empty_measurement"
        # mode "a" may append (insert) but not rewrite; mode "r" may do neither
        readonly = mode == "r" or (mode == "a" and not kind.startswith("insert"))
        why = None
        # w+ truncates at open: `before` is taken after reopening, so the rules below apply unchanged
        if rec["lst_before"] != rec["lst_after"]:
            why = f"files left behind: temp/database directory listing changed from {rec['lst_before']} to {rec['lst_after']}"
        elif pure and rec["before_bytes"] != rec["after_bytes"]:
            why = "a read / no-op operation changed the bytes of the database file"
        elif pure and any(e[1] == "P" and e[2] in MUTATING_P_CALLS for e in ev) and mode != "a":
            # (flush/seek change nothing when nothing is buffered; write/truncate on the primary are state changes)
            if rec["before_bytes"] != rec["after_bytes"]:
                why = "a read / no-op operation wrote to the primary file"
        elif mode in ("r", "a") and kind in ("remove_none", "update_nochange", "update_nomatch", "update_all_same", "unset_other_namespace", "time_neighbour_nomatch") and not raised:
            why = f"a write operation (although it would change nothing) on a database opened with access mode {mode!r} did not raise"
        elif readonly and (kind in WRITE_KINDS or kind == "handle_then_remove_measurement"):
            if not raised:
                why = f"a write on a database opened with access mode {mode!r} did not raise"
            elif rec["before_bytes"] != rec["after_bytes"]:
                why = f"a write on a database opened with access mode {mode!r} changed the file"
        elif raised and kind in WRITE_KINDS and kind != "insert_multiple_bad" and mode in (None, "r+") and rec["before_bytes"] != rec["after_bytes"]:
            why = "an operation that raised changed the bytes of the database file"
        if why and len(direct_bad) < 4:
            direct_bad.append({"kind": "failing-input", "why": why, "operation_kind": kind, "access_mode": mode or "r+", "auto_index": auto,
                               "history": hist, "op": op, "outcome": rec["out"], "calls": [f"{e[1]}.{e[2]}" for e in ev][:60],
                               "listing_before": rec["lst_before"], "listing_after": rec["lst_after"],
                               "bytes_before": len(rec["before_bytes"] or b""), "bytes_after": len(rec["after_bytes"] or b"")})
        if mode in (None, "r+") and rec["after"] is not None and kind != "grown_file_nomatch":
            coq_cases.append((auto, hist, op, pure, rec["after"]))
    # "once it has returned OR RAISED": an OSError injected at every I/O boundary of rewriting operations; nothing may be left behind
    n_fault_hist = 3 if tier == "quick" else 20
    fault_runs = 0
    for hist, op, auto, kind in iotie.io_cases(seed + 1, n_fault_hist * 4, kinds=["remove_some", "update_some", "drop", "remove_all_match"])[:n_fault_hist * 4]:
        rec = iotie.recorded_run(tf, str(ck.work / "frec"), hist, op, auto)
        for k in range(len(rec["events"])):
            if rec["events"][k][1:3] == ("os", "remove"):
                continue              # a failing removal cannot remove: no implementation can leave nothing behind then
            for fmode in ("fail_before", "fail_after"):
                if fmode == "fail_after" and rec["events"][k][2] not in ("flush", "fsync", "close"):
                    continue          # "after it took effect" is meaningful for flush / fsync / close only
                fr = iotie.fault_run(tf, str(ck.work / "flt"), hist, op, k, fmode, [], auto)
                fault_runs += 1
                if fr.get("injected") and fr["left"] != (["db.csv"], []) and len(direct_bad) < 4:
                    direct_bad.append({"kind": "failing-input", "why": f"files left behind after an operation failed with an I/O error: {fr['left']}",
                                       "history": hist, "op": op, "auto_index": auto, "fault": fmode, "at_call": k,
                                       "call": list(rec["events"][k][1:3]), "outcome": fr.get("out")})
    # reads on a database object AFTER close() / after its with-block: whether they raise or answer, the file stays byte for byte what it was
    import os as _os
    import tempfile as _tempfile
    from datetime import datetime as _dt, timedelta as _td, timezone as _tz
    closed_runs = 0

    def quiet(fn):
        import contextlib, io
        with contextlib.redirect_stdout(io.StringIO()):
            return fn()
    for amode in (None, "r+", "r", "a", "w+"):
        for auto in (True, False):
            d = ck.work / f"closed_{amode}_{int(auto)}"
            d.mkdir()
            tdir = d / "tmp"
            tdir.mkdir()
            path = str(d / "db.csv")
            pts = [tf.Point(time=_dt(2020, 1, 1, tzinfo=_tz.utc) + _td(seconds=i), measurement="m1", tags={"k": str(i)}, fields={"a": float(i)}) for i in range(4)]
            old_tmp = _tempfile.tempdir
            _tempfile.tempdir = str(tdir)
            try:
                if amode in ("r", "a") or amode is None or amode == "r+":
                    with tf.TinyFlux(path) as db0:
                        db0.insert_multiple(pts)
                try:
                    db = tf.TinyFlux(path, auto_index=(auto and amode != "a"), **({"access_mode": amode} if amode else {}))
                except Exception:
                    continue
                if amode == "w+":
                    db.insert_multiple(pts)          # w+ starts from an empty file: fill it in the same session
                db.close()
                before = open(path, "rb").read()
                reads = [("all", lambda: db.all()), ("iteration", lambda: list(db)), ("search", lambda: db.search(tf.TagQuery().k == "1")),
                         ("count", lambda: db.count(tf.FieldQuery().a >= 0)), ("len", lambda: len(db)), ("get_timestamps", lambda: db.get_timestamps()),
                         ("get_tag_keys", lambda: db.get_tag_keys()), ("reindex", lambda: quiet(db.reindex)), ("measurement.all", lambda: db.measurement("m1").all()),
                         ("remove matching nothing", lambda: db.remove(tf.TagQuery().k == "nope")), ("contains", lambda: db.contains(tf.TagQuery().k == "2"))]
                for name, fn in reads:
                    try:
                        fn()
                        outcome = "returned"
                    except BaseException as e:  # noqa
                        outcome = type(e).__name__
                    closed_runs += 1
                    after = open(path, "rb").read() if _os.path.exists(path) else None
                    left = sorted(_os.listdir(tdir)), sorted(x for x in _os.listdir(d) if x not in ("db.csv", "tmp"))
                    if (after != before or left != ([], [])) and len(direct_bad) < 4:
                        direct_bad.append({"kind": "failing-input", "operation_kind": f"{name} after close()", "access_mode": amode or "r+", "auto_index": auto,
                                           "why": "a read on a closed database changed the bytes of the database file" if after != before
                                                  else f"files left behind by a read on a closed database: {left}",
                                           "outcome": outcome, "bytes_before": len(before), "bytes_after": len(after or b"")})
                        break
            finally:
                _tempfile.tempdir = old_tmp
    # reads on files AS FOUND: a file whose last row is torn (what a failed append leaves), a file without a final line terminator, a file
    # with a blank line at the end, an empty file - opened in every mode, read with an explicit reindex() and through lazy reindexing:
    # whether the read answers or raises, the bytes stay what they were and nothing is left behind
    found_runs = 0
    good_rows = None
    for shape in ("torn last row", "no final line terminator", "blank last line", "empty", "torn quoted cell"):
        for amode in (None, "r", "w+"):
            for auto in (False, True):
                if amode == "w+":
                    continue                     # w+ empties the file at open, by definition
                d = ck.work / f"found_{found_runs}"
                d.mkdir()
                tdir = d / "tmp"
                tdir.mkdir()
                path = str(d / "db.csv")
                old_tmp = _tempfile.tempdir
                _tempfile.tempdir = str(tdir)
                try:
                    if good_rows is None:
                        with tf.TinyFlux(path) as db0:
                            db0.insert_multiple([tf.Point(time=_dt(2020, 1, 1, tzinfo=_tz.utc) + _td(seconds=i), measurement="m1", tags={"k": str(i), "s": "a,b"},
                                                          fields={"a": float(i)}) for i in range(40)])
                        good_rows = open(path, "rb").read()
                    data = {"torn last row": good_rows + b"2020-01-01T00:01:00+00:00,m1,_tag_k,4", "no final line terminator": good_rows.rstrip(b"\r\n"),
                            "blank last line": good_rows + b"\r\n", "empty": b"", "torn quoted cell": good_rows + b'2020-01-01T00:01:00+00:00,m1,_tag_s,"a,'}[shape]
                    open(path, "wb").write(data)
                    try:
                        db = quiet(lambda: tf.TinyFlux(path, auto_index=auto, **({"access_mode": amode} if amode else {})))
                    except Exception:  # noqa  the constructor may refuse the file (it reads it when auto_index is on); it must not have changed it
                        db = None
                    reads = [] if db is None else [
                        ("reindex", lambda: quiet(db.reindex)), ("count", lambda: db.count(tf.FieldQuery().a >= 0)), ("all", lambda: db.all()), ("len", lambda: len(db)),
                        ("get_tag_keys", lambda: db.get_tag_keys()), ("iteration", lambda: list(db)), ("remove matching nothing", lambda: db.remove(tf.TagQuery().k == "nope")),
                        ("measurement.count", lambda: db.measurement("m1").count(tf.TagQuery().k == "1"))]
                    for name, fn in [("open", lambda: None)] + reads:
                        try:
                            fn()
                            outcome = "returned"
                        except BaseException as e:  # noqa
                            outcome = type(e).__name__
                        found_runs += 1
                        after = open(path, "rb").read() if _os.path.exists(path) else None
                        left = sorted(_os.listdir(tdir)), sorted(x for x in _os.listdir(d) if x not in ("db.csv", "tmp"))
                        if (after != data or left != ([], [])) and len(direct_bad) < 4:
                            direct_bad.append({"kind": "failing-input", "operation_kind": f"{name} on a file found with: {shape}", "access_mode": amode or "r+", "auto_index": auto,
                                               "why": "a read changed the bytes of the database file" if after != data else f"files left behind by a read: {left}",
                                               "outcome": outcome, "bytes_before": len(data), "bytes_after": len(after or b""), "file_tail": repr(data[-60:])})
                            break
                    if db is not None:
                        try:
                            db.close()
                        except Exception:  # noqa
                            pass
                finally:
                    _tempfile.tempdir = old_tmp
    # callables that edit the mapping they are handed IN PLACE and hand it back with nothing changed in the end (pop a key that is not there, set a key
    # to the value it has, add and remove a scratch key): no change, so the file - compact rows - stays byte for byte what it was and 0 is returned
    inplace_runs = 0
    for what, fn in (("pop a missing key", lambda d: (d.pop("scratch", None), d)[1]), ("pop an existing key and hand back the rest (merging never drops a key)", lambda d: (d.pop(next(iter(d))), d)[1]), ("set a key to the value it has", lambda d: (d.update({k: d[k] for k in list(d)[:1]}), d)[1]),
                     ("add and remove a scratch key", lambda d: (d.__setitem__("scratch9", None), d.pop("scratch9"), d)[2]), ("return a fresh equal dict", lambda d: dict(d))):
        for slot in ("tags", "fields"):
            for auto in (True, False):
                d = ck.work / f"inplace_{inplace_runs}"
                d.mkdir()
                tdir = d / "tmp"
                tdir.mkdir()
                path = str(d / "db.csv")
                old_tmp = _tempfile.tempdir
                _tempfile.tempdir = str(tdir)
                try:
                    db = tf.TinyFlux(path, auto_index=auto)
                    for i_ in range(4):
                        db.insert(tf.Point(time=_dt(2020, 1, 1, tzinfo=_tz.utc) + _td(seconds=i_), measurement="m1", tags={"site": "a", "k": str(i_)}, fields={"a": float(i_), "b": 1.0}),
                                  compact_key_prefixes=True)
                    before = open(path, "rb").read()
                    try:
                        out = db.update(tf.TagQuery().site == "a", **{slot: fn})
                    except Exception as e:  # noqa
                        out = type(e).__name__
                    inplace_runs += 1
                    after = open(path, "rb").read()
                    left = sorted(_os.listdir(tdir)), sorted(x for x in _os.listdir(d) if x not in ("db.csv", "tmp"))
                    if (after != before or left != ([], []) or out != 0) and len(direct_bad) < 4:
                        direct_bad.append({"kind": "failing-input", "operation_kind": f"update({slot}=<callable: {what}>) on compact rows", "auto_index": auto,
                                           "why": "an update that changes nothing changed the bytes of the database file" if after != before
                                                  else (f"an update that changes nothing returned {out!r}" if out != 0 else f"files left behind: {left}"),
                                           "outcome": out, "bytes_before": len(before), "bytes_after": len(after)})
                    db.close()
                finally:
                    _tempfile.tempdir = old_tmp
    # iterators that are started and NOT exhausted (it = iter(db); next(it) - islice, zip, a `for` left by break): whatever an iteration needs,
    # nothing is in the temp or database directory once the call that produced the value has returned, and the file is as it was
    partial_runs = 0
    for what in ("iter(db)", "iter(measurement)", "two iterators", "search result"):
        for auto in (True, False):
            d = ck.work / f"partial_{partial_runs}"
            d.mkdir()
            tdir = d / "tmp"
            tdir.mkdir()
            path = str(d / "db.csv")
            old_tmp = _tempfile.tempdir
            _tempfile.tempdir = str(tdir)
            try:
                db = tf.TinyFlux(path, auto_index=auto)
                db.insert_multiple([tf.Point(time=_dt(2020, 1, 1, tzinfo=_tz.utc) + _td(seconds=i), measurement="m1", tags={"k": str(i)}, fields={"a": float(i)})
                                    for i in range(6)])
                before = open(path, "rb").read()
                keep = []
                if what == "iter(db)":
                    it = iter(db)
                    keep += [it, next(it), next(it)]
                elif what == "iter(measurement)":
                    it = iter(db.measurement("m1"))
                    keep += [it, next(it)]
                elif what == "two iterators":
                    a_, b_ = iter(db), iter(db.measurement("m1"))
                    keep += [a_, b_, next(a_), next(b_)]
                else:
                    keep.append(db.search(tf.TagQuery().k == "1"))
                partial_runs += 1
                after = open(path, "rb").read()
                left = sorted(_os.listdir(tdir)), sorted(x for x in _os.listdir(d) if x not in ("db.csv", "tmp"))
                if (after != before or left != ([], [])) and len(direct_bad) < 4:
                    direct_bad.append({"kind": "failing-input", "operation_kind": f"{what}: started, not exhausted, still referenced", "auto_index": auto,
                                       "why": "a started iteration changed the bytes of the database file" if after != before else f"files left behind while a started iterator is alive: {left}",
                                       "bytes_before": len(before), "bytes_after": len(after)})
                del keep
                db.close()
            finally:
                _tempfile.tempdir = old_tmp
    # "once it has returned or RAISED" includes what is not an Exception: a callable or a query test interrupted by KeyboardInterrupt,
    # ending the program with SystemExit, or closed as a generator (GeneratorExit) - nothing may stay behind and the file is as it was
    interrupted_runs = 0
    for exc in (KeyboardInterrupt, SystemExit, GeneratorExit):
        for where in ("update callable", "update_all callable on a later point", "remove query test"):
            d = ck.work / f"intr_{exc.__name__}_{where.split()[0]}_{interrupted_runs}"
            d.mkdir()
            tdir = d / "tmp"
            tdir.mkdir()
            path = str(d / "db.csv")
            old_tmp = _tempfile.tempdir
            _tempfile.tempdir = str(tdir)
            try:
                db = tf.TinyFlux(path)
                db.insert_multiple([tf.Point(time=_dt(2020, 1, 1, tzinfo=_tz.utc) + _td(seconds=i), measurement="m1", tags={"k": str(i)}, fields={"a": float(i)})
                                    for i in range(4)])
                before = open(path, "rb").read()
                n_calls = [0]

                def boom(x, _n=n_calls, _exc=exc, _late=("later" in where)):
                    _n[0] += 1
                    if not _late or _n[0] >= 3:
                        raise _exc()
                    return {"z": "1"} if isinstance(x, dict) else x
                try:
                    if where == "update callable":
                        db.update(tf.TagQuery().k == "1", tags=boom)
                    elif where.startswith("update_all"):
                        db.update_all(tags=boom)
                    else:
                        db.remove(tf.FieldQuery().a.test(lambda v: boom(v) and False))
                    outcome = "returned"
                except BaseException as e:  # noqa
                    outcome = type(e).__name__
                interrupted_runs += 1
                after = open(path, "rb").read()
                left = sorted(_os.listdir(tdir)), sorted(x for x in _os.listdir(d) if x not in ("db.csv", "tmp"))
                if (after != before or left != ([], [])) and len(direct_bad) < 4:
                    direct_bad.append({"kind": "failing-input", "operation_kind": f"{where} raising {exc.__name__}", "access_mode": "r+", "auto_index": True,
                                       "why": f"files left behind after the operation was interrupted: {left}" if left != ([], []) else
                                              "an interrupted operation changed the bytes of the database file",
                                       "outcome": outcome, "bytes_before": len(before), "bytes_after": len(after)})
                try:
                    db.close()
                except Exception:  # noqa
                    pass
            finally:
                _tempfile.tempdir = old_tmp
    # the access-mode gates with the interpreter started as `python -O` (assert statements stripped): writes on a read-only database and reads
    # on an append-only one must still raise and leave the file and both directories as they were
    import shutil as _shutil
    odir = ck.work / "optimized"
    _shutil.rmtree(odir, ignore_errors=True)
    odir.mkdir(parents=True)
    rc_o, out_o = sh([PY, "-O", str(VERIF / "harness" / "c15_optimized.py"), str(odir)], env=impl_env(), timeout=300)
    _shutil.rmtree(odir, ignore_errors=True)
    try:
        found_o = json.loads([l for l in out_o.splitlines() if l.startswith("[")][-1])
    except Exception:  # noqa
        found_o = [{"operation": "python -O child", "raised": f"the child did not finish: {out_o[-300:]}"}]
    stats["python_O_gate_findings"] = len(found_o)
    for x in found_o[:2]:
        if len(direct_bad) < 6:
            direct_bad.append({"kind": "failing-input", "operation_kind": f"{x.get('operation')} under python -O", "access_mode": x.get("access_mode"), "auto_index": x.get("auto_index"),
                               "why": ("a write on a database opened read-only (or a read on an append-only one) did not raise" if x.get("raised") is None else
                                       f"the call raised {x.get('raised')} but the file or the directories changed") + " when the interpreter runs with -O",
                               "detail": x, "all": [f"{y.get('access_mode')}/{y.get('operation')}" for y in found_o]})
    # tie: the model's plan for the operation is a pure plan exactly for the pure kinds, the completed script leaves a clean
    # world, and its disk is what the file decodes to
    f = ck.work / "cases_c15.v"
    lines = [iotie.COQ_HEAD,
             "Definition is_pure (p : plan) : bool := match p with PlNone | PlRead | PlTempOnly _ => true | _ => false end.",
             "Definition ok (auto : bool) (hist : list op) (o : op) (pure : bool) (after : list point) : bool :=",
             "  let s := before auto hist in let s' := fst (step twinE twinC csv_norm s o) in",
             "  let w := final_world auto hist o in",
             "  (if pure then is_pure (plan_of o (st_rows s) (st_rows s')) else true)",
             "  && rows_eqb (w_disk w) after && Nat.eqb (w_leftover w) 0 && match w_temp w with None => true | _ => false end.",
             "Definition results : list bool := ["]
    lines.append(";\n".join(f"ok {M.cbool(a)} {M.clist(h, M.cop)} {M.cop(o)} {M.cbool(p)} {M.clist(after, M.cpoint)}" for a, h, o, p, after in coq_cases))
    lines.append("].\nEval vm_compute in map (fun b : bool => if b then 1 else 0) results.")
    f.write_text("\n".join(lines) + "\n")
    rc, out = coqc_file(f, timeout=1200)
    nums = parse_nat_list(out) if rc == 0 else None
    if not b["ok"]:
        ck.violation({"kind": "proof-broken", "what_no_longer_checks": f"Prop_C15.v {b['theorems']}", "log": b["log"][-1500:],
                      "forbidden": b["forbidden"]}, no_input=True)
    if direct_bad:
        ck.violation(dict(direct_bad[0], more=direct_bad[1:]))
    elif nums is None:
        ck.violation({"kind": "model-evaluation-failed", "what_no_longer_checks": "cases_c15.v", "log": out[-800:]}, no_input=True)
    elif 0 in nums:
        i = nums.index(0)
        a, h, o, p, after = coq_cases[i]
        ck.violation({"kind": "correspondence-broken",
                      "what_no_longer_checks": "I/O-script correspondence: IO.v plan/script of the operation (theorems C15_*) vs what the implementation left on disk",
                      "history": h, "op": o, "auto_index": a, "pure_kind": p, "file_decodes_to": after}, no_input=True)
    ck.cov = {
        "translator": dict(IO_TRANSLATOR_COV, refused=refused),
        "obligations": b["obligations"], "discharged": b["discharged"],
        "checker_cmd": "make -C /verif/coq Prop_C15.vo IO.vo Run.vo; Print Assumptions per theorem; plans and scripts evaluated with vm_compute",
        "trusted_base": TRUSTED_BASE_COMMON + [
            "hand model IO.v (plans and scripts of every operation, temp-file accounting) and DB.v, tied by correspondence",
            "run-time proxies harness/ioproxy.py; byte comparison of the database file and listings of a private temp directory and the database directory",
            "Print Assumptions: " + json.dumps(b["assumptions"])],
        "theorems": b["theorems"], "forbidden_tokens_found": b["forbidden"],
        "evaluations": n + fault_runs + closed_runs + interrupted_runs + found_runs, "fault_injections": fault_runs, "reads_on_a_closed_database": closed_runs, "reads_on_files_as_found": found_runs, "started_iterators_kept_alive": partial_runs, "in_place_editing_callables_without_net_change": inplace_runs, "operations_interrupted_by_a_non_Exception": interrupted_runs, "distinct_nontrivial": len(seen),
        "rule": "sampled (history, operation) pairs on a CSV database reopened in access modes r+ / r / a / w+; operation kinds: reads, getters, "
                "reindex, len/iteration, handle reads, removals and updates that match or change nothing, and (for the leftover rule and read-only modes) real "
                "writes including ones that raise; reads / getters / reindex / a no-match removal on a database object after close() in every access mode; checked directly: bytes of the file before/after, listing of a private temp directory (every second case "
                "on another filesystem) and of the database directory before/after; distinct by (kind, mode, operation)",
        "cases_by_kind_and_mode": stats, "temp_dir_on_other_filesystem_available": iotie.other_fs_tmp(str(ck.work / "x")).startswith("/dev/shm"),
        "traces_validated_against_impl": sum(nums) if nums else 0, "model_cases": len(coq_cases),
        "samples": [{"kind": kinds[0], "op": make_op(dbgen.Gen(seed), kinds[0])}],
    }
    return ck.finish(level="proof", extra_assumptions=["python -O (asserts off) is outside the model: the access-mode gates are assert statements"])
