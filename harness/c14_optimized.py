"""c14_optimized.py: run with `python -O` (asserts stripped) against the tree on PYTHONPATH: the validation of ill-typed values must not be
written as (or inside) an assert statement - it is part of the library's behaviour, whatever the interpreter's optimisation level.
Prints a JSON list of findings."""
import json
import sys
from datetime import datetime, timezone

import tinyflux as tf
from tinyflux.storages import MemoryStorage

T0 = datetime(2020, 1, 1, tzinfo=timezone.utc)
bad = []


def rejected(fn):
    try:
        fn()
    except (ValueError, TypeError):
        return True
    except Exception as e:  # noqa
        return f"OTHER {type(e).__name__}"
    return False


def stored_ill_typed(db):
    out = []
    for p in db.all():
        if not isinstance(p.measurement, str) or not isinstance(p.time, datetime):
            out.append(repr(p))
        for k, v in p.tags.items():
            if not isinstance(k, str) or not (v is None or isinstance(v, str)):
                out.append(f"tag {k!r}: {v!r}")
        for k, v in p.fields.items():
            if not isinstance(k, str) or not (v is None or (isinstance(v, (int, float)) and not isinstance(v, bool))):
                out.append(f"field {k!r}: {v!r}")
    return out


cases = [("tags", {"a": 1}), ("tags", {"a": 1.5}), ("tags", {5: "x"}), ("tags", {"a": True}), ("fields", {"f": "x"}), ("fields", {"f": True}), ("fields", {5: 1.0}),
         ("measurement", 5), ("time", "2020-01-01")]
for slot, v in cases:
    for how in ("Point", "setattr", "update", "update_all", "measurement.update", "update callable"):
        db = tf.TinyFlux(storage=MemoryStorage)
        db.insert(tf.Point(time=T0, measurement="m", tags={"a": "x"}, fields={"f": 1.0}))
        q = tf.TagQuery().a.exists()
        if how == "Point":
            r = rejected(lambda: tf.Point(**{slot: v}))
        elif how == "setattr":
            p = tf.Point(time=T0)
            r = rejected(lambda: setattr(p, slot, v))
        elif how == "update":
            r = rejected(lambda: db.update(q, **{slot: v}))
        elif how == "update_all":
            r = rejected(lambda: db.update_all(**{slot: v}))
        elif how == "measurement.update":
            r = rejected(lambda: db.measurement("m").update(q, **{slot: v}))
        else:
            r = rejected(lambda: db.update(q, **{slot: (lambda old, _v=v: _v)}))
        ill = stored_ill_typed(db)
        if r is not True or ill:
            bad.append({"optimisation": sys.flags.optimize, "entry_point": how, "slot": slot, "value": repr(v), "rejected": r, "stored": ill[:3]})
r = rejected(lambda: tf.TinyFlux(storage=MemoryStorage).insert("not a point"))
if r is not True:
    bad.append({"optimisation": sys.flags.optimize, "entry_point": "insert", "value": "'not a point'", "rejected": r})
print(json.dumps(bad))
