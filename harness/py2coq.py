#!/usr/bin/env python3
"""Fail-closed translator: tinyflux/utils.py (find_eq/lt/le/gt/ge) -> coq/gen/UtilsGen.v

The five helpers are straight-line code over a tiny fragment of Python.  The
translator accepts exactly that fragment and refuses (raises Refuse) anything
else, so that a construct it does not understand is never silently given a
meaning.  Semantics chosen for the fragment (all visible in the output):

  * Python ints are Coq Z; `len(l)` is `py_len l`.
  * `l[i]` is `py_index l i : option T` - negative indices wrap as in Python and
    an out-of-range index is None (= IndexError), never a default value.
  * `a and b` short-circuits (`eand`); a raising sub-expression raises (`econd`
    maps it to the visible result `Raise`).
  * truthiness of an int `if i:` is `i != 0`.
  * `==`/`!=` between ints is Z equality; between list elements it is the
    section parameter `eqb` (Python `==` on the element type); `<` would be `ltb`.
  * `bisect.bisect_left/right(l, x)` are the modelled functions of Bisect.v
    instantiated with `ltb`.
  * falling off the end of the function is `return None`.

Usage: py2coq.py <path/to/utils.py> <out.v>     exit 0 ok, 3 = refused
"""
import ast
import sys

FUNCS = ["find_eq", "find_lt", "find_le", "find_gt", "find_ge"]


class Refuse(Exception):
    pass


class Tr:
    def __init__(self, fn: ast.FunctionDef):
        self.fn = fn
        args = [a.arg for a in fn.args.args]
        if len(args) != 2 or fn.args.vararg or fn.args.kwarg or fn.args.kwonlyargs or fn.args.defaults:
            raise Refuse(f"{fn.name}: unexpected signature")
        self.lst, self.x = args
        self.env = {self.lst: "list", self.x: "elt"}

    # ---- expressions: return (coq_term_of_type_option_A, pytype) -------------
    def pure(self, e):
        """Expression that cannot raise: returns (coq term of type A, type)."""
        if isinstance(e, ast.Name):
            if e.id not in self.env:
                raise Refuse(f"{self.fn.name}: unknown name {e.id}")
            return e.id, self.env[e.id]
        if isinstance(e, ast.Constant) and isinstance(e.value, int) and not isinstance(e.value, bool):
            return f"({e.value})%Z", "int"
        if isinstance(e, ast.Call) and isinstance(e.func, ast.Name) and e.func.id == "len" and len(e.args) == 1 and not e.keywords:
            t, ty = self.pure(e.args[0])
            if ty != "list":
                raise Refuse("len of non-list")
            return f"(py_len {t})", "int"
        if isinstance(e, ast.BinOp) and isinstance(e.op, (ast.Add, ast.Sub)):
            a, ta = self.pure(e.left)
            b, tb = self.pure(e.right)
            if ta != "int" or tb != "int":
                raise Refuse("arithmetic on non-int")
            op = "+" if isinstance(e.op, ast.Add) else "-"
            return f"({a} {op} {b})%Z", "int"
        if isinstance(e, ast.Call) and isinstance(e.func, ast.Attribute) and isinstance(e.func.value, ast.Name) \
                and e.func.value.id == "bisect" and e.func.attr in ("bisect_left", "bisect_right") \
                and len(e.args) == 2 and not e.keywords:
            l, tl = self.pure(e.args[0])
            x, tx = self.pure(e.args[1])
            if tl != "list" or tx != "elt":
                raise Refuse("bisect call on unexpected arguments")
            return f"({e.func.attr} ltb {l} {x})", "int"
        raise Refuse(f"{self.fn.name}: unsupported pure expression {ast.dump(e)}")

    def exc(self, e):
        """Possibly-raising expression: returns (coq term of type option A, type)."""
        if isinstance(e, ast.Subscript):
            l, tl = self.pure(e.value)
            i, ti = self.pure(e.slice)
            if tl != "list" or ti != "int":
                raise Refuse("subscript of unexpected types")
            return f"(py_index {l} {i})", "elt"
        t, ty = self.pure(e)
        return f"(Some {t})", ty

    def cond(self, e):
        """Boolean test: returns coq term of type option bool."""
        if isinstance(e, ast.BoolOp) and isinstance(e.op, (ast.And, ast.Or)):
            comb = "eand" if isinstance(e.op, ast.And) else "eor"
            terms = [self.cond(v) for v in e.values]
            out = terms[-1]
            for t in reversed(terms[:-1]):
                out = f"({comb} {t} (fun _ => {out}))"
            return out
        if isinstance(e, ast.UnaryOp) and isinstance(e.op, ast.Not):
            return f"(ebind {self.cond(e.operand)} (fun b => Some (negb b)))"
        if isinstance(e, ast.Compare) and len(e.ops) == 1:
            a, ta = self.exc(e.left)
            b, tb = self.exc(e.comparators[0])
            op = e.ops[0]
            if ta != tb:
                raise Refuse("comparison of different types")
            if ta == "int":
                prim = {ast.Eq: "Z.eqb {0} {1}", ast.NotEq: "negb (Z.eqb {0} {1})", ast.Lt: "Z.ltb {0} {1}",
                        ast.LtE: "Z.leb {0} {1}", ast.Gt: "Z.ltb {1} {0}", ast.GtE: "Z.leb {1} {0}"}
            elif ta == "elt":
                prim = {ast.Eq: "eqb {0} {1}", ast.NotEq: "negb (eqb {0} {1})", ast.Lt: "ltb {0} {1}",
                        ast.Gt: "ltb {1} {0}"}
            else:
                raise Refuse("comparison on unsupported type")
            if type(op) not in prim:
                raise Refuse(f"unsupported comparison {type(op).__name__} on {ta}")
            body = prim[type(op)].format("u", "v")
            return f"(ebind {a} (fun u => ebind {b} (fun v => Some ({body}))))"
        # truthiness of an int
        t, ty = self.exc(e)
        if ty == "int":
            return f"(ebind {t} (fun u => Some (negb (Z.eqb u 0))))"
        raise Refuse(f"{self.fn.name}: unsupported condition {ast.dump(e)}")

    # ---- statements --------------------------------------------------------
    def ret(self, e):
        if e is None or (isinstance(e, ast.Constant) and e.value is None):
            return "Ret None"
        t, ty = self.pure(e)
        if ty != "int":
            raise Refuse("returning a non-int")
        return f"Ret (Some {t})"

    def block(self, stmts):
        if not stmts:
            return "Ret None"          # falling off the end
        s, rest = stmts[0], stmts[1:]
        if isinstance(s, ast.Expr) and isinstance(s.value, ast.Constant) and isinstance(s.value.value, str):
            return self.block(rest)    # docstring
        if isinstance(s, ast.Assign) and len(s.targets) == 1 and isinstance(s.targets[0], ast.Name):
            name = s.targets[0].id
            if name in self.env:
                raise Refuse(f"{self.fn.name}: re-assignment of {name}")
            t, ty = self.pure(s.value)
            self.env[name] = ty
            return f"let {name} := {t} in\n  {self.block(rest)}"
        if isinstance(s, ast.Return):
            return self.ret(s.value)
        if isinstance(s, ast.If):
            c = self.cond(s.test)
            saved = dict(self.env)
            th = self.block(list(s.body) + ([] if self._returns(s.body) else rest))
            self.env = dict(saved)
            el = self.block(list(s.orelse) + ([] if self._returns(s.orelse) else rest)) if s.orelse else self.block(rest)
            self.env = saved
            return f"econd {c}\n    ({th})\n    ({el})"
        raise Refuse(f"{self.fn.name}: unsupported statement {type(s).__name__}")

    @staticmethod
    def _returns(stmts):
        return bool(stmts) and isinstance(stmts[-1], ast.Return)

    def run(self):
        body = self.block(list(self.fn.body))
        return (f"Definition {self.fn.name} ({self.lst} : list T) ({self.x} : T) : res :=\n  {body}.\n")


def translate(src: str):
    tree = ast.parse(src)
    out, refused = {}, {}
    fns = {n.name: n for n in tree.body if isinstance(n, ast.FunctionDef)}
    for name in FUNCS:
        if name not in fns:
            refused[name] = "function not found"
            continue
        try:
            out[name] = Tr(fns[name]).run()
        except Refuse as r:
            refused[name] = str(r)
    return out, refused


HEADER = """(* GENERATED on every run by harness/py2coq.py from tinyflux/utils.py - do not edit.
   The C18 theorems (Prop_C18.v) are stated about these definitions. *)
From Coq Require Import List ZArith Bool.
From TF Require Import Bisect.
Section UtilsGen.
Context {T : Type}.
Variable ltb : T -> T -> bool.   (* Python  a < b   on list elements *)
Variable eqb : T -> T -> bool.   (* Python  a == b  on list elements *)

"""


def main():
    src_path, out_path = sys.argv[1], sys.argv[2]
    defs, refused = translate(open(src_path).read())
    with open(out_path, "w") as f:
        f.write(HEADER)
        for name in FUNCS:
            if name in defs:
                f.write(defs[name] + "\n")
        f.write("End UtilsGen.\n")
    for k, v in refused.items():
        print(f"REFUSED {k}: {v}")
    return 3 if refused else 0


if __name__ == "__main__":
    sys.exit(main())
