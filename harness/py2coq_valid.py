#!/usr/bin/env python3
"""Fail-closed translator: tinyflux/point.py (validate_tags, validate_fields) -> coq/gen/ValidGen.v

The two validators are straight-line checks over a tiny fragment of Python; exactly that fragment is
accepted, anything else is refused (exit 3) and never given a meaning silently.  Semantics (all visible
in the output, the primitives are defined in coq/ValidSem.v over Valid.pyval):

  * the function returns True (accepted) when it reaches `return` / its end, False when it raises;
  * `isinstance(x, C)` / `isinstance(x, (C1, C2))` is `isinst`, with Python's class lattice for the
    classes that occur (bool is a subclass of int; Mapping = dict);
  * `x is None` is `is_none`; `not`, `and`, `or` are boolean;
  * `all(<cond> for i in <iterable>)` is `forallb`; iterating a mapping, or `.keys()`, yields its keys,
    `.values()` its values; iterating anything that is not a mapping is only reached after the
    isinstance(…, Mapping) guard (the primitives return [] there);
  * `for i in <iterable>:` with a body of `if c: continue` / `if c: raise …` statements is `forallb` over
    the element check (continue = element accepted, raise = rejected, falling through = accepted).

Usage: py2coq_valid.py <path/to/point.py> <out.v>
"""
import ast
import sys

FUNCS = ["validate_tags", "validate_fields"]
CLASSES = {"str": "CStr", "bool": "CBool", "int": "CInt", "float": "CFloat", "Mapping": "CMapping", "datetime": "CDatetime"}


class Refuse(Exception):
    pass


def _san(t):
    """a refusal reason inside a Coq comment: no comment brackets, no quotes (a quote starts a string even inside a comment)"""
    return t.replace("*", "x").replace("(", "[").replace(")", "]").replace('"', "'")


class Tr:
    def __init__(self, fn):
        self.fn = fn
        if len(fn.args.args) != 1 or fn.args.vararg or fn.args.kwarg or fn.args.kwonlyargs or fn.args.defaults:
            raise Refuse(f"{fn.name}: unexpected signature")
        self.arg = fn.args.args[0].arg
        self.vars = {self.arg}

    def name(self, e):
        if isinstance(e, ast.Name) and e.id in self.vars:
            return e.id
        raise Refuse(f"{self.fn.name}: unsupported value expression {ast.dump(e)}")

    def classes(self, e):
        if isinstance(e, ast.Name) and e.id in CLASSES:
            return [CLASSES[e.id]]
        if isinstance(e, ast.Tuple) and all(isinstance(x, ast.Name) and x.id in CLASSES for x in e.elts):
            return [CLASSES[x.id] for x in e.elts]
        raise Refuse(f"{self.fn.name}: unsupported class expression {ast.dump(e)}")

    def iterable(self, e):
        if isinstance(e, ast.Name):
            return f"(pv_keys {self.name(e)})"
        if isinstance(e, ast.Call) and isinstance(e.func, ast.Attribute) and not e.args and not e.keywords and e.func.attr in ("keys", "values"):
            return f"(pv_{e.func.attr} {self.name(e.func.value)})"
        raise Refuse(f"{self.fn.name}: unsupported iterable {ast.dump(e)}")

    def cond(self, e):
        if isinstance(e, ast.UnaryOp) and isinstance(e.op, ast.Not):
            return f"(negb {self.cond(e.operand)})"
        if isinstance(e, ast.BoolOp):
            op = "andb" if isinstance(e.op, ast.And) else "orb"
            out = self.cond(e.values[-1])
            for v in reversed(e.values[:-1]):
                out = f"({op} {self.cond(v)} {out})"
            return out
        if isinstance(e, ast.Compare) and len(e.ops) == 1 and isinstance(e.ops[0], (ast.Is, ast.IsNot)) \
                and isinstance(e.comparators[0], ast.Constant) and e.comparators[0].value is None:
            t = f"(is_none {self.name(e.left)})"
            return t if isinstance(e.ops[0], ast.Is) else f"(negb {t})"
        if isinstance(e, ast.Call) and isinstance(e.func, ast.Name) and e.func.id == "isinstance" and len(e.args) == 2 and not e.keywords:
            cs = self.classes(e.args[1])
            x = self.name(e.args[0])
            out = f"(isinst {cs[-1]} {x})"
            for c in reversed(cs[:-1]):
                out = f"(orb (isinst {c} {x}) {out})"
            return out
        if isinstance(e, ast.Call) and isinstance(e.func, ast.Name) and e.func.id == "all" and len(e.args) == 1 and not e.keywords \
                and isinstance(e.args[0], ast.GeneratorExp) and len(e.args[0].generators) == 1:
            g = e.args[0].generators[0]
            if g.ifs or g.is_async or not isinstance(g.target, ast.Name):
                raise Refuse("unsupported generator")
            it = self.iterable(g.iter)
            v = g.target.id
            if v in self.vars:
                raise Refuse("shadowing")
            self.vars.add(v)
            body = self.cond(e.args[0].elt)
            self.vars.discard(v)
            return f"(forallb (fun {v} : pyval => {body}) {it})"
        raise Refuse(f"{self.fn.name}: unsupported condition {ast.dump(e)}")

    def elem_body(self, stmts):
        """body of a for loop -> boolean 'this element is accepted'"""
        if not stmts:
            return "true"
        s, rest = stmts[0], stmts[1:]
        if isinstance(s, ast.If) and not s.orelse and len(s.body) == 1:
            c = self.cond(s.test)
            if isinstance(s.body[0], ast.Continue):
                return f"(if {c} then true else {self.elem_body(rest)})"
            if isinstance(s.body[0], ast.Raise):
                return f"(if {c} then false else {self.elem_body(rest)})"
        raise Refuse(f"{self.fn.name}: unsupported loop statement {type(s).__name__}")

    def block(self, stmts):
        if not stmts:
            return "true"
        s, rest = stmts[0], stmts[1:]
        if isinstance(s, ast.Expr) and isinstance(s.value, ast.Constant) and isinstance(s.value.value, str):
            return self.block(rest)
        if isinstance(s, ast.Return) and s.value is None:
            return "true"
        if isinstance(s, ast.If) and not s.orelse and len(s.body) == 1 and isinstance(s.body[0], ast.Raise):
            return f"if {self.cond(s.test)} then false else\n  {self.block(rest)}"
        if isinstance(s, ast.For) and not s.orelse and isinstance(s.target, ast.Name):
            it = self.iterable(s.iter)
            v = s.target.id
            if v in self.vars:
                raise Refuse("shadowing")
            self.vars.add(v)
            body = self.elem_body(list(s.body))
            self.vars.discard(v)
            return f"if negb (forallb (fun {v} : pyval => {body}) {it}) then false else\n  {self.block(rest)}"
        raise Refuse(f"{self.fn.name}: unsupported statement {type(s).__name__}")

    def run(self):
        return f"Definition {self.fn.name} ({self.arg} : pyval) : bool :=\n  {self.block(list(self.fn.body))}.\n"


def translate(src):
    tree = ast.parse(src)
    fns = {n.name: n for n in tree.body if isinstance(n, ast.FunctionDef)}
    out, refused = {}, {}
    for name in FUNCS:
        if name not in fns:
            refused[name] = "function not found"
            continue
        try:
            out[name] = Tr(fns[name]).run()
        except Refuse as r:
            refused[name] = str(r)
    return out, refused


HEADER = """(* GENERATED on every run by harness/py2coq_valid.py from tinyflux/point.py - do not edit.
   proofs/ValidGenP.v proves these equal to the hand model Valid.validate_tags / validate_fields,
   so the C14 theorems are re-checked against what the source says now. *)
From Coq Require Import List Bool.
From TF Require Import Base Valid ValidSem.
Import ListNotations.

"""


def main():
    src_path, out_path = sys.argv[1], sys.argv[2]
    defs, refused = translate(open(src_path).read())
    text = HEADER + "".join(defs[n] + "\n" for n in FUNCS if n in defs)
    for n in FUNCS:
        if n not in defs:
            # refused: fall back to the hand model so that the development still builds; the check reports the refusal
            text += f"Definition {n} (v : pyval) : bool := Valid.{n} v.   (* REFUSED by the translator: {_san(refused[n][:80])} *)\n\n"
    try:
        old = open(out_path).read()
    except FileNotFoundError:
        old = None
    if old != text:
        open(out_path, "w").write(text)
    for k, v in refused.items():
        print(f"REFUSED {k}: {v}")
    return 3 if refused else 0


if __name__ == "__main__":
    sys.exit(main())
