#!/usr/bin/env python3
"""Fail-closed translator: tinyflux/database.py (class TinyFlux: the ACCESS GATES of every method and what the method does to storage) -> coq/gen/GatesGen.v

For every method of class TinyFlux the table holds: its gates - the decorators read_op / write_op / append_op / temp_storage_op, each READ from the
decorator's own definition (`if not self._storage.can_x: raise ..` first; `_init_temp_storage()` then `try: .. finally: _cleanup_temp_storage()`), or the
same capability test written as the first statement of the body -, the storage calls its body makes DIRECTLY (`self._storage.append(..)` with / without
`temporary=True`, `_swap_temp_with_primary()`, `reset()` / `_write(..)`, reading: iteration, `read()`, `len()`), and the methods of the object it calls.
proofs/GatesGenP.v closes the effects over the calls inside Coq and proves, for this table (a finite domain, decided by computation): every public method
that can replace stored contents is behind the write gate, every one that can append behind the append (or write) gate, every one that stages or swaps runs
inside temp_storage_op - the source-level half of C15's "any write on a database opened read-only must raise" and "nothing is left behind".

Refused (exit 3; harness/GatesGen.fallback.v stands in): a decorator this translator cannot read, a storage call it does not know, storage reached through
an alias (`s = self._storage`), getattr / setattr on self.
Usage: py2coq_gates.py <path/to/database.py> <out.v>
"""
import ast
import os
import sys

FALLBACK_FILE = os.path.join(os.path.dirname(os.path.abspath(__file__)), "GatesGen.fallback.v")
CAP = {"can_read": "GRead", "can_write": "GWrite", "can_append": "GAppend"}
# storage attribute -> effect (None: no effect on the stored rows that the rules speak about)
STORAGE_CALLS = {"_swap_temp_with_primary": "ESwap", "reset": "EReset", "_write": "EReset", "read": "ERead", "close": None,
                 "_deserialize_measurement": None, "_deserialize_storage_item": None, "_deserialize_timestamp": None, "_serialize_point": None,
                 "_init_temp_storage": None, "_cleanup_temp_storage": None}
STORAGE_ATTRS = {"can_read", "can_write", "can_append", "_initially_empty", "latest_time"}


class Refuse(Exception):
    pass


def U(n):
    return ast.unparse(n)


def is_storage(e):
    return isinstance(e, ast.Attribute) and e.attr == "_storage" and isinstance(e.value, ast.Name) and e.value.id == "self"


def cap_test(st):
    """`if not self._storage.can_x: raise ..` -> gate"""
    if isinstance(st, ast.If) and not st.orelse and isinstance(st.test, ast.UnaryOp) and isinstance(st.test.op, ast.Not) \
            and isinstance(st.test.operand, ast.Attribute) and is_storage(st.test.operand.value) and st.test.operand.attr in CAP \
            and len(st.body) == 1 and isinstance(st.body[0], ast.Raise):
        return CAP[st.test.operand.attr]
    return None


def strip(body):
    return [s for s in body if not (isinstance(s, ast.Expr) and isinstance(s.value, ast.Constant) and isinstance(s.value.value, str))]


def read_decorator(fn):
    """a module-level decorator -> list of gates it stands for"""
    inner = [n for n in fn.body if isinstance(n, ast.FunctionDef)]
    if len(inner) != 1 or U(strip(fn.body)[-1]) != f"return {inner[0].name}":
        raise Refuse(f"decorator {fn.name}: not `def op(..): ..; return op`")
    body = strip(inner[0].body)
    gates = []
    if body and cap_test(body[0]):
        gates.append(cap_test(body[0]))
        body = body[1:]
    txt = [U(s) for s in body]
    if txt == ["return method(self, *args, **kwargs)"]:
        return gates
    if txt == ["if self._auto_index and (not self._index.valid):\n    self.reindex()", "return method(self, *args, **kwargs)"] and gates == ["GRead"]:
        return gates
    if len(body) == 3 and txt[0] == "self._storage._init_temp_storage()" and isinstance(body[1], ast.Try) and txt[2] == "return rst" \
            and [U(s) for s in strip(body[1].body)] == ["rst = method(self, *args, **kwargs)"] and not body[1].handlers and not body[1].orelse \
            and [U(s) for s in strip(body[1].finalbody)] == ["self._storage._cleanup_temp_storage()"]:
        return gates + ["GTemp"]
    raise Refuse(f"decorator {fn.name}: body not understood: {txt[:2]}")


def effects_and_calls(fn, methods, is_storage=None, owner="self"):
    is_storage = is_storage or globals()["is_storage"]
    eff, calls = [], []
    for n in ast.walk(fn):
        if isinstance(n, (ast.Assign, ast.AnnAssign, ast.NamedExpr)):
            v = n.value
            if v is not None and is_storage(v):
                raise Refuse(f"{fn.name}: the storage object bound to another name (`{U(n)[:50]}`)")
        if isinstance(n, ast.Call) and isinstance(n.func, ast.Name) and n.func.id in ("getattr", "setattr") and n.args and U(n.args[0]) == "self":
            raise Refuse(f"{fn.name}: {n.func.id} on self")
        if isinstance(n, ast.Call) and isinstance(n.func, ast.Attribute) and is_storage(n.func.value):
            a = n.func.attr
            if a == "append":
                temp = [k for k in n.keywords if k.arg == "temporary"]
                if len(n.args) > 1 or any(k.arg not in ("temporary",) for k in n.keywords) or (temp and not isinstance(temp[0].value, ast.Constant)):
                    raise Refuse(f"{fn.name}: `{U(n)[:60]}`")
                eff.append("EStage" if temp and temp[0].value.value is True else "EAppend")
            elif a in STORAGE_CALLS:
                if STORAGE_CALLS[a]:
                    eff.append(STORAGE_CALLS[a])
            else:
                raise Refuse(f"{fn.name}: unknown storage call `{a}`")
        elif isinstance(n, ast.Attribute) and is_storage(n.value):
            if n.attr not in STORAGE_ATTRS and n.attr not in STORAGE_CALLS and n.attr != "append":
                raise Refuse(f"{fn.name}: unknown storage attribute `{n.attr}`")
        if isinstance(n, (ast.For, ast.comprehension)) and is_storage(n.iter):
            eff.append("ERead")
        if isinstance(n, ast.Call) and isinstance(n.func, ast.Name) and n.func.id in ("len", "iter", "list") and len(n.args) == 1 and is_storage(n.args[0]):
            eff.append("ERead")
        if isinstance(n, ast.Call) and isinstance(n.func, ast.Attribute) and U(n.func.value) == owner:
            if n.func.attr in methods:
                calls.append(n.func.attr)
            elif owner != "self":
                raise Refuse(f"{fn.name}: `{U(n.func)}` is no method of TinyFlux")
        # passing the storage object itself somewhere: Index.build(iterable over storage) is a read
        if isinstance(n, ast.Call):
            for a in list(n.args) + [k.value for k in n.keywords]:
                if is_storage(a) and not (isinstance(n.func, ast.Name) and n.func.id in ("len", "iter", "list")):
                    eff.append("ERead")
    return sorted(set(eff)), sorted(set(calls))


SRC_PATH = [None]


def translate(src):
    tree = ast.parse(src)
    decos = {}
    for n in tree.body:
        if isinstance(n, ast.FunctionDef) and n.name.endswith("_op"):
            decos[n.name] = read_decorator(n)
    cls = [n for n in tree.body if isinstance(n, ast.ClassDef) and n.name == "TinyFlux"]
    if len(cls) != 1:
        raise Refuse("class TinyFlux not found")
    fns = [n for n in cls[0].body if isinstance(n, ast.FunctionDef)]
    methods = {f.name for f in fns}
    rows = []
    for f in fns:
        gates = []
        for d in f.decorator_list:
            name = U(d)
            if name in decos:
                gates += decos[name]
            elif name in ("property",):
                pass
            else:
                raise Refuse(f"{f.name}: decorator `{name}`")
        body = strip(f.body)
        if body and cap_test(body[0]):
            gates.append(cap_test(body[0]))          # the same test written at the head of the body (reindex)
        eff, calls = effects_and_calls(f, methods)
        public = not (f.name.startswith("_") and not f.name.startswith("__"))
        rows.append((f.name, public, gates, eff, calls))
    # class Measurement (measurement.py, beside database.py): its methods reach storage through self._db - directly (reads) or by calling methods of the database
    mpath = os.path.join(os.path.dirname(os.path.abspath(SRC_PATH[0])), "measurement.py")
    mtree = ast.parse(open(mpath).read())
    mcls = [n for n in mtree.body if isinstance(n, ast.ClassDef) and n.name == "Measurement"]
    if len(mcls) != 1:
        raise Refuse("class Measurement not found")
    db_storage = lambda e: isinstance(e, ast.Attribute) and e.attr == "_storage" and U(e.value) == "self._db"
    for f in [n for n in mcls[0].body if isinstance(n, ast.FunctionDef)]:
        if any(U(d) not in ("property",) for d in f.decorator_list):
            raise Refuse(f"Measurement.{f.name}: decorator")
        for n in ast.walk(f):
            if isinstance(n, ast.Attribute) and U(n.value) == "self._db" and n.attr.startswith("_") and n.attr not in ("_storage", "_index", "_auto_index", "_measurements"):
                raise Refuse(f"Measurement.{f.name}: reaches `{U(n)}`")
        eff, calls = effects_and_calls(f, methods, is_storage=db_storage, owner="self._db")
        if any(c.startswith("_") and not c.startswith("__") for c in calls):
            raise Refuse(f"Measurement.{f.name}: calls a private method of the database {calls}")
        public = not (f.name.startswith("_") and not f.name.startswith("__"))
        rows.append(("Measurement." + f.name, public, [], eff, calls))
    out = [HEADER, "Definition refused : bool := false.\n\n",
           "Definition gen_decorators : list (string * list gate) := [" + "; ".join(f'("{k}", [{"; ".join(v)}])' for k, v in sorted(decos.items())) + "].\n\n",
           "Definition gen_methods : list meth := [\n"]
    out.append(";\n".join(f'  mkMeth "{n}" {"true" if p else "false"} [{"; ".join(g)}] [{"; ".join(e)}] [{"; ".join(chr(34) + c + chr(34) for c in cs)}]'
                          for n, p, g, e, cs in rows))
    out.append("\n].\n")
    return "".join(out)


HEADER = """(* GENERATED on every run by harness/py2coq_gates.py from tinyflux/database.py (class TinyFlux: gates, direct storage effects and calls of every method) -
   do not edit.  proofs/GatesGenP.v decides the three gate rules on it. *)
From Coq Require Import List String Bool.
From TF Require Import GateSem.
Import ListNotations.
Local Open Scope string_scope.

"""


def main():
    src, out_path = sys.argv[1], sys.argv[2]
    refused = None
    SRC_PATH[0] = src
    try:
        text = translate(open(src).read())
    except (Refuse, SyntaxError, OSError) as r:
        refused = str(r)
        snap = open(FALLBACK_FILE).read().replace("Definition refused : bool := false.", "Definition refused : bool := true.")
        text = "(* REFUSED by the translator: " + refused[:140].replace("*", "x").replace("(", "[").replace(")", "]").replace('"', "'") + \
               " - the last verified translation (harness/GatesGen.fallback.v) stands in *)\n" + snap
    try:
        old = open(out_path).read()
    except FileNotFoundError:
        old = None
    if old != text:
        open(out_path, "w").write(text)
    if refused:
        print(f"REFUSED access gates: {refused}")
    return 3 if refused else 0


if __name__ == "__main__":
    sys.exit(main())
