"""C07: decided on the database-level Coq model (DB.v) — theorems in coq/Prop_C07.v, tie by correspondence."""
from common import *  # noqa
import dbtie

PROFILE = {'scenario_also': ['line_separators', 'dotted_keys'], 'scenario_pref': ['buffered_handle', 'odd_strings', 'linebreaks', 'remove_first', 'ooo_then_remove', 'none_name', 'same_size', 'same_size', 'epoch', 'substring_names', 'range_ends', 'epoch', 'same_row_twice', 'getter_memo', 'carriers', 'handle_times'], 'p_write': 0.35, 'getter_bias': 0.8}


def kwargs_for(h):
    """as in every database-level tie, with more histories whose inserts stay in the handle's buffer (flush_on_insert=False): a length or a
    getter asked first after such an insert must already count it"""
    if h % 4 in (2, 3) and h % 12 in (6, 11):
        return {"flush_on_insert": False}
    return dbtie.default_kwargs_for(h)


def main(tier, seed):
    refused = []
    # the index's list- and count-valued getters (with the maintenance methods they read the result of) are COMPILED from index.py on every run and
    # proved the model's getters (proofs/IndexGenP.v, proofs/IndexGetP.v: C07_source_index_*)
    return dbtie.db_check("C07", tier, seed, PROFILE, 650, 6000, "Prop_C07",
                          "user callables and re are an environment the theorems quantify over; the tie instantiates them with the twin table", kwargs_for=kwargs_for,
                          pre=lambda: (run_translator("py2coq_index.py", "tinyflux/index.py", "gen/IndexGen.v", refused), run_translator("py2coq_dbget.py", "tinyflux", "gen/DbGetGen.v", refused)),
                          extra_cov={"translator_database_getters": {"source": "tinyflux/database.py: TinyFlux.__len__, get_measurements, get_field_keys, get_tag_keys, get_field_values, get_timestamps, get_tag_values, and tinyflux/measurement.py: Measurement.__len__ -> coq/gen/DbGetGen.v "
                                                                               "(compiled on this run by harness/py2coq_dbget.py; both paths; the read_op decorator checked and applied as DbSem.db_prelude)",
                                                                     "refused": refused, "equivalence_theorem": "source_db_len, source_db_get_measurements / _field_keys / _tag_keys / _field_values / _timestamps (C07_source_db_*_exact); "
                                                                                                                "source_db_get_tag_values (C07_source_db_tag_values_exact), source_handle_len_is_the_model / _exact (C07_source_handle_len_*)"},
                                     "translator_index_getters": {"source": "tinyflux/index.py: Index.__len__, valid, get_measurements, get_field_keys, get_tag_keys, get_timestamps, get_field_values, get_tag_values (and the maintenance methods) -> "
                                                                            "coq/gen/IndexGen.v (compiled on this run by harness/py2coq_index.py)",
                                                                  "refused": refused, "equivalence_theorem": "gen_len_eq, gen_valid_eq, gen_get_measurements_eq, gen_get_timestamps_eq, gen_get_field_values_eq, gen_get_field_keys_eq, gen_get_tag_keys_eq, gen_get_tag_values_eq (C07_source_index_*)"}})

