"""C07: decided on the database-level Coq model (DB.v) — theorems in coq/Prop_C07.v, tie by correspondence."""
from common import *  # noqa
import dbtie

PROFILE = {'scenario_pref': ['same_row_twice', 'getter_memo', 'carriers', 'handle_times'], 'p_write': 0.35, 'getter_bias': 0.8}


def main(tier, seed):
    return dbtie.db_check("C07", tier, seed, PROFILE, 650, 6000, "Prop_C07",
                          "user callables and re are an environment the theorems quantify over; the tie instantiates them with the twin table")

