#!/usr/bin/env python3
"""Fail-closed translator: tinyflux/index.py (IndexResult.__invert__/__and__/__or__, Index._search_helper,
Index._search_timestamps) -> coq/gen/SearchGen.v

What the index answers to a query is decided by three pieces of code: the set algebra of IndexResult, the recursive
dispatch of _search_helper over the query object, and the operator dispatch of _search_timestamps onto the sorted-list
helpers and slices.  They are re-read from the source on every run; proofs/SearchGenP.v proves the generated functions
equal, for EVERY index and query, to the hand model Index.isearch the C01/C06 theorems are about.

Accepted fragment (anything else: REFUSED, exit 3, the hand model stands in and the check says so):
  set expressions   set([]) | set(range(N)) | set(L) | set(L[: m + 1]) | set(L[m:]) | A.difference(B) | A.intersection(B) | A.union(B)
                    with L = self._storage_pos_sorted_by_ts, N = self._num_items | self._index_count, A/B = self._items, other._items, locals
  IndexResult       `return IndexResult(<set>, <count>)`
  _search_helper    if-blocks over isinstance(query[.query1], CompoundQuery|SimpleQuery), query.operator == operator.and_|or_|not_,
                    query[.query1]._point_attr|point_attr == "<attr>", query._hash == (); `x = self._search_helper(query.query1|2)`;
                    `return a & b | a | b | ~a | a`; `a._items = <set>`; `return IndexResult(<set or self._search_*(query)>, self._num_items)`; raise
  _search_timestamps  `op = query._operator`, `rhs = query._rhs`, optionally `if not isinstance(rhs, datetime): op = None`, an if/elif/else chain on `op == operator.<c>`,
                    `match = find_<k>(self._timestamps, rhs.timestamp())`, `if match is None: return <set>`, `return <set>`, and two loop
                    idioms compared STRUCTURALLY (ast.dump) with the templates below (the run of equal stamps; the generic scan).
Usage: py2coq_search.py <path/to/index.py> <out.v>
"""
import ast
import sys

ATTRS = {"_fields": "AFields", "_tags": "ATags", "_time": "ATime", "_measurement": "AMeas"}
OPS = {"not_": "ONot", "and_": "OAnd", "or_": "OOr"}
CMPS = {"eq": "Ceq", "ne": "Cne", "lt": "Clt", "le": "Cle", "gt": "Cgt", "ge": "Cge"}
CLS = {"CompoundQuery": "KCompound", "SimpleQuery": "KSimple"}
FINDS = {"find_eq": "zfind_eq", "find_lt": "zfind_lt", "find_le": "zfind_le", "find_gt": "zfind_gt", "find_ge": "zfind_ge"}
SEARCHES = {"_search_measurement": "(m_search_measurement E i {q})", "_search_tags": "(m_search_tags E i {q})",
            "_search_fields": "(m_search_fields E i {q})", "_search_timestamps": "(search_timestamps i {q})"}

IDIOM_RUN = """
results = set([self._storage_pos_sorted_by_ts[match]])
match += 1
while match < len(self._timestamps):
    if self._timestamps[match] != rhs.timestamp():
        break
    results.add(self._storage_pos_sorted_by_ts[match])
    match += 1
"""
IDIOM_SCAN = """
items = set([])
for idx, timestamp in zip(self._storage_pos_sorted_by_ts, self._timestamps):
    if query._test(query._path_resolver(datetime.fromtimestamp(timestamp).astimezone(timezone.utc))):
        items.add(idx)
return items
"""


class Refuse(Exception):
    pass


def _san(t):
    """a refusal reason inside a Coq comment: no comment brackets, no quotes (a quote starts a string even inside a comment)"""
    return t.replace("*", "x").replace("(", "[").replace(")", "]").replace('"', "'")


def dump(stmts):
    return [ast.dump(s) for s in stmts]


def strip_doc(body):
    body = list(body)
    while body and isinstance(body[0], ast.Expr) and isinstance(body[0].value, ast.Constant) and isinstance(body[0].value.value, str):
        body = body[1:]
    return body


def is_self_attr(e, name):
    return isinstance(e, ast.Attribute) and e.attr == name and isinstance(e.value, ast.Name) and e.value.id == "self"


class Sets:
    """Python set expressions -> Coq terms : list nat.  env: local name -> coq term; counts: attribute name -> coq term."""

    def __init__(self, env, counts, items):
        self.env, self.counts, self.items = env, counts, items

    def count(self, e):
        for a, t in self.counts.items():
            if is_self_attr(e, a):
                return t
        raise Refuse(f"unsupported count expression {ast.dump(e)}")

    def intexpr(self, e):
        if isinstance(e, ast.Name) and e.id in self.env and self.env[e.id][0] == "Z":
            return self.env[e.id][1]
        if isinstance(e, ast.BinOp) and isinstance(e.op, ast.Add) and isinstance(e.right, ast.Constant) and isinstance(e.right.value, int) \
                and not isinstance(e.right.value, bool) and e.right.value >= 0:
            return f"({self.intexpr(e.left)} + {e.right.value})%Z"
        raise Refuse(f"unsupported integer expression {ast.dump(e)}")

    def lst(self, e):
        if is_self_attr(e, "_storage_pos_sorted_by_ts"):
            return "(ix_pos i)"
        if isinstance(e, ast.Subscript) and isinstance(e.slice, ast.Slice) and e.slice.step is None:
            base = self.lst(e.value)
            lo, hi = e.slice.lower, e.slice.upper
            if lo is None and hi is not None:
                return f"(slice_to {base} {self.intexpr(hi)})"
            if lo is not None and hi is None:
                return f"(slice_from {base} {self.intexpr(lo)})"
        raise Refuse(f"unsupported list expression {ast.dump(e)}")

    def expr(self, e):
        if isinstance(e, ast.Name) and e.id in self.env and self.env[e.id][0] == "set":
            return self.env[e.id][1]
        if isinstance(e, ast.Attribute) and e.attr == "_items" and isinstance(e.value, ast.Name) and e.value.id in self.items:
            return f"(ir_items {self.items[e.value.id]})"
        if isinstance(e, ast.Call) and isinstance(e.func, ast.Name) and e.func.id == "set" and not e.keywords:
            if not e.args:
                return "(@nil nat)"
            if len(e.args) == 1:
                a = e.args[0]
                if isinstance(a, ast.List) and not a.elts:
                    return "(@nil nat)"
                if isinstance(a, ast.Call) and isinstance(a.func, ast.Name) and a.func.id == "range" and len(a.args) == 1 and not a.keywords:
                    return f"(set_range {self.count(a.args[0])})"
                return f"(set_of {self.lst(a)})"
        if isinstance(e, ast.Call) and isinstance(e.func, ast.Attribute) and len(e.args) == 1 and not e.keywords \
                and e.func.attr in ("difference", "intersection", "union"):
            f = {"difference": "set_difference", "intersection": "set_inter", "union": "set_union"}[e.func.attr]
            return f"({f} {self.expr(e.func.value)} {self.expr(e.args[0])})"
        raise Refuse(f"unsupported set expression {ast.dump(e)}")


# ---- IndexResult ------------------------------------------------------------------------------------------------
def tr_indexresult(cls):
    out = []
    fns = {n.name: n for n in cls.body if isinstance(n, ast.FunctionDef)}
    for py, coq, params in (("__invert__", "ir_invert", ["self"]), ("__and__", "ir_and", ["self", "other"]), ("__or__", "ir_or", ["self", "other"])):
        if py not in fns:
            raise Refuse(f"IndexResult.{py} not found")
        fn = fns[py]
        if [a.arg for a in fn.args.args] != params or fn.args.vararg or fn.args.kwarg or fn.args.kwonlyargs or fn.args.defaults:
            raise Refuse(f"IndexResult.{py}: unexpected signature")
        body = strip_doc(fn.body)
        if len(body) != 1 or not isinstance(body[0], ast.Return):
            raise Refuse(f"IndexResult.{py}: expected a single return")
        s = Sets({}, {"_index_count": "(ir_count self)"}, {p: p for p in params})
        items, cnt = ctor_args(body[0].value)
        out.append(f"Definition {coq} ({' '.join(params)} : iresult) : iresult :=\n  mk_ir {s.expr(items)} {s.count(cnt)}.\n")
    # the constructor must store its arguments in the attributes the methods read
    init = fns.get("__init__")
    if init is None:
        raise Refuse("IndexResult.__init__ not found")
    want = ["self._items = items", "self._index_count = index_count"]
    got = [ast.unparse(s) for s in strip_doc(init.body)]
    if [a.arg for a in init.args.args] != ["self", "items", "index_count"] or got != want:
        raise Refuse(f"IndexResult.__init__ is not the plain constructor: {got}")
    prop = fns.get("items")
    if prop is None or [ast.unparse(s) for s in strip_doc(prop.body)] != ["return self._items"]:
        raise Refuse("IndexResult.items is not `return self._items`")
    return "".join(out)


def ctor_args(e):
    if isinstance(e, ast.Call) and isinstance(e.func, ast.Name) and e.func.id == "IndexResult":
        if len(e.args) == 2 and not e.keywords:
            return e.args[0], e.args[1]
        kw = {k.arg: k.value for k in e.keywords}
        if not e.args and set(kw) == {"items", "index_count"}:
            return kw["items"], kw["index_count"]
    raise Refuse(f"expected IndexResult(items, index_count): {ast.dump(e)}")


# ---- _search_helper -------------------------------------------------------------------------------------------------
class Helper:
    def __init__(self, fn):
        if [a.arg for a in fn.args.args] != ["self", "query"] or fn.args.vararg or fn.args.kwarg or fn.args.kwonlyargs or fn.args.defaults:
            raise Refuse("_search_helper: unexpected signature")
        self.fn = fn

    def obj(self, e):
        if isinstance(e, ast.Name) and e.id == "query":
            return "query", False
        if isinstance(e, ast.Attribute) and e.attr in ("query1", "query2"):
            base, opt = self.obj(e.value)
            if opt:
                raise Refuse("attribute of an optional object")
            return (f"(q_query1 {base})", False) if e.attr == "query1" else (f"(q_query2 {base})", True)
        raise Refuse(f"unsupported object expression {ast.dump(e)}")

    def cond(self, e):
        if isinstance(e, ast.BoolOp):
            op = "andb" if isinstance(e.op, ast.And) else "orb"
            out = self.cond(e.values[-1])
            for v in reversed(e.values[:-1]):
                out = f"({op} {self.cond(v)} {out})"
            return out
        if isinstance(e, ast.UnaryOp) and isinstance(e.op, ast.Not):
            return f"(negb {self.cond(e.operand)})"
        if isinstance(e, ast.Call) and isinstance(e.func, ast.Name) and e.func.id == "isinstance" and len(e.args) == 2 and not e.keywords \
                and isinstance(e.args[1], ast.Name) and e.args[1].id in CLS:
            o, opt = self.obj(e.args[0])
            if opt:
                raise Refuse("isinstance of an optional object")
            return f"(q_isinst {CLS[e.args[1].id]} {o})"
        if isinstance(e, ast.Compare) and len(e.ops) == 1 and isinstance(e.ops[0], (ast.Eq, ast.NotEq)):
            l, r = e.left, e.comparators[0]
            t = None
            if isinstance(l, ast.Attribute) and l.attr == "operator" and isinstance(r, ast.Attribute) and isinstance(r.value, ast.Name) \
                    and r.value.id == "operator" and r.attr in OPS:
                o, opt = self.obj(l.value)
                if not opt:
                    t = f"(opname_eqb (q_operator {o}) {OPS[r.attr]})"
            elif isinstance(l, ast.Attribute) and l.attr in ("_point_attr", "point_attr") and isinstance(r, ast.Constant) and r.value in ATTRS:
                o, opt = self.obj(l.value)
                if not opt:
                    t = f"(attr_name_eqb (q_point_attr {o}) {ATTRS[r.value]})"
            elif isinstance(l, ast.Attribute) and l.attr == "_hash" and isinstance(r, ast.Tuple) and not r.elts:
                o, opt = self.obj(l.value)
                if not opt:
                    t = f"(q_hash_is_empty {o})"
            if t:
                return t if isinstance(e.ops[0], ast.Eq) else f"(negb {t})"
        raise Refuse(f"unsupported condition {ast.dump(e)}")

    def rec_call(self, e):
        """self._search_helper(<obj>) -> coq term : option iresult, or None if e is not such a call"""
        if isinstance(e, ast.Call) and is_self_attr(e.func, "_search_helper") and len(e.args) == 1 and not e.keywords:
            o, opt = self.obj(e.args[0])
            # _search_helper(None) falls through both isinstance tests and raises TypeError
            return f"(match {o} with Some q2 => rec q2 | None => None end)" if opt else f"(rec {o})"
        return None

    def ir(self, e, env):
        """an expression of type IndexResult over bound results -> coq term : iresult"""
        if isinstance(e, ast.Name) and e.id in env:
            return env[e.id]
        if isinstance(e, ast.UnaryOp) and isinstance(e.op, ast.Invert):
            return f"(ir_invert {self.ir(e.operand, env)})"
        if isinstance(e, ast.BinOp) and isinstance(e.op, (ast.BitAnd, ast.BitOr)):
            f = "ir_and" if isinstance(e.op, ast.BitAnd) else "ir_or"
            return f"({f} {self.ir(e.left, env)} {self.ir(e.right, env)})"
        raise Refuse(f"unsupported IndexResult expression {ast.dump(e)}")

    def ret(self, e, env):
        """return <e> -> coq term : option iresult"""
        if isinstance(e, ast.Call) and isinstance(e.func, ast.Name) and e.func.id == "IndexResult":
            items, cnt = ctor_args(e)
            s = Sets({}, {"_num_items": "(ix_n i)"}, {})
            n = s.count(cnt)
            if isinstance(items, ast.Call) and isinstance(items.func, ast.Attribute) and is_self_attr(items.func, items.func.attr) \
                    and items.func.attr in SEARCHES:
                if len(items.args) != 1 or items.keywords:
                    raise Refuse("search call with unexpected arguments")
                o, opt = self.obj(items.args[0])
                if opt:
                    raise Refuse("search on an optional object")
                return f"(opt_bind {SEARCHES[items.func.attr].format(q=o)} (fun s => Some (mk_ir s {n})))"
            return f"(Some (mk_ir {s.expr(items)} {n}))"
        return f"(Some {self.ir(e, env)})"

    def block(self, stmts, env, rest):
        """statements -> coq term : option iresult; rest = the term for what follows the enclosing block (None: nothing follows)"""
        if not stmts:
            if rest is None:
                raise Refuse("_search_helper: control falls off the end of the function")
            return rest
        s, more = stmts[0], stmts[1:]
        if isinstance(s, ast.Expr) and isinstance(s.value, ast.Constant) and isinstance(s.value.value, str):
            return self.block(more, env, rest)
        if isinstance(s, ast.Raise):
            return "None"
        if isinstance(s, ast.Return) and s.value is not None:
            return self.ret(s.value, env)
        if isinstance(s, ast.Assign) and len(s.targets) == 1:
            t = s.targets[0]
            if isinstance(t, ast.Name):
                call = self.rec_call(s.value)
                if call is None:
                    raise Refuse(f"unsupported assignment {ast.unparse(s)}")
                v = f"{t.id}_{len(env)}"
                return f"(opt_bind {call} (fun {v} =>\n      {self.block(more, dict(env, **{t.id: v}), rest)}))"
            if isinstance(t, ast.Attribute) and t.attr == "_items" and isinstance(t.value, ast.Name) and t.value.id in env:
                old = env[t.value.id]
                v = f"{t.value.id}_{len(env)}"
                sx = Sets({}, {"_num_items": "(ix_n i)"}, dict(env)).expr(s.value)
                return f"(let {v} := mk_ir {sx} (ir_count {old}) in\n      {self.block(more, dict(env, **{t.value.id: v}), rest)})"
        if isinstance(s, ast.If):
            after = self.block(more, env, rest) if (more or rest is not None) else None
            then = self.block(list(s.body), env, after)
            els = self.block(list(s.orelse), env, after) if s.orelse else after
            if els is None:
                raise Refuse("_search_helper: an `if` without else at the end of the function")
            return f"(if {self.cond(s.test)}\n    then {then}\n    else {els})"
        raise Refuse(f"unsupported statement {ast.unparse(s)[:80]}")

    def run(self):
        body = self.block(strip_doc(self.fn.body), {}, None)
        return ("Fixpoint search_helper (fuel : nat) (i : index) (query : query) : option iresult :=\n"
                "  match fuel with O => None | S fuel' =>\n  let rec := search_helper fuel' i in\n  " + body + "\n  end.\n")


# ---- _search_timestamps -----------------------------------------------------------------------------------------
class Stamps:
    def __init__(self, fn):
        if [a.arg for a in fn.args.args] != ["self", "query"] or fn.args.vararg or fn.args.kwarg or fn.args.kwonlyargs or fn.args.defaults:
            raise Refuse("_search_timestamps: unexpected signature")
        self.fn = fn
        self.alias = {}
        self.run_t = dump(ast.parse(IDIOM_RUN).body)
        self.scan_t = dump(ast.parse(IDIOM_SCAN).body)
        self.scan_t2 = dump(ast.parse(IDIOM_SCAN.replace("datetime.fromtimestamp(timestamp).astimezone(timezone.utc)", "datetime.fromtimestamp(timestamp, timezone.utc)")).body)

    def is_alias(self, e, attr):
        return (isinstance(e, ast.Name) and self.alias.get(e.id) == attr) or \
               (isinstance(e, ast.Attribute) and e.attr == attr and isinstance(e.value, ast.Name) and e.value.id == "query")

    def cond(self, e):
        if isinstance(e, ast.Compare) and len(e.ops) == 1 and isinstance(e.ops[0], ast.Eq) and self.is_alias(e.left, "_operator"):
            r = e.comparators[0]
            if isinstance(r, ast.Attribute) and isinstance(r.value, ast.Name) and r.value.id == "operator" and r.attr in CMPS:
                return f"({'q_op_is_dt' if getattr(self, 'guarded', False) else 'q_op_is'} query {CMPS[r.attr]})"
        raise Refuse(f"unsupported condition {ast.dump(e)}")

    def is_stamp(self, e):
        return isinstance(e, ast.Call) and not e.args and not e.keywords and isinstance(e.func, ast.Attribute) \
            and e.func.attr == "timestamp" and self.is_alias(e.func.value, "_rhs")

    def normal(self, stmts):
        """the statements with the aliases `op` / `rhs` spelled as the template spells them (rhs stays `rhs`)"""
        class N(ast.NodeTransformer):
            def visit_Attribute(s, node):
                node = s.generic_visit(node)
                if node.attr == "_rhs" and isinstance(node.value, ast.Name) and node.value.id == "query":
                    return ast.Name(id="rhs", ctx=ast.Load())
                return node

            def visit_Name(s, node):
                if self.alias.get(node.id) == "_rhs":
                    return ast.Name(id="rhs", ctx=node.ctx)
                return node
        return dump([N().visit(ast.parse(ast.unparse(x)).body[0]) for x in stmts])

    def seq(self, stmts, env):
        """statements that end in a return on every path -> coq term : sres"""
        if not stmts:
            raise Refuse("_search_timestamps: control falls off the end of a branch")
        s, more = stmts[0], stmts[1:]
        if isinstance(s, ast.Expr) and isinstance(s.value, ast.Constant) and isinstance(s.value.value, str):
            return self.seq(more, env)
        # idiom 2: the generic scan (4 statements ending in return); the stamp is turned into a UTC datetime directly or through local time
        if len(stmts) == 3 and self.normal(stmts) in (self.scan_t, self.scan_t2):
            return "(time_scan E i query)"
        # idiom 1: the run of equal stamps (3 statements), needs `match` bound to a position and the probe bound
        if len(stmts) >= 3 and self.normal(stmts[:3]) == self.run_t:
            if env.get("match", ("", ""))[0] != "Z" or "x" not in env:
                raise Refuse("run idiom without a found position")
            env2 = {k: v for k, v in env.items() if k != "match"}
            env2["results"] = ("set", "results")
            return f"(let results := eq_run_from i {env['x'][1]} {env['match'][1]} in\n      {self.seq(stmts[3:], env2)})"
        if isinstance(s, ast.Return) and s.value is not None:
            return f"(Some {Sets(env, {}, {}).expr(s.value)})"
        if isinstance(s, ast.Assign) and len(s.targets) == 1 and isinstance(s.targets[0], ast.Name):
            name, v = s.targets[0].id, s.value
            if isinstance(v, ast.Call) and isinstance(v.func, ast.Name) and v.func.id in FINDS and len(v.args) == 2 and not v.keywords \
                    and is_self_attr(v.args[0], "_timestamps") and self.is_stamp(v.args[1]):
                # the probe is evaluated first (AttributeError when the comparison value is no datetime), then the helper
                return (f"(opt_bind (q_rhs_stamp query) (fun x =>\n      find_res ({FINDS[v.func.id]} (ix_ts i) x) (fun {name}_o =>\n      "
                        f"{self.seq(more, dict(env, x=('Z', 'x'), **{name: ('optZ', name + '_o')}))})))")
        if isinstance(s, ast.If) and not s.orelse and isinstance(s.test, ast.Compare) and len(s.test.ops) == 1 \
                and isinstance(s.test.ops[0], ast.Is) and isinstance(s.test.comparators[0], ast.Constant) and s.test.comparators[0].value is None \
                and isinstance(s.test.left, ast.Name) and env.get(s.test.left.id, ("", ""))[0] == "optZ":
            n = s.test.left.id
            return (f"(match {env[n][1]} with\n      | None => {self.seq(list(s.body), env)}\n      | Some {n}_z => "
                    f"{self.seq(more, dict(env, **{n: ('Z', n + '_z')}))}\n      end)")
        if isinstance(s, ast.If) and s.orelse:
            return f"(if {self.cond(s.test)}\n    then {self.seq(list(s.body), env)}\n    else {self.seq(list(s.orelse), env)})"
        raise Refuse(f"unsupported statement {ast.unparse(s)[:80]}")

    def run(self):
        body = strip_doc(self.fn.body)
        while body and isinstance(body[0], ast.Assign) and len(body[0].targets) == 1 and isinstance(body[0].targets[0], ast.Name) \
                and isinstance(body[0].value, ast.Attribute) and body[0].value.attr in ("_operator", "_rhs") \
                and isinstance(body[0].value.value, ast.Name) and body[0].value.value.id == "query":
            self.alias[body[0].targets[0].id] = body[0].value.attr
            body = body[1:]
        # `if not isinstance(rhs, datetime): op = None` - only a comparison that carries a datetime is bisected on
        self.guarded = False
        if body and isinstance(body[0], ast.If) and not body[0].orelse and len(body[0].body) == 1 and isinstance(body[0].test, ast.UnaryOp) \
                and isinstance(body[0].test.op, ast.Not) and isinstance(body[0].test.operand, ast.Call) and ast.unparse(body[0].test.operand.func) == "isinstance" \
                and len(body[0].test.operand.args) == 2 and self.is_alias(body[0].test.operand.args[0], "_rhs") and ast.unparse(body[0].test.operand.args[1]) == "datetime" \
                and isinstance(body[0].body[0], ast.Assign) and len(body[0].body[0].targets) == 1 and self.is_alias(body[0].body[0].targets[0], "_operator") \
                and isinstance(body[0].body[0].targets[0], ast.Name) and isinstance(body[0].body[0].value, ast.Constant) and body[0].body[0].value.value is None:
            self.guarded = True
            body = body[1:]
        return "Definition search_timestamps (i : index) (query : query) : sres :=\n  " + self.seq(body, {}) + ".\n"


HEADER = """(* GENERATED on every run by harness/py2coq_search.py from tinyflux/index.py (IndexResult, Index._search_helper,
   Index._search_timestamps) - do not edit.  proofs/SearchGenP.v proves search_helper equal, for every index, every query
   and enough fuel, to the hand model Index.isearch. *)
From Coq Require Import List ZArith Bool.
From TF Require Import Base Bisect UtilsHand Query QueryObj Index SearchSem.
Import ListNotations.

"""

FALLBACK = """From TF Require Import Index.
Definition ir_invert (self : iresult) : iresult := mk_ir (set_compl (ir_count self) (ir_items self)) (ir_count self).
Definition ir_and (self other : iresult) : iresult := mk_ir (set_inter (ir_items self) (ir_items other)) (ir_count self).
Definition ir_or (self other : iresult) : iresult := mk_ir (set_union (ir_items self) (ir_items other)) (ir_count self).
Section Gen.
Variable E : env.
Definition search_timestamps (i : index) (query : query) : sres :=
  match query with QS ATime path t => search_simple E i ATime path t | _ => None end.
Definition search_helper (fuel : nat) (i : index) (query : query) : option iresult :=
  option_map (fun s => mk_ir s (ix_n i)) (isearch E i query).
End Gen.
"""


def main():
    src_path, out_path = sys.argv[1], sys.argv[2]
    refused = None
    try:
        tree = ast.parse(open(src_path).read())
        classes = {n.name: n for n in tree.body if isinstance(n, ast.ClassDef)}
        if "IndexResult" not in classes or "Index" not in classes:
            raise Refuse("classes IndexResult / Index not found")
        fns = {n.name: n for n in classes["Index"].body if isinstance(n, ast.FunctionDef)}
        for f in ("_search_helper", "_search_timestamps", "search"):
            if f not in fns:
                raise Refuse(f"Index.{f} not found")
        # Index.search(query) must hand the query to _search_helper unchanged
        sb = [ast.unparse(s) for s in strip_doc(fns["search"].body)]
        if sb != ["return self._search_helper(query)"]:
            raise Refuse(f"Index.search is not `return self._search_helper(query)`: {sb}")
        text = HEADER + tr_indexresult(classes["IndexResult"]) + "\nSection Gen.\nVariable E : env.\n\n" + Stamps(fns["_search_timestamps"]).run() + "\n" \
            + Helper(fns["_search_helper"]).run() + "End Gen.\n"
    except Refuse as r:
        refused = str(r)
        text = HEADER + f"(* REFUSED by the translator: {_san(refused[:160])} - the hand model stands in *)\n" + FALLBACK
    try:
        old = open(out_path).read()
    except FileNotFoundError:
        old = None
    if old != text:
        open(out_path, "w").write(text)
    if refused:
        print(f"REFUSED index search: {refused}")
    return 3 if refused else 0


if __name__ == "__main__":
    sys.exit(main())
