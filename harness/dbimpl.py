"""Run an operation list on the real tinyflux and canonicalise what a caller observes."""
import io
import contextlib
import math
import os
import shutil
import tempfile

from dbmodel import *  # noqa


def _clean_point(pt):
    p = canon_point(pt)
    tags, fields = {}, {}
    for k, v in p["tags"].items():
        k2 = k if isinstance(k, str) else "\x01badkey:" + repr(k)
        tags[k2] = v if (v is None or isinstance(v, str)) else "\x01bad:" + repr(v)
    for k, v in p["fields"].items():
        k2 = k if isinstance(k, str) else "\x01badkey:" + repr(k)
        ok = v is None or (isinstance(v, (int, float)) and not isinstance(v, bool))
        fields[k2] = v if ok else float("nan")
    p["tags"], p["fields"] = tags, fields
    return p


class Driver:
    def __init__(self, tf, csv, auto, workdir, csv_kwargs=None, decoys=False):
        self.tf, self.csv, self.workdir = tf, csv, workdir
        self.csv_kwargs = csv_kwargs or {}
        self.decoys = []
        self.mem_decoy = None
        self._reuse, self._n_single = None, 0
        if csv:
            self.path = os.path.join(workdir, "db.csv")
            # other databases with OTHER csv options are open in the same process, one constructed before and one after the database under
            # test: csv options belong to a database object, not to the process
            # (only in the database-level ties: the I/O checks watch the directory)
            if decoys:
                self._decoy(tf, "decoy0.csv", {"delimiter": "\t", "quotechar": "|"})
            if decoys:
                # opened by a RELATIVE path, after which the process changes its working directory: the database stays the file it was opened with
                self._cwd0 = os.getcwd()
                elsewhere = os.path.join(workdir, "cwd")
                os.makedirs(elsewhere, exist_ok=True)
                os.chdir(workdir)
                try:
                    self.db = tf.TinyFlux("db.csv", auto_index=auto, **self.csv_kwargs)
                finally:
                    os.chdir(elsewhere)
            else:
                self.db = tf.TinyFlux(self.path, auto_index=auto, **self.csv_kwargs)
            if decoys:
                self._decoy(tf, "decoy1.csv", {"delimiter": ":", "quotechar": "~", "lineterminator": "\n"} if self.csv_kwargs.get("delimiter") != ":" else {})
        else:
            from tinyflux.storages import MemoryStorage
            self.db = tf.TinyFlux(storage=MemoryStorage, auto_index=auto)
            if decoys:
                # another in-memory database lives in the same process and is rewritten now and then: every database has its own storage
                try:
                    self.mem_decoy = tf.TinyFlux(storage=MemoryStorage)
                    self.mem_decoy.insert(tf.Point(measurement="decoy", tags={"a": "x"}, fields={"a": 1}))
                    self.mem_decoy.insert(tf.Point(measurement="decoy2", tags={"a": "y"}, fields={"a": 2}))
                except Exception:  # noqa
                    self.mem_decoy = None
        # every other history uses the database the way `with TinyFlux(...) as db:` does: entered here, left in close()
        self._entered = False
        if decoys and (len(workdir) + (1 if auto else 0)) % 2 == 0 and hasattr(self.db, "__enter__"):
            try:
                self.db.__enter__()
                self._entered = True
            except Exception:  # noqa
                pass
        self.handles = {}
        self.builders = {}          # query builder objects shared by every query of this history (dbmodel.real_query)

    def _decoy(self, tf, name, kw):
        try:
            d = tf.TinyFlux(os.path.join(self.workdir, name), **kw)
            d.insert(tf.Point(measurement="decoy", tags={"a": "x,y"}, fields={"a": 1}))
            self.decoys.append(d)
        except Exception:  # noqa  a decoy that cannot be built is simply absent
            pass

    def close(self):
        if getattr(self, "_cwd0", None):
            os.chdir(self._cwd0)
            self._cwd0 = None
        if getattr(self, "_entered", False):
            self._entered = False
            try:
                self.db.__exit__(None, None, None)
            except Exception:  # noqa
                pass
        for d in [self.db] + self.decoys:
            try:
                d.close()
            except Exception:
                pass

    def handle(self, name):
        # obtained once and kept: exercises handles obtained before the data changed
        if name not in self.handles:
            self.handles[name] = self.db.measurement(name)
        return self.handles[name]

    # -- one operation -> canonical output
    def do(self, o):
        try:
            with contextlib.redirect_stdout(io.StringIO()):
                return self._do(o)
        except Exception as e:  # noqa
            return ("raise", type(e).__name__)
        finally:
            if self.mem_decoy is not None and o[0] in ("remove", "update", "update_all", "drop", "handle", "remove_all"):
                # the OTHER in-memory database is rewritten (a removal that matches nothing, an update of everything): none of the first one's business
                try:
                    self.mem_decoy.remove(self.tf.TagQuery().a == "no-such-value")
                    self.mem_decoy.update_all(tags={"seen": "1"})
                except Exception:  # noqa
                    pass

    def _stamp(self, neutral, real):
        # a point inserted without a time: feed the model the time the implementation assigned, after checking that it
        # is a clock value read during the call (between the harness's own clock reads around it)
        from datetime import datetime, timezone
        now = datetime.now(timezone.utc)
        for p, pt in zip(neutral, real):
            if p is not None and p["time"] is None and getattr(pt, "time", None) is not None:
                ok = pt.time.tzinfo is not None and self._clock0 <= pt.time <= now
                p["time"] = us_of(pt.time) if ok else BAD_TIME + 3
                p["stamped"] = True

    def _points(self, pts):
        from datetime import datetime, timezone
        self._clock0 = datetime.now(timezone.utc)
        share = {}
        for p in pts:
            if p is not None and p.get("rel_now") is not None and p["time"] is None:
                # a point dated relative to the clock (a forecast a fraction of a second ahead): the instant is fixed here and recorded for the model
                from datetime import timedelta
                when = datetime.now(timezone.utc) + timedelta(seconds=p["rel_now"])
                p["time"] = us_of(when)
                p["stamped"] = True
        if self.csv and len(pts) == 1 and pts[0] is not None and pts[0]["time"] is not None:
            # CSV storage keeps rows, not objects: a caller may fill ONE Point object again and again (a sensor loop), editing its tags and
            # fields mappings IN PLACE between inserts - every insert must store the object's contents at that moment.  Every third single
            # insert of a history reuses the object of the previous one.  (MemoryStorage keeps the caller's objects: known finding F16b.)
            self._n_single += 1
            if self._reuse is not None and self._n_single % 3 == 0:
                pt, p = self._reuse, pts[0]
                pt.time = p.get("dt") or zoned_dt(p["time"])
                pt.measurement = p["meas"]
                for slot, new in ((pt.tags, p["tags"]), (pt.fields, p["fields"])):
                    for k_ in list(slot):
                        del slot[k_]
                    slot.update(new)
                return [pt]
            self._reuse = real_point(self.tf, pts[0], share)
            return [self._reuse]
        return [real_point(self.tf, p, share) if p is not None else "not a point" for p in pts]

    def _do(self, o):
        tf, db = self.tf, self.db
        k = o[0]
        Q = lambda q: real_query(tf, q, self.builders)
        if k == "insert":
            pts = self._points(o[1])
            kw = {"compact_key_prefixes": True} if "compact" in o[3:] else {}
            try:
                if len(pts) == 1 and "multiple" not in o[3:]:
                    return ("nat", db.insert(pts[0], o[2], **kw) if o[2] is not None else db.insert(pts[0], **kw))
                return ("nat", db.insert_multiple(pts, o[2], **kw) if o[2] is not None else db.insert_multiple(pts, **kw))
            finally:
                self._stamp(o[1], pts)
        if k == "remove":
            return ("nat", db.remove(Q(o[1]), o[2]) if o[2] is not None else db.remove(Q(o[1])))
        if k == "drop":
            return ("nat", db.drop_measurement(o[1]))
        if k == "remove_all":
            db.remove_all()
            return ("unit",)
        if k == "update":
            kw = real_upd_kwargs(o[2])
            if o[3] is not None:
                kw["_measurement"] = o[3]
            return ("nat", db.update(Q(o[1]), **kw))
        if k == "update_all":
            return ("nat", db.update_all(**real_upd_kwargs(o[1])))
        if k == "search":
            return ("points", [_clean_point(p) for p in db.search(Q(o[1]), o[2], sorted=o[3])])
        if k == "count":
            r = db.count(Q(o[1]), o[2])
            return ("nat", r) if isinstance(r, int) and not isinstance(r, bool) and r >= 0 else ("raise", "badcount")
        if k == "contains":
            r = db.contains(Q(o[1]), o[2])
            return ("bool", r) if isinstance(r, bool) else ("raise", "badbool")
        if k == "get":
            r = db.get(Q(o[1]), o[2])
            return ("point", None if r is None else _clean_point(r))
        if k == "select":
            keys = o[1] if o[1] is not None else ["time", "bogus.key"]
            arg = keys[0] if (len(keys) == 1 and o[1] is not None) else list(keys)
            r = db.select(arg, Q(o[2]), o[3])
            return ("sel", [[x] if len(keys) == 1 else list(x) for x in r])
        if k == "all":
            return ("points", [_clean_point(p) for p in db.all(sorted=o[1])])
        if k == "len":
            return ("nat", len(db))
        if k == "iter":
            return ("points", [_clean_point(p) for p in db])
        if k == "file":
            # an independent reader: the bytes of the file, decoded without going through tinyflux
            import iotie
            kw = self.csv_kwargs
            pts = iotie.decode_bytes(iotie.read_file(self.path), kw.get("encoding"), iotie.csv_only(kw))
            return ("points", pts) if pts is not None else ("raise", "undecodable-file")
        if k == "get_measurements":
            return ("strs", list(db.get_measurements()))
        if k == "get_tag_keys":
            return ("strs", list(db.get_tag_keys(o[1])))
        if k == "get_tag_values":
            r = db.get_tag_values(list(o[1]), o[2])
            return ("tagvals", sorted((kk, list(vv)) for kk, vv in r.items()))
        if k == "get_field_keys":
            return ("strs", list(db.get_field_keys(o[1])))
        if k == "get_field_values":
            return ("nums", list(db.get_field_values(o[1], o[2])))
        if k == "get_timestamps":
            return ("times", [us_of(t) for t in db.get_timestamps(o[1])])
        if k == "reindex":
            db.reindex()
            return ("unit",)
        if k == "reopen":
            if getattr(self, "_entered", False):
                self._entered = False
                db.__exit__(None, None, None)          # leaving the `with` block closes the database
            else:
                db.close()
            kw2 = {k: v for k, v in self.csv_kwargs.items() if k != "access_mode"}
            self._n_reopen = getattr(self, "_n_reopen", 0) + 1
            if not any(k in kw2 for k in ("quoting", "delimiter", "quotechar", "lineterminator", "escapechar", "doublequote", "dialect")) and self._n_reopen % 2 == 1:
                # a later session writes with another quoting policy (the reader takes both): rows of one file need not all be spelled alike
                import csv as _csv
                kw2["quoting"] = _csv.QUOTE_ALL
            self.db = tf.TinyFlux(self.path, auto_index=o[1], **kw2)
            self.handles = {}
            return ("unit",)
        if k == "index_valid":
            return ("bool", bool(db.index.valid))
        if k == "handle":
            return self._handle(self.handle(o[1]), o[2])
        raise ValueError(o)

    def _handle(self, m, h):
        tf = self.tf
        Q = lambda q: real_query(tf, q, self.builders)
        k = h[0]
        if k == "len":
            return ("nat", len(m))
        if k == "iter":
            return ("points", [_clean_point(p) for p in m])
        if k == "all":
            return ("points", [_clean_point(p) for p in m.all(sorted=h[1])])
        if k == "contains":
            return ("bool", m.contains(Q(h[1])))
        if k == "count":
            return ("nat", m.count(Q(h[1])))
        if k == "get":
            r = m.get(Q(h[1]))
            return ("point", None if r is None else _clean_point(r))
        if k == "search":
            return ("points", [_clean_point(p) for p in m.search(Q(h[1]), sorted=h[2])])
        if k == "select":
            keys = h[1] if h[1] is not None else ["time", "bogus.key"]
            arg = keys[0] if (len(keys) == 1 and h[1] is not None) else list(keys)
            r = m.select(arg, Q(h[2]))
            return ("sel", [[x] if len(keys) == 1 else list(x) for x in r])
        if k == "get_field_keys":
            return ("strs", list(m.get_field_keys()))
        if k == "get_field_values":
            return ("nums", list(m.get_field_values(h[1])))
        if k == "get_tag_keys":
            return ("strs", list(m.get_tag_keys()))
        if k == "get_tag_values":
            r = m.get_tag_values(list(h[1]))
            return ("tagvals", sorted((kk, list(vv)) for kk, vv in r.items()))
        if k == "get_timestamps":
            return ("times", [us_of(t) for t in m.get_timestamps()])
        if k == "insert":
            pts = self._points(h[1])
            try:
                return ("nat", m.insert(pts[0]) if len(pts) == 1 else m.insert_multiple(pts))
            finally:
                self._stamp(h[1], pts)
        if k == "remove":
            return ("nat", m.remove(Q(h[1])))
        if k == "remove_all":
            return ("nat", m.remove_all())
        if k == "update":
            return ("nat", self._hupdate(m.update, (Q(h[1]),), h[2]))
        if k == "update_all":
            return ("nat", self._hupdate(m.update_all, (), h[1]))
        raise ValueError(h)

    @staticmethod
    def _hupdate(fn, pre, u):
        # every argument passed POSITIONALLY in the documented order, each slot with its own value,
        # so that a forwarding mix-up in measurement.py cannot cancel out
        kw = real_upd_kwargs(u)
        order = ["time", "measurement", "tags", "fields", "unset_fields", "unset_tags"]
        if u is not None and u.get("invalid"):
            return fn(*pre, **kw)
        # ... or every argument by keyword (both are ordinary uses of the public API); chosen by the update itself
        if len(repr(sorted(kw))) % 2 == 0:
            return fn(*pre, **kw)
        args = [kw.get(n) for n in order]
        while args and args[-1] is None:
            args.pop()
        return fn(*pre, *args)


def run_history(tf, csv, auto, ops, workdir, csv_kwargs=None):
    os.makedirs(workdir, exist_ok=True)
    tmp = os.path.join(workdir, "tmp")
    os.makedirs(tmp, exist_ok=True)
    old = tempfile.tempdir
    tempfile.tempdir = tmp
    cwd0 = os.getcwd()
    d = None
    outs = []
    try:
        d = Driver(tf, csv, auto, workdir, csv_kwargs, decoys=True)
        for o in ops:
            outs.append(d.do(o))
    finally:
        if d is not None:
            d.close()
        os.chdir(cwd0)
        tempfile.tempdir = old
        shutil.rmtree(workdir, ignore_errors=True)
    return outs
