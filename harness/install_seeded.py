#!/usr/bin/env python3
"""install_seeded.py <property> <agent OUT dir> : copy patch<k>.diff/demo<k>.py/notes<k>.md into seeded/<property>-<n> (next free numbers)."""
import json, os, shutil, sys, glob, subprocess
V = os.path.dirname(os.path.dirname(os.path.abspath(__file__)))
prop, out = sys.argv[1], sys.argv[2]
head = subprocess.run(["git", "-C", "/repo", "rev-parse", "--short", "HEAD"], capture_output=True, text=True).stdout.strip()
used = [int(os.path.basename(d).split("-")[1]) for d in glob.glob(f"{V}/seeded/{prop}-*") + glob.glob(f"{V}/seeded/retired/{prop}-*")]
n = max(used, default=0)
for k in (1, 2):
    if not os.path.exists(f"{out}/patch{k}.diff"):
        continue
    n += 1
    d = f"{V}/seeded/{prop}-{n}"
    os.makedirs(d)
    shutil.copy(f"{out}/patch{k}.diff", f"{d}/patch.diff")
    shutil.copy(f"{out}/demo{k}.py", f"{d}/demo.py")
    shutil.copy(f"{out}/notes{k}.md", f"{d}/notes.md")
    first = open(f"{d}/notes.md").read().strip().split("\n")[0]
    json.dump({"id": f"{prop}-{n}", "breaks_property": prop, "base_commit": head, "needs_to_manifest": first, "detected_by": None,
               "origin": "independent sub-agent given only the property text, a list of already-known changes to avoid, and a scratch worktree of /repo"},
              open(f"{d}/meta.json", "w"), indent=1)
    print("installed", f"{prop}-{n}")
