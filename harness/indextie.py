"""indextie.py: validation of the index-maintenance COMPILER (harness/py2coq_index.py -> coq/gen/IndexGen.v) against the code it compiles.

The compiled methods are proved equal to the model's (proofs/IndexGenP.v); what that proof cannot see is whether the compiler's reading of Python -
dicts as insertion-ordered association lists, `d[k] = v` replacing in place or appending, the value semantics of lists - is what CPython does.
Here random sequences of calls (build, insert, remove + update, _reset, invalidate) are run on the REAL `tinyflux.index.Index` object, and the same
sequence on the compiled functions inside Coq (vm_compute); after every call the seven attributes are compared - the nested tag map with the order
of its keys, the postings, the time arrays (float stamps turned back into microseconds), the counters - and the answers of the compiled getters
(__len__, valid, get_measurements, get_field_keys, get_tag_keys, get_timestamps, get_field_values, get_tag_values for several arguments; sets compared
after sorting) with those of the real ones.  Only run when the translation was not
refused (a refused translation is a snapshot of an older source).  This compares INTERNAL state on purpose: it is a test of the translator, not of
the property; a difference is reported as a broken correspondence without a failing input."""
import random
from datetime import datetime, timedelta, timezone

import dbmodel as M
from common import *  # noqa

T0 = 1577836800000000
HEADER = """From Coq Require Import List ZArith NArith Bool Arith.
From TF Require Import Base Query Index IndexSem.
From TF Require gen.IndexGen.
Import ListNotations.
Fixpoint leqb {A} (e : A -> A -> bool) (a b : list A) : bool :=
  match a, b with [], [] => true | x :: a', y :: b' => e x y && leqb e a' b' | _, _ => false end.
Definition peqb {A B} (ea : A -> A -> bool) (eb : B -> B -> bool) (x y : A * B) : bool := ea (fst x) (fst y) && eb (snd x) (snd y).
Definition pyindex_eqb (a b : pyindex) : bool :=
  Nat.eqb (_num_items a) (_num_items b)
  && leqb (peqb str_eqb (leqb (peqb ostr_eqb (leqb Nat.eqb)))) (_tags a) (_tags b)
  && leqb (peqb str_eqb (leqb (peqb Nat.eqb onum_eqb))) (_fields a) (_fields b)
  && leqb (peqb str_eqb (leqb Nat.eqb)) (_measurements a) (_measurements b)
  && leqb Z.eqb (_timestamps a) (_timestamps b) && Bool.eqb (_valid a) (_valid b)
  && leqb Nat.eqb (_storage_pos_sorted_by_ts a) (_storage_pos_sorted_by_ts b).
Inductive iop := IBuild (pts : list point) | IInsert (p : point) | IRemove (r : list nat) (u : list (nat * nat)) | IReset | IInvalidate.
Definition istep (g : pyindex) (o : iop) : pyindex :=
  match o with
  | IBuild pts => IndexGen.gen_build g pts
  | IInsert p => IndexGen.gen_insert g [p]
  | IRemove r u => IndexGen.gen_update (IndexGen.gen_remove g r) u
  | IReset => IndexGen.gen__reset g
  | IInvalidate => IndexGen.gen_invalidate g
  end.
(* what the compiled getters answer on the compiled object, for the measurement arguments None, "m1", "m2", "" and the field keys "a", "v" *)
Definition m1 : str := [109; 49]%N.
Definition m2 : str := [109; 50]%N.
Definition ka : str := [97]%N.
Definition kb : str := [98]%N.
Definition kz : str := [122; 122]%N.
Definition canon_tv (d : list (str * list (option str))) : list (str * list (option str)) :=
  map (fun k => (k, sort_none_last (d_get [] k d))) (sort_dedup (map fst d)).
Definition answers (g : pyindex) : nat * bool * list (list str) * list (list Z) * list (list (option num)) * list (list (str * list (option str))) :=
  (IndexGen.gen___len__ g, IndexGen.gen_valid g,
   sort_dedup (IndexGen.gen_get_measurements g) :: map (fun m => sort_dedup (IndexGen.gen_get_field_keys g m)) [None; Some m1; Some []]
     ++ map (fun m => sort_dedup (IndexGen.gen_get_tag_keys g m)) [None; Some m1; Some m2],
   map (IndexGen.gen_get_timestamps g) [None; Some m1; Some m2; Some []],
   flat_map (fun k => map (IndexGen.gen_get_field_values g k) [None; Some m1; Some []]) [[97]%N; [118]%N],
   map (fun km => canon_tv (IndexGen.gen_get_tag_values g (fst km) (snd km))) [([], None); ([], Some m1); ([ka; kz], None); ([ka; kb; ka], Some m1); ([kz], Some [122]%N)]).
Definition answers_eqb (a b : nat * bool * list (list str) * list (list Z) * list (list (option num)) * list (list (str * list (option str)))) : bool :=
  let '(n1, v1, ms1, ts1, fv1, tv1) := a in let '(n2, v2, ms2, ts2, fv2, tv2) := b in
  Nat.eqb n1 n2 && Bool.eqb v1 v2 && leqb (leqb str_eqb) ms1 ms2 && leqb (leqb Z.eqb) ts1 ts2 && leqb (leqb onum_eqb) fv1 fv2
  && leqb (leqb (peqb str_eqb (leqb ostr_eqb))) tv1 tv2.
(* after every call the compiled object must be the observed one, and the compiled getters must answer what the real getters answered;
   the number of the first call where they do not (0 = all agree) *)
Fixpoint walk (g : pyindex) (k : nat) (l : list (iop * pyindex * (nat * bool * list (list str) * list (list Z) * list (list (option num)) * list (list (str * list (option str)))))) : nat :=
  match l with [] => 0 | (o, want, ans) :: r => let g' := istep g o in if pyindex_eqb g' want && answers_eqb (answers g') ans then walk g' (S k) r else S k end.
Definition start (v : bool) : pyindex := IndexGen.gen___init__ py_blank v.
"""


def _point(rng, t):
    tags = {k: rng.choice(["x", "y", "", None, "ab"]) for k in sorted(rng.sample(["a", "b", "k", "zone"], rng.choice([0, 1, 2, 3])))}
    fields = {k: rng.choice([None, 0, 1, 2.5, -1, 10]) for k in sorted(rng.sample(["a", "b", "v"], rng.choice([0, 1, 2])))}
    return {"time": t, "meas": rng.choice(["m1", "m2", "_default"]), "tags": tags, "fields": fields}


def _real(tf, p):
    return tf.Point(time=datetime(1970, 1, 1, tzinfo=timezone.utc) + timedelta(microseconds=p["time"]), measurement=p["meas"], tags=dict(p["tags"]), fields=dict(p["fields"]))


def _snapshot(ix):
    us = lambda ts: round(ts * 1000000)
    return {"n": ix._num_items, "tags": [(k, [(v, list(b)) for v, b in inner.items()]) for k, inner in ix._tags.items()],
            "fields": [(k, [(i, x) for i, x in b]) for k, b in ix._fields.items()], "meas": [(k, list(b)) for k, b in ix._measurements.items()],
            "ts": [us(t) for t in ix._timestamps], "valid": bool(ix._valid), "pos": list(ix._storage_pos_sorted_by_ts)}


def _answers(ix):
    us = lambda ts: round(ts * 1000000)
    snl = lambda vals: sorted(vals, key=lambda x: (x is None, x or ""))
    tv = lambda ks, m: [(k, snl(v)) for k, v in sorted(ix.get_tag_values(ks, m).items())]
    return {"len": len(ix), "valid": bool(ix.valid),
            "meas": [sorted(ix.get_measurements())] + [sorted(ix.get_field_keys(m)) for m in (None, "m1", "")] + [sorted(ix.get_tag_keys(m)) for m in (None, "m1", "m2")],
            "tv": [tv([], None), tv([], "m1"), tv(["a", "zz"], None), tv(["a", "b", "a"], "m1"), tv(["zz"], "z")],
            "ts": [[us(t) for t in ix.get_timestamps(m)] for m in (None, "m1", "m2", "")],
            "fv": [list(ix.get_field_values(k, m)) for k in ("a", "v") for m in (None, "m1", "")]}


def _cans(a):
    return (f"({a['len']}, {M.cbool(a['valid'])}, {M.clist(a['meas'], lambda l: M.clist(l, M.cstr))}, {M.clist(a['ts'], lambda l: M.clist(l, M.cz))}, "
            f"{M.clist(a['fv'], lambda l: M.clist(l, lambda x: M.copt(x, M.cnum)))}, "
            + M.clist(a['tv'], lambda d: M.clist(d, lambda kv: f"({M.cstr(kv[0])}, {M.clist(kv[1], lambda x: M.copt(x, M.cstr))})")) + ")")


def _csnap(s):
    nats = lambda b: M.clist(b, str)
    tags = M.clist(s["tags"], lambda kd: f"({M.cstr(kd[0])}, {M.clist(kd[1], lambda vb: f'({M.copt(vb[0], M.cstr)}, {nats(vb[1])})')})")
    fields = M.clist(s["fields"], lambda kb: f"({M.cstr(kb[0])}, {M.clist(kb[1], lambda ix: f'({ix[0]}, {M.copt(ix[1], M.cnum)})')})")
    meas = M.clist(s["meas"], lambda kb: f"({M.cstr(kb[0])}, {nats(kb[1])})")
    return f"(mkPy {s['n']} {tags} {fields} {meas} {M.clist(s['ts'], M.cz)} {M.cbool(s['valid'])} {nats(s['pos'])})"


def sequences(tf, seed, n):
    """-> list of (valid0, [(coq op text, snapshot after it)], readable ops)"""
    from tinyflux.index import Index
    out = []
    for c in range(n):
        rng = random.Random((seed << 10) + c)
        valid0 = rng.random() < 0.8
        ix = Index(valid=valid0)
        pts, steps, readable = [], [], []
        t = T0 + rng.randrange(5) * 1000000
        for _ in range(rng.choice([3, 5, 8])):
            k = rng.choice(["build", "insert", "insert", "insert", "remove", "remove", "reset", "invalidate"])
            if k == "build":
                pts = []
                for _i in range(rng.choice([0, 1, 3, 6])):
                    pts.append(_point(rng, T0 + rng.randrange(-3, 9) * 1000000 + rng.choice([0, 0, 1])))
                ix.build([_real(tf, p) for p in pts])
                op = f"IBuild {M.clist(pts, M.cpoint)}"
                t = max([p["time"] for p in pts], default=t)
            elif k == "insert":
                t += rng.choice([0, 1, 1000000])
                p = _point(rng, t)
                pts.append(p)
                ix.insert([_real(tf, p)])
                op = f"IInsert {M.cpoint(p)}"
            elif k == "remove":
                if not pts:
                    continue
                r = sorted(rng.sample(range(len(pts)), rng.randrange(0, len(pts) + 1)))
                kept = [i for i in range(len(pts)) if i not in r]
                u = {old: new for new, old in enumerate(kept) if new != old}
                rs = set(r)
                ix.remove(rs)
                ix.update(u)
                pts = [pts[i] for i in kept]
                # the set is handed to the compiled code in CPython's iteration order of that set object
                op = f"IRemove {M.clist(list(rs), str)} {M.clist(list(u.items()), lambda kv: f'({kv[0]}, {kv[1]})')}"
            elif k == "reset":
                ix._reset()
                pts = []
                op = "IReset"
            else:
                ix.invalidate()
                pts = []
                op = "IInvalidate"
            steps.append((op, _snapshot(ix), _answers(ix)))
            readable.append(op[:60])
        out.append((valid0, steps, readable))
    return out


def check(ck, tf, refused, n=None):
    """runs the tie; a difference is a violation without a failing input (the translator, or the semantics layer it compiles to, misreads the source)"""
    if any("index maintenance" in x for x in refused):
        ck.notes.append("index-maintenance compiler: translation refused, differential validation skipped")
        return {"skipped": "translation refused"}
    n = n or (60 if ck.tier == "quick" else 600)
    seqs = sequences(tf, ck.seed, n)
    f = ck.work / "cases_indexgen.v"
    lines = [HEADER, "Definition results : list nat := ["]
    lines.append(";\n".join(f"walk (start {M.cbool(v)}) 0 [" + "; ".join(f"({op}, {_csnap(s)}, {_cans(a)})" for op, s, a in steps) + "]" for v, steps, _ in seqs))
    lines.append("].\nEval vm_compute in results.")
    f.write_text("\n".join(lines) + "\n")
    rc, out = coqc_file(f, timeout=900)
    nums = parse_nat_list(out) if rc == 0 else None
    stats = {"sequences": len(seqs), "calls": sum(len(s[1]) for s in seqs), "agree": None}
    if nums is None or len(nums) != len(seqs):
        ck.violation({"kind": "model-evaluation-failed", "what_no_longer_checks": "cases_indexgen.v (the compiled index maintenance evaluated on the calls the real Index object ran)",
                      "log": out[-800:]}, no_input=True)
        return stats
    stats["agree"] = sum(1 for x in nums if x == 0)
    bad = [(i, x) for i, x in enumerate(nums) if x != 0]
    if bad:
        i, x = bad[0]
        ck.violation({"kind": "correspondence-broken", "what_no_longer_checks": "the compiled index maintenance (gen/IndexGen.v, harness/py2coq_index.py over IndexSem.v) against the real "
                      "tinyflux.index.Index object: attributes or getter answers after call number " + str(x) + " differ", "calls": seqs[i][2], "initially_valid": seqs[i][0],
                      "attributes_of_the_real_object_after_that_call": {k: str(v)[:300] for k, v in seqs[i][1][x - 1][1].items()},
                      "answers_of_the_real_getters_after_that_call": {k: str(v)[:300] for k, v in seqs[i][1][x - 1][2].items()}}, no_input=True)
    return stats
