#!/usr/bin/env python3
"""Fail-closed translator: tinyflux/database.py (the ARGUMENT CHECKS at the head of TinyFlux._generate_updater) -> coq/gen/UpdArgGen.v

Before it builds the per-point updater, _generate_updater decides which static arguments of update / update_all are rejected: nothing given at
all; a time that is no datetime; a measurement that is no str; tags / fields that the validators of point.py reject; unset_tags / unset_fields
that are neither a str nor an iterable of str.  Each of these `if` statements is translated - its condition as written - into a boolean function of
the argument's value (Valid.pyval; ValidSem / UpdArgSem primitives: truthiness, callable(), isinstance for the classes that occur, all(.. for i in x));
`validate_tags(x)` / `validate_fields(x)` are the validators REGENERATED from point.py (gen/ValidGen.v).  proofs/UpdArgGenP.v proves the
generated decisions equal to the model's (Valid.upd_arg, Valid.unset_ok), so the C14 theorem about update arguments (C14_update_argument) is
about the checks the source makes now.

Accepted: the statements before `def perform_update`, each an `if` over ONE argument name (or the first, over all six) whose body is a single
`raise ValueError(..)`, a single `validate_x(name)` call, or `name = tuple(name)` (one-shot iterables are read once: the identity on values).
Anything else: REFUSED (exit 3), harness/UpdArgGen.fallback.v stands in.
Usage: py2coq_updarg.py <path/to/database.py> <out.v>
"""
import ast
import os
import sys

FALLBACK_FILE = os.path.join(os.path.dirname(os.path.abspath(__file__)), "UpdArgGen.fallback.v")
ARGS = ["time", "measurement", "tags", "fields", "unset_fields", "unset_tags"]
CLASSES = {"datetime": "CDatetime", "str": "CStr"}


class Refuse(Exception):
    pass


def U(n):
    return ast.unparse(n)


class Tr:
    def __init__(self):
        self.names = set()

    def cond(self, e, bound=()):
        if isinstance(e, ast.Name):
            if e.id in ARGS:
                self.names.add(e.id)
                return f"(truthy_v {e.id})"
            raise Refuse(f"truth value of `{e.id}`")
        if isinstance(e, ast.UnaryOp) and isinstance(e.op, ast.Not):
            return f"(negb {self.cond(e.operand, bound)})"
        if isinstance(e, ast.BoolOp):
            parts = [self.cond(v, bound) for v in e.values]
            op = "andb" if isinstance(e.op, ast.And) else "orb"
            out = parts[-1]
            for p in reversed(parts[:-1]):
                out = f"({op} {p} {out})"
            return out
        if isinstance(e, ast.Call) and isinstance(e.func, ast.Name) and not e.keywords:
            if e.func.id == "callable" and len(e.args) == 1 and isinstance(e.args[0], ast.Name) and e.args[0].id in ARGS:
                self.names.add(e.args[0].id)
                return f"(is_callable {e.args[0].id})"
            if e.func.id == "isinstance" and len(e.args) == 2 and isinstance(e.args[0], ast.Name) and isinstance(e.args[1], ast.Name):
                x, c = e.args[0].id, e.args[1].id
                if x in ARGS:
                    self.names.add(x)
                elif x not in bound:
                    raise Refuse(f"isinstance of `{x}`")
                if c == "Iterable":
                    return f"(is_iterable {x})"
                if c in CLASSES:
                    return f"(isinst {CLASSES[c]} {x})"
                raise Refuse(f"isinstance(.., {c})")
            if e.func.id == "all" and len(e.args) == 1 and isinstance(e.args[0], ast.GeneratorExp):
                g = e.args[0]
                if len(g.generators) != 1 or g.generators[0].ifs or not isinstance(g.generators[0].target, ast.Name) or not isinstance(g.generators[0].iter, ast.Name) \
                        or g.generators[0].iter.id not in ARGS:
                    raise Refuse(f"`{U(e)}`")
                i, x = g.generators[0].target.id, g.generators[0].iter.id
                self.names.add(x)
                return f"(forallb (fun {i} : pyval => {self.cond(g.elt, bound + (i,))}) (pv_iter {x}))"
        raise Refuse(f"condition `{U(e)}`")


def translate(src):
    tree = ast.parse(src)
    cls = [n for n in tree.body if isinstance(n, ast.ClassDef) and n.name == "TinyFlux"]
    if len(cls) != 1:
        raise Refuse("class TinyFlux not found")
    fn = [n for n in cls[0].body if isinstance(n, ast.FunctionDef) and n.name == "_generate_updater"]
    if len(fn) != 1:
        raise Refuse("_generate_updater not found")
    fn = fn[0]
    params = [a.arg for a in fn.args.args]
    if params != ["self", "query"] + ARGS[:4] + ["unset_fields", "unset_tags"] or fn.args.vararg or fn.args.kwarg:
        raise Refuse(f"_generate_updater: unexpected signature {params}")
    stmts = [s for s in fn.body if not (isinstance(s, ast.Expr) and isinstance(s.value, ast.Constant))]
    head = []
    for s in stmts:
        if isinstance(s, ast.FunctionDef):
            if s.name != "perform_update":
                raise Refuse(f"unexpected inner function {s.name}")
            break
        head.append(s)
    else:
        raise Refuse("perform_update not found")
    rejected = {a: [] for a in ARGS}
    nothing = None
    converted = set()
    for s in head:
        if U(s).startswith("if query and (not isinstance(query, (SimpleQuery, CompoundQuery))):\n    raise ValueError("):
            continue          # the check of the query argument (skeleton, not translated: queries are typed in the model)
        if not isinstance(s, ast.If) or s.orelse or len(s.body) != 1:
            raise Refuse(f"statement before perform_update that is not a one-armed if: `{U(s)[:60]}`")
        t = Tr()
        c = t.cond(s.test)
        b = s.body[0]
        if set(t.names) == set(ARGS):
            if not (isinstance(b, ast.Raise) and U(b).startswith("raise ValueError(")) or nothing is not None:
                raise Refuse("the test over all six arguments does not raise ValueError (or occurs twice)")
            nothing = c
            continue
        if len(t.names) != 1:
            raise Refuse(f"a check that reads several arguments: {sorted(t.names)}")
        x = next(iter(t.names))
        if isinstance(b, ast.Raise) and U(b).startswith("raise ValueError("):
            if x in converted or True:
                rejected[x].append(c)
        elif isinstance(b, ast.Expr) and isinstance(b.value, ast.Call) and U(b.value) in (f"validate_tags({x})", f"validate_fields({x})") and x in ("tags", "fields") \
                and U(b.value.func) == f"validate_{x}":
            rejected[x].append(f"(andb {c} (negb (ValidGen.validate_{x} {x})))")
        elif U(b) == f"{x} = tuple({x})" and x in ("unset_tags", "unset_fields") and not rejected[x]:
            converted.add(x)          # reading a one-shot iterable once: the identity on values (and before the check of x, as required here)
        else:
            raise Refuse(f"unexpected body of the check of `{x}`: `{U(b)[:60]}`")
    if nothing is None:
        raise Refuse("the `must include one of` test is missing")
    out = [HEADER, "Definition refused : bool := false.\n\n"]
    out.append("Definition gen_nothing_given (" + " ".join(ARGS) + f" : pyval) : bool :=\n  {nothing}.\n\n")
    for x in ARGS:
        if not rejected[x]:
            raise Refuse(f"`{x}` is not checked at all")
        body = rejected[x][0]
        for c in rejected[x][1:]:
            body = f"(orb {body} {c})"
        out.append(f"Definition gen_rejected_{x} ({x} : pyval) : bool :=\n  {body}.\n\n")
    return "".join(out)


HEADER = """(* GENERATED on every run by harness/py2coq_updarg.py from tinyflux/database.py (the argument checks of TinyFlux._generate_updater) - do not edit.
   proofs/UpdArgGenP.v proves them the model's Valid.upd_arg / Valid.unset_ok. *)
From Coq Require Import List Bool.
From TF Require Import Base Valid ValidSem UpdArgSem.
From TF Require gen.ValidGen.
Import ListNotations.

"""


def main():
    src, out_path = sys.argv[1], sys.argv[2]
    refused = None
    try:
        text = translate(open(src).read())
    except (Refuse, SyntaxError, OSError) as r:
        refused = str(r)
        snap = open(FALLBACK_FILE).read().replace("Definition refused : bool := false.", "Definition refused : bool := true.")
        text = "(* REFUSED by the translator: " + refused[:140].replace("*", "x").replace("(", "[").replace(")", "]").replace('"', "'") + \
               " - the last verified translation (harness/UpdArgGen.fallback.v) stands in *)\n" + snap
    try:
        old = open(out_path).read()
    except FileNotFoundError:
        old = None
    if old != text:
        open(out_path, "w").write(text)
    if refused:
        print(f"REFUSED update arguments: {refused}")
    return 3 if refused else 0


if __name__ == "__main__":
    sys.exit(main())
