#!/usr/bin/env python3
"""c08_worker.py <TZ> <seed> <n>: runs in a process whose local zone is TZ; builds time-centred histories, runs them on the
implementation and prints {"cases": [[csv, auto, ops, outs], ...], "kinds": {...}} as JSON (datetime objects stripped)."""
import json
import os
import random
import sys
import time

tz, seed, n = sys.argv[1], int(sys.argv[2]), int(sys.argv[3])
os.environ["TZ"] = tz
time.tzset()
sys.path.insert(0, os.path.dirname(os.path.abspath(__file__)))
from datetime import datetime, timedelta, timezone  # noqa: E402
import zoneinfo  # noqa: E402

from common import *  # noqa: E402,F401,F403
import dbgen  # noqa: E402
import dbimpl  # noqa: E402
import dbmodel as M  # noqa: E402

tf = use_impl()
US = timedelta(microseconds=1)


def us(dt):
    return (dt - M.EPOCH) // US


# instants around which local time is discontinuous in the four zones, and the ends of the supported range
PIVOTS = [datetime(2021, 3, 14, 10, 0, tzinfo=timezone.utc), datetime(2021, 11, 7, 9, 0, tzinfo=timezone.utc),          # Los Angeles gap / fold
          datetime(2021, 4, 3, 15, 0, tzinfo=timezone.utc), datetime(2021, 10, 2, 15, 30, tzinfo=timezone.utc),         # Lord Howe fold (30 min) / gap
          datetime(1985, 12, 31, 18, 30, tzinfo=timezone.utc),                                                            # Kathmandu +5:30 -> +5:45
          datetime(1700, 1, 2, tzinfo=timezone.utc), datetime(2239, 12, 30, tzinfo=timezone.utc), datetime(1970, 1, 1, tzinfo=timezone.utc),
          datetime(2020, 6, 1, 12, 0, tzinfo=timezone.utc)]
PIVOT_ZONE = {0: "America/Los_Angeles", 1: "America/Los_Angeles", 2: "Australia/Lord_Howe", 3: "Australia/Lord_Howe", 4: "Asia/Kathmandu"}
kinds = {}
prefer_zone = [None]      # the zoneinfo zone whose DST change the current history sits on


def represent(rng, instant_us, kinds_=("utc", "fixed", "fixed", "zoneinfo", "naive", "naive")):
    """the instant as a caller might hand it in -> (datetime object, the instant Python itself assigns to it, kind)"""
    d = M.dt_of(instant_us)
    k = rng.choice(kinds_)
    if k == "fixed":
        off = timezone(timedelta(minutes=rng.choice([-720, -480, -210, 1, 330, 345, 630, 840])))
        x = d.astimezone(off)
    elif k == "zoneinfo":
        zones = ["America/Los_Angeles", "Australia/Lord_Howe", "Asia/Kathmandu", "Europe/London"] + ([prefer_zone[0]] * 4 if prefer_zone[0] else [])
        x = d.astimezone(zoneinfo.ZoneInfo(rng.choice(zones)))
    elif k == "naive":
        x = d.astimezone().replace(tzinfo=None)          # local wall clock, fold kept
        if rng.random() < 0.3:
            x = x.replace(fold=1 - x.fold)               # the other reading of an ambiguous time (a no-op elsewhere)
    else:
        x = d
    kinds[k] = kinds.get(k, 0) + 1
    inst = us(x.astimezone(timezone.utc)) if x.tzinfo is None else us(x)
    return x, inst, k


def tpoint(g, rng, base_us):
    p = g.point(base_us)
    x, inst, _ = represent(rng, base_us)
    p["time"], p["dt"] = inst, x
    return p


def history(h):
    rng = random.Random((seed << 16) + h)
    g = dbgen.Gen((seed << 18) + h, {})
    csv = h % 2 == 0
    auto = h % 4 < 2 or h % 8 == 7
    pi = rng.randrange(len(PIVOTS))
    pivot = us(PIVOTS[pi])
    prefer_zone[0] = PIVOT_ZONE.get(pi)
    step = rng.choice([1, 1, 1_800_000_000, 3_600_000_000, 60_000_000])
    base = [pivot + (i - 3) * step for i in range(rng.choice([4, 6, 8]))]
    if rng.random() < 0.4:
        base.append(base[1])                                    # a tie
    if rng.random() < 0.4:
        rng.shuffle(base)
    pts = [tpoint(g, rng, b) for b in base]
    ops = [("insert", pts, None, "multiple")] if rng.random() < 0.5 else [("insert", [p], None) for p in pts]
    ops += [("index_valid",), ("iter",), ("count", ("noop", "tags"), None), ("index_valid",)]
    # a late point: earlier than the newest one by less than the zone's offset
    newest = max(p["time"] for p in pts)
    late = tpoint(g, rng, newest - rng.choice([1, 1_000_000, 1_800_000_000, 3 * 3_600_000_000, 7 * 3_600_000_000]))
    ops += [("insert", [late], None), ("index_valid",), ("iter",)]
    allp = pts + [late]

    def tq():
        t = rng.choice(allp)["time"] + rng.choice([0, 0, 1, -1, step // 2])
        # comparison values must be timezone-aware (documented); zoneinfo zones give wall-clock times inside folds and gaps
        x, inst, _ = represent(rng, t, ("utc", "fixed", "zoneinfo", "zoneinfo"))
        return ("S", "time", [], ("cmp", rng.choice(["<", "<=", ">", ">=", "==", "!="]), ("t", inst, x)))
    for _ in range(5):
        ops.append(rng.choice([("search", tq(), None, rng.random() < 0.6), ("count", tq(), None), ("get_timestamps", None),
                               ("select", ["time"], tq(), None), ("all", True), ("search", ("and", tq(), tq()), None, True)]))
    # equality against exactly a stored instant, the comparison value expressed in the zone whose DST change this is
    for c in ("==", "!="):
        tp = rng.choice(allp)["time"]
        x, inst, _ = represent(rng, tp, ("zoneinfo",))
        ops.append(("count", ("S", "time", [], ("cmp", c, ("t", inst, x))), None))
    # update(time=...): static in some zone, and through callables (identity, +1h returned in +05:00)
    tgt = rng.choice(allp)
    x, inst, _ = represent(rng, tgt["time"] + rng.choice([1, 3_600_000_000, -86_400_000_000]))
    one = ("S", "time", [], ("cmp", "==", ("t", tgt["time"])))
    ops += [("update", one, {"time": ("static", inst), "dt": x}, None), ("index_valid",), ("iter",)]
    ops += [("update", tq(), {"time": ("call", rng.choice([5, 5, 0, 3]))}, None), ("index_valid",), ("iter",), ("get_timestamps", None), ("all", True)]
    if csv:
        ops += [("reopen", rng.random() < 0.5), ("iter",), ("all", True), ("search", tq(), None, True)]
    # an untimed point receives the insertion time
    q = g.point(None)
    q["time"] = None
    ops += [("insert", [q], None), ("iter",), ("len",)]
    return csv, auto, ops


def strip(x):
    if isinstance(x, dict):
        return {k: strip(v) for k, v in x.items() if k != "dt"}
    if isinstance(x, (list, tuple)):
        y = [strip(i) for i in x if not isinstance(i, datetime)]
        return y
    return x


def keep(x):
    """outputs: datetimes (select on time) travel as {"__us__": instant}"""
    if isinstance(x, datetime):
        return {"__us__": M.us_of(x)}
    if isinstance(x, dict):
        return {k: keep(v) for k, v in x.items()}
    if isinstance(x, (list, tuple)):
        return [keep(i) for i in x]
    return x


cases = []
work = os.environ.get("C08_WORK", "/verif/.work/c08w")
for h in range(n):
    csv, auto, ops = history(h)
    outs = dbimpl.run_history(tf, csv, auto, ops, os.path.join(work, f"{tz.replace('/', '_')}_{h}"))
    cases.append([csv, auto, strip(ops), keep(outs)])
# plus ordinary histories (their datetimes are already handed in through several zones)
for h in range(max(n // 2, 44)):
    csv, auto = [(False, True), (True, True), (True, False), (False, False)][h % 4]
    prof = {"p_write": 0.5, "p_scenario": 0.5, "scenario_pref": ['noop_match', 'minute_marks', 'minute_marks', "fold_twins", "redate", "zones", "ooo_batch", "fold_twins", "big_ties", "future_untimed", "epoch", "range_ends", "noop_compose"]}
    if h < 44:
        # every time-centred scenario once in every configuration
        prof.update(p_scenario=1.0, scenario_force=["big_ties", "fold_twins", "redate", "zones", "future_untimed", "epoch", "range_ends", "noop_compose", "noop_match", "minute_marks", "front_rows_removed"][(h // 4) % 11])
    g = dbgen.Gen((seed << 20) + 7777 + h, prof)
    ops = g.history(csv)
    outs = dbimpl.run_history(tf, csv, auto, ops, os.path.join(work, f"{tz.replace('/', '_')}_r{h}"))
    cases.append([csv, auto, strip(ops), keep(outs)])
print(json.dumps({"cases": cases, "kinds": kinds}))
