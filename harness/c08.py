"""C08: timestamps are stored as exact UTC instants and ordered correctly."""
import json
import os
import subprocess
from collections import Counter
from concurrent.futures import ThreadPoolExecutor

from common import *  # noqa
import dbtie
import pyspec

ZONES = ["UTC", "America/Los_Angeles", "Australia/Lord_Howe", "Asia/Kathmandu"]


def tup(x):
    """JSON lists back to the tuples of the neutral representation (ops, queries, values)"""
    if isinstance(x, list):
        if x and isinstance(x[0], str) and x[0] in HEADS:
            return tuple(tup(i) for i in x)
        return [tup(i) for i in x]
    if isinstance(x, dict):
        return {k: tup(v) for k, v in x.items()}
    return x


HEADS = {"insert", "remove", "drop", "remove_all", "update", "update_all", "search", "count", "contains", "get", "select", "all", "len",
         "iter", "file", "get_measurements", "get_tag_keys", "get_tag_values", "get_field_keys", "get_field_values", "get_timestamps",
         "reindex", "reopen", "index_valid", "handle", "S", "noop", "and", "or", "not", "cmp", "exists", "match", "user",
         "k", "m", "t", "s", "n", "none", "static", "call", "points", "point", "nat", "bool", "sel", "strs", "tagvals", "nums", "times", "unit", "raise"}


def stamp_tie(ck, seed, n):
    """the float stamps the index stores (index._timestamps after inserting points at the instants) are bit for bit Stamp.stamp of the instant"""
    import random
    from datetime import datetime, timedelta, timezone
    tf = use_impl()
    from tinyflux.storages import MemoryStorage
    rng = random.Random(seed * 7919 + 8)
    lo, hi = -8520336000000000, 8520336000000000
    inst = {lo, lo + 1, hi - 1, hi, -1, 0, 1}
    for k in range(54):
        for c in (2 ** k * 10 ** 6, -2 ** k * 10 ** 6, 2 ** k, -2 ** k):
            inst.update(c + d for d in range(-2, 3))
    while len(inst) < n:
        inst.add(rng.randint(lo, hi) if rng.random() < 0.7 else rng.randint(-10 ** rng.randint(1, 15), 10 ** rng.randint(1, 15)))
    inst = sorted(t for t in inst if lo <= t <= hi)
    rng.shuffle(inst)
    epoch = datetime(1970, 1, 1, tzinfo=timezone.utc)
    db = tf.TinyFlux(storage=MemoryStorage)
    db.insert_multiple([tf.Point(time=epoch + timedelta(microseconds=t), tags={"i": str(i)}) for i, t in enumerate(inst)])
    db.reindex()
    # what comes back: get_timestamps (served by the valid index from the float stamps) must give exactly the instants that went in
    back_bad = []
    try:
        back = [int((x - epoch) // timedelta(microseconds=1)) if x.tzinfo is not None else None for x in db.get_timestamps()]
        want = sorted(inst)
        if sorted(b for b in back if b is not None) != want or len(back) != len(want):
            diff = [(w, b) for w, b in zip(want, sorted(b for b in back if b is not None)) if w != b][:3]
            back_bad = diff or [("count", len(back), len(want))]
    except Exception as e:  # noqa
        back_bad = [("raise", type(e).__name__, str(e)[:100])]
    stamp_tie.back_bad = back_bad
    stored = getattr(db.index, "_timestamps", None)
    pairs = []
    if stored is not None and len(stored) == len(inst):
        pairs = list(zip(sorted(inst), [float(x).hex() for x in stored]))          # the index keeps its stamps in time order
    else:
        pairs = [(t, (epoch + timedelta(microseconds=t)).timestamp().hex()) for t in sorted(inst)]
    def lit(h):
        return f"({h})%float" if h.startswith("-") else f"{h}%float"
    f = ck.work / "cases_c08_stamp.v"
    f.write_text("From Coq Require Import List ZArith Floats.\nFrom TF Require Import Stamp.\nImport ListNotations.\nOpen Scope Z_scope.\n"
                 "Definition same (a b : float) : bool := PrimFloat.eqb a b && PrimFloat.eqb (PrimFloat.div 1 a) (PrimFloat.div 1 b).\n"
                 "Definition cases : list (Z * float) := [\n" + ";\n".join(f"(({t}), {lit(h)})" for t, h in pairs) + "].\n"
                 "Eval vm_compute in map fst (filter (fun c => negb (same (stamp (fst c)) (snd c))) cases).\n")
    rc, out = coqc_file(f, timeout=900)
    bad = parse_nat_list(out) if rc == 0 else None
    if bad is None:
        return len(pairs), [], out[-800:]
    d = dict(pairs)
    return len(pairs), [(t, d.get(t)) for t in bad], None


def large_index(tf, sizes=(2100, 4300)):
    """an index of some thousand entries with runs of tied instants (three points each): every comparison operator asked at the instants around the
    entries n-4096, n-2048, n-1024, n/2, the first and the last, and half a second beside them; count / search through the index must be what the
    plain reading of the stored points says.  -> (failing inputs, number of queries checked)"""
    import operator as _op
    from datetime import datetime as _dt, timedelta as _td, timezone as _tz
    bad, checked = [], 0
    base = _dt(2021, 3, 1, tzinfo=_tz.utc)
    ops = [("==", _op.eq), ("!=", _op.ne), ("<", _op.lt), ("<=", _op.le), (">", _op.gt), (">=", _op.ge)]
    for n in sizes:
        for width, shift in ((3, 0), (3, 1), (5, 2)):
            times = [base + _td(seconds=(i + shift) // width) for i in range(n)]
            db = tf.TinyFlux(storage=tf.storages.MemoryStorage)
            db.insert_multiple([tf.Point(time=t, measurement="m", tags={"i": str(i % 7)}, fields={"v": i}) for i, t in enumerate(times)])
            marks = sorted({max(0, min(n - 1, m + d)) for m in (0, n - 4096, n - 2048, n - 1024, n // 2, n - 1) for d in (-width, -1, 0, 1, width)})
            for m in marks:
                for probe in (times[m], times[m] + _td(microseconds=500000)):
                    for name, f in ops:
                        q = f(tf.TimeQuery(), probe)
                        want = sum(1 for t in times if f(t, probe))
                        try:
                            got = db.count(q)
                            got2 = len(db.search(q & (tf.TagQuery().i == "3")))
                        except Exception as e:  # noqa
                            got, got2 = type(e).__name__, None
                        want2 = sum(1 for i, t in enumerate(times) if f(t, probe) and i % 7 == 3)
                        checked += 1
                        if (got != want or got2 != want2) and len(bad) < 2:
                            bad.append({"points": f"{n} points in one insert_multiple (memory), point i at 2021-03-01T00:00:00Z + ((i + {shift}) // {width}) s, tag i = i % 7",
                                        "query": f"TimeQuery() {name} {probe.isoformat()}", "index_valid": db.index.valid, "count": got, "plain_reading": want,
                                        "len(search(query & (TagQuery().i == '3')))": got2, "plain_reading_of_that": want2})
            db.close()
    return bad, checked


def main(tier, seed):
    ck = Check("C08", tier, seed)
    b = ck.build_proofs("Prop_C08", extra_targets=["Run.vo"])
    n = 64 if tier == "quick" else 400

    def worker(z):
        env = dict(os.environ, **impl_env(z), C08_WORK=str(ck.work / "w"), VERIF_REPO=str(REPO))
        p = subprocess.run([PY, str(VERIF / "harness" / "c08_worker.py"), z, str(seed), str(n)], env=env, capture_output=True, text=True, timeout=3000)
        line = [l for l in p.stdout.splitlines() if l.startswith("{")]
        if p.returncode != 0 or not line:
            return z, None, (p.stdout + p.stderr)[-1500:]
        return z, json.loads(line[-1]), None
    with ThreadPoolExecutor(max_workers=4) as ex:
        results = list(ex.map(worker, ZONES))
    cases, zone_of, kinds, failed_workers = [], [], Counter(), []
    for z, res, err in results:
        if res is None:
            failed_workers.append((z, err))
            continue
        for c in res["cases"]:
            csv, auto, ops, outs = c
            cases.append((csv, auto, [tup(o) for o in ops], [tup(o) for o in outs]))
            zone_of.append(z)
        kinds.update({f"{z}:{k}": v for k, v in res["kinds"].items()})
    # the model on the same histories
    files, shard = [], 40
    for i in range(0, len(cases), shard):
        f = ck.work / f"cases_c08_{i // shard}.v"
        dbtie.emit_cases(f, cases[i:i + shard])
        files.append((f, i))
    outs = ck.run_case_files([f for f, _ in files], timeout=1500)
    divergences, failed = [], []
    for f, base in files:
        rc, out = outs[f]
        nums = parse_nat_list(out) if rc == 0 else None
        if nums is None:
            failed.append((f.name, out[-600:]))
            continue
        for j in range(0, len(nums), 2):
            divergences.append((base + nums[j], nums[j + 1]))
    spec_bad, spec_checked = dbtie.direct_oracle(cases)
    stamp_n, stamp_bad, stamp_err = stamp_tie(ck, seed, 1500 if tier == "quick" else 12000)
    big_bad, big_checked = large_index(use_impl())
    for item in big_bad[:1]:
        ck.violation({"kind": "failing-input", "why": "a time comparison answered through a large index differs from the plain reading of the stored points", **item})
    if not b["ok"]:
        ck.violation({"kind": "proof-broken", "what_no_longer_checks": f"Prop_C08.v {b['theorems']}", "log": b["log"][-1500:], "forbidden": b["forbidden"]}, no_input=True)
    if stamp_err:
        ck.violation({"kind": "model-evaluation-failed", "what_no_longer_checks": "cases_c08_stamp.v (Stamp.stamp vs the float stamps the index stores)", "log": stamp_err}, no_input=True)
    for item in getattr(stamp_tie, "back_bad", [])[:1]:
        ck.violation({"kind": "failing-input", "why": "get_timestamps() on a valid index does not give back the instants that were inserted "
                      "(first differing pair: inserted, returned - microseconds since the epoch)", "first_difference": list(item),
                      "how_to_replay": "insert points at the instants of harness/c08.py stamp_tie into a MemoryStorage database and compare db.get_timestamps()"})
    for us, impl_hex in stamp_bad[:1]:
        ck.violation({"kind": "correspondence-broken", "instant_us": us, "index_stores": impl_hex,
                      "what_no_longer_checks": "Stamp.stamp (one correctly rounded binary64 division of the microsecond count by 10^6) vs the float the index stores for that instant "
                                               "(theorem C08_float_stamps_order_instants speaks about Stamp.stamp)"}, no_input=True)
    for z, err in failed_workers:
        ck.violation({"kind": "harness-failed", "what_no_longer_checks": f"worker process for TZ={z}", "log": err}, no_input=True)
    for name, tail in failed:
        ck.violation({"kind": "model-evaluation-failed", "what_no_longer_checks": name, "log": tail}, no_input=True)
    for ci, k, want in spec_bad[:2]:
        csv, auto, ops, outs_ = cases[ci]
        ck.violation({"kind": "failing-input", "config": {"csv": csv, "auto_index": auto, "TZ": zone_of[ci]}, "ops": ops[:k + 1], "first_differing_step": k,
                      "implementation_output": outs_[k], "spec_output": want,
                      "why": "with the process in this time zone the implementation's answer differs from the documented meaning (instants are microseconds since the epoch; "
                             "a returned time that is not an aware UTC datetime shows as an instant beyond 2**80)"})
    if not spec_bad:
        for ci, k in divergences[:2]:
            csv, auto, ops, outs_ = cases[ci]
            ck.violation({"kind": "correspondence-broken", "config": {"csv": csv, "auto_index": auto, "TZ": zone_of[ci]}, "ops": ops[:k + 1], "first_differing_step": k,
                          "implementation_output": outs_[k], "model_output_coq": dbtie.model_outputs(ck, (csv, auto, ops, outs_), k),
                          "what_no_longer_checks": "correspondence DB.v (instants as exact microseconds) vs the implementation run with local zone " + zone_of[ci]}, no_input=True)
    ck.cov = {
        "obligations": b["obligations"], "discharged": b["discharged"],
        "checker_cmd": "make -C /verif/coq Prop_C08.vo Run.vo; Print Assumptions per theorem; model evaluated by coqc/vm_compute on the histories run in each time zone",
        "trusted_base": TRUSTED_BASE_COMMON + [
            "hand model DB.v / Index.v with instants as exact Z microseconds, tied by correspondence in four process time zones",
            "datetime arithmetic (astimezone, the tz database, timestamp/fromtimestamp) is Python run time: the instant a handed-in datetime denotes is computed with Python itself",
            "Stamp.v / proofs/StampP.v: the float stamps of the index (one correctly rounded binary64 division of the microsecond count by 10^6) compare exactly as the "
            "integer instants for every pair in 1700-2240 - a theorem proved with Flocq 4 (Core, BinarySingleNaN, PrimFloat bridge) over the kernel's primitive floats",
            "axioms of C08_float_stamps_order_instants, all declared by the Coq standard library: the classical real numbers (ClassicalDedekindReals.sig_forall_dec, sig_not_dec), "
            "Classical_Prop.classic, FunctionalExtensionality.functional_extensionality_dep, and the primitive Uint63 / PrimFloat operations with their specifications "
            "(Uint63 *_spec, FloatAxioms *_spec); that CPython's float division and comparison are IEEE-754 binary64 round-to-nearest-even is trusted",
            "C08_float_stamps_adjacent_tested stays as a labelled test (vm_compute sweep), not a theorem",
            "Print Assumptions: " + json.dumps(b["assumptions"])],
        "theorems": b["theorems"], "forbidden_tokens_found": b["forbidden"],
        "evaluations": len(cases), "steps_compared": sum(len(c[2]) for c in cases),
        "distinct_nontrivial": len({json.dumps(c[2], default=str) for c in cases if any(o[0] == "update" for o in c[2])}),
        "rule": "per time zone (UTC, America/Los_Angeles, Australia/Lord_Howe, Asia/Kathmandu) a worker process with that local zone runs time-centred histories: "
                "points at adjacent microseconds, ties, 30/60-minute steps around DST gaps and folds, the ends of 1700-2240, handed in as UTC / fixed offsets / ZoneInfo / naive local "
                "(both readings of ambiguous times); a late point within the zone offset of the newest; the six comparison operators with comparison values in other zones, "
                "sorted reads, get_timestamps, select(time); update(time=static) and update(time=callable returning a +05:00 datetime); reopen; an untimed point "
                "(stamp checked against the harness's clock reads); plus ordinary histories; every step compared with the model and with the documented meaning; "
                "non-trivial = the history updates a time",
        "representations_by_zone": dict(kinds), "zones": ZONES,
        "float_stamps_compared_bit_for_bit": stamp_n, "instants_read_back_through_get_timestamps": stamp_n, "float_stamp_mismatches": len(stamp_bad),
        "float_stamp_rule": "points at the range ends, +-2^k seconds and +-2^k microseconds (+-2 us around each) and random instants are inserted; the floats the index then holds "
                            "(index._timestamps) must equal Stamp.stamp of the instant bit for bit (compared inside Coq against hexadecimal float literals)",
        "large_index_queries_checked": big_checked, "steps_compared_with_documented_meaning": spec_checked, "documented_meaning_mismatches": len(spec_bad),
        "traces_validated_against_impl": len(cases) - len({ci for ci, _ in divergences}),
        "samples": [{"TZ": zone_of[0], "ops": cases[0][2][:3]}] if cases else [],
    }
    return ck.finish(level="proof", extra_assumptions=["zone arithmetic and the tz database are Python run time, not modelled (partial by nature)",
                                                       "naive comparison values in TimeQuery are outside the documented domain"])
