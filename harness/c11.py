"""C11: decided on the database-level Coq model (DB.v) — theorems in coq/Prop_C11.v, tie by correspondence."""
import os
import tempfile
from datetime import datetime, timedelta, timezone

from common import *  # noqa
import dbtie

PROFILE = {'scenario_also': ['torn_gap', 'raising_test_update'], 'p_write': 0.6, 'raise_bias': True, "scenario_pref": ["torn_update", "bad_batch", "shared_maps", "torn_update"]}
UTC = timezone.utc
T0 = datetime(2020, 1, 1, tzinfo=UTC)


def snapshot(db):
    nn = lambda v: "nan" if isinstance(v, float) and v != v else v            # nan is not == nan: compare it as a token
    return [(p.time, p.measurement, dict(p.tags), {k: nn(v) for k, v in p.fields.items()}) for p in db.all(sorted=False)]


def extremes(tf):
    """(description, operation on a database) - values at the edge of what the types allow.  Whether the library accepts or rejects
    them is not judged here; only: a call that raises leaves the contents as they were, and afterwards the database answers about
    exactly what it holds."""
    P = tf.Point
    big = 10 ** 400
    ops = [
        ("insert a point at datetime.max", lambda db: db.insert(P(time=datetime.max.replace(tzinfo=UTC), tags={"e": "max"}, fields={"a": 1}))),
        ("insert a point at datetime.min + 2 days", lambda db: db.insert(P(time=(datetime.min + timedelta(days=2)).replace(tzinfo=UTC), tags={"e": "min"}, fields={"a": 1}))),
        ("insert a field value 10**400", lambda db: db.insert(P(time=T0 + timedelta(seconds=50), tags={"e": "big"}, fields={"a": big}))),
        ("insert a field value -10**400 in a batch", lambda db: db.insert_multiple([P(time=T0 + timedelta(seconds=51), fields={"a": 1}),
                                                                                      P(time=T0 + timedelta(seconds=52), fields={"a": -big}),
                                                                                      P(time=T0 + timedelta(seconds=53), fields={"a": 2})])),
        ("insert a field value nan", lambda db: db.insert(P(time=T0 + timedelta(seconds=54), fields={"a": float("nan")}))),
        ("insert a field value 1.7976931348623157e308", lambda db: db.insert(P(time=T0 + timedelta(seconds=55), fields={"a": 1.7976931348623157e308}))),
        ("insert a tag value of 70000 characters", lambda db: db.insert(P(time=T0 + timedelta(seconds=56), tags={"long": "x" * 70000}))),
        ("insert an empty tag key and an empty field key", lambda db: db.insert(P(time=T0 + timedelta(seconds=57), tags={"": "v"}, fields={"": 1.0}))),
        ("update every point to the field value 10**400", lambda db: db.update_all(fields={"b": big})),
        ("update every point to time datetime.max", lambda db: db.update_all(time=datetime.max.replace(tzinfo=UTC))),
        ("update every point to an aware time whose UTC form lies beyond datetime.max", lambda db: db.update_all(time=datetime(9999, 12, 31, 23, 30, tzinfo=timezone(timedelta(hours=-2))))),
        ("update every point to an aware time whose UTC form lies before datetime.min", lambda db: db.update_all(time=datetime(1, 1, 1, 0, 30, tzinfo=timezone(timedelta(hours=2))))),
        ("update the later points to an aware time whose UTC form lies beyond datetime.max", lambda db: db.update(tf.TagQuery().k != "0", time=datetime(9999, 12, 31, 23, 30, tzinfo=timezone(timedelta(hours=-2))))),
        ("insert a point whose aware time lies, in UTC, beyond datetime.max", lambda db: db.insert(P(time=datetime(9999, 12, 31, 23, 30, tzinfo=timezone(timedelta(hours=-2))), tags={"e": "over"}, fields={"a": 1}))),
        ("update with a callable returning a field value 10**400 for the later points",
         lambda db: db.update_all(fields=lambda f, _c=[0]: (_c.__setitem__(0, _c[0] + 1) or ({"b": big} if _c[0] >= 2 else {"b": 1})))),
    ]
    def twice(db):
        p = P(time=T0 + timedelta(seconds=58), tags={"e": "twice"}, fields={"v": 0})
        db.insert(p)
        db.insert(p)

    def raising_late(db):
        # a callable that fails at the LAST stored point, after every other point has been visited (and, in memory, changed and restored)
        n = len(list(db))
        c = [0]

        def f(fields):
            c[0] += 1
            if c[0] >= n:
                raise ZeroDivisionError("late")
            return {"v": (fields.get("v") or 0) + 1, "w": c[0]}
        return db.update_all(fields=f)
    ops += [
        ("insert one Point object twice", twice),
        ("insert a tag value outside ASCII", lambda db: db.insert(P(time=T0 + timedelta(seconds=59), tags={"city": "Z\u00fcrich"}, fields={"a": 1}))),
        ("insert a tag value holding the delimiter, a quote and a line break", lambda db: db.insert(P(time=T0 + timedelta(seconds=60), tags={"t": 'a,b"c\nd'}, fields={"a": 1}))),
        ("insert a lone surrogate as a tag value", lambda db: db.insert(P(time=T0 + timedelta(seconds=61), tags={"t": "\ud800"}, fields={"a": 1}))),
        ("insert text outside ASCII in a batch", lambda db: db.insert_multiple([P(time=T0 + timedelta(seconds=62), fields={"a": 1}),
                                                                               P(time=T0 + timedelta(seconds=63), tags={"city": "K\u00f6ln"}),
                                                                               P(time=T0 + timedelta(seconds=64), fields={"a": 2})])),
        ("update every point to a tag value outside ASCII", lambda db: db.update_all(tags={"city": "Z\u00fcrich"})),
    ]
    ops += [
        # values the validators reject although they are falsy and unhashable: rejected BEFORE anything is written
        ("insert a point whose tag value is an empty list", lambda db: db.insert(P(time=T0 + timedelta(seconds=65), tags={"labels": []}, fields={"a": 1}))),
        ("insert a point whose tag value is an empty dict", lambda db: db.insert(P(time=T0 + timedelta(seconds=66), tags={"labels": {}}, fields={"a": 1}))),
        ("update every point to a tag value that is an empty list", lambda db: db.update_all(tags={"labels": []})),
        ("update every point with a callable returning a tag value that is an empty set", lambda db: db.update_all(tags=lambda t_: {"labels": set()})),
        ("update every point to a field value that is an empty list", lambda db: db.update_all(fields={"x": []})),
    ]
    follow = [
        ("an update whose callable raises at the last point", raising_late),
        ("an ordinary insert (earlier time)", lambda db: db.insert(P(time=T0 - timedelta(seconds=5), tags={"f": "1"}, fields={"a": 5}))),
        ("an ordinary insert (later time)", lambda db: db.insert(P(time=T0 + timedelta(seconds=500), tags={"f": "2"}, fields={"a": 6}))),
        ("a removal through the index", lambda db: db.remove(tf.TagQuery().f == "1")),
    ]
    return ops, follow


def consistent(tf, db):
    """what the database answers about itself against what it returns as its contents; None or a description of the disagreement"""
    pts = snapshot(db)
    try:
        got = {"len": len(db), "count(noop)": db.count(tf.TagQuery().noop()), "get_measurements": list(db.get_measurements()),
               "get_tag_keys": list(db.get_tag_keys()), "get_field_keys": list(db.get_field_keys())}
    except Exception as e:  # noqa
        return f"a read raised {type(e).__name__}: {e}"
    want = {"len": len(pts), "count(noop)": len(pts), "get_measurements": sorted({p[1] for p in pts}),
            "get_tag_keys": sorted({k for p in pts for k in p[2]}), "get_field_keys": sorted({k for p in pts for k in p[3]})}
    bad = {k: (got[k], want[k]) for k in got if got[k] != want[k]}
    return None if not bad else "answers (got, held): " + str(bad)[:300]


def direct(ck, tf):
    from tinyflux.storages import MemoryStorage
    ops, follow = extremes(tf)
    n = 0
    import csv as _csv
    # storage configurations under which writing a VALID point can itself fail (an encoding that cannot express the text, a dialect
    # that cannot quote): the write raises inside storage, after validation
    for csv, skw in ((False, {}), (True, {}), (True, {"encoding": "ascii"}), (True, {"quoting": _csv.QUOTE_NONE}), (True, {"encoding": "latin-1", "flush_on_insert": False})):
        for auto in (True, False):
            for desc, op in ops:
                d = tempfile.mkdtemp(dir=str(ck.work))
                db = tf.TinyFlux(os.path.join(d, "db.csv"), auto_index=auto, **skw) if csv else tf.TinyFlux(storage=MemoryStorage, auto_index=auto)
                try:
                    db.insert_multiple([tf.Point(time=T0 + timedelta(seconds=i), measurement="m", tags={"k": str(i)}, fields={"a": float(i)}) for i in range(3)])
                    for step_desc, step in [(desc, op)] + follow:
                        n += 1
                        try:
                            before = snapshot(db)
                        except Exception:  # noqa  (an accepted extreme value the storage cannot give back: outside this check)
                            break
                        raised = None
                        try:
                            step(db)
                        except Exception as e:  # noqa
                            raised = type(e).__name__
                        try:
                            after = snapshot(db)
                        except Exception as e:  # noqa
                            if raised:
                                ck.violation({"kind": "failing-input", "config": {"csv": csv, "auto_index": auto, "storage_kwargs": {k_: str(v_) for k_, v_ in skw.items()}}, "first_step": desc, "step": step_desc,
                                              "why": f"the call raised {raised}; afterwards the contents cannot be read any more ({type(e).__name__})"})
                            break
                        why = None
                        if raised and after != before and not (step_desc.endswith("in a batch") and after[:len(before)] == before and len(after) == len(before) + 1):
                            why = f"the call raised {raised} but changed the stored contents ({len(before)} -> {len(after)} points)"
                        else:
                            c = consistent(tf, db)
                            if c:
                                why = ("after the call raised, " if raised else "after the call, ") + c
                        if why:
                            ck.violation({"kind": "failing-input", "config": {"csv": csv, "auto_index": auto, "storage_kwargs": {k_: str(v_) for k_, v_ in skw.items()}}, "first_step": desc, "step": step_desc, "why": why})
                            break
                finally:
                    try:
                        db.close()
                    except Exception:  # noqa
                        pass
    ck.notes.append(f"extreme-value steps checked directly: {n}")


from collections.abc import Mapping as _Mapping


class ReadOnlyMapping(_Mapping):
    """a Mapping that is no dict (no clear / update / item assignment): a valid tag or field set"""

    def __init__(self, d):
        self._d = dict(d)

    def __getitem__(self, k):
        return self._d[k]

    def __iter__(self):
        return iter(self._d)

    def __len__(self):
        return len(self._d)


def direct_exceptions(ck, tf, pid="C11"):
    """exceptions of every class raised by user code in the middle of a rewriting operation - StopIteration (an exhausted `next(...)` inside a
    callable), KeyError, a bare Exception subclass - reach the caller and leave the contents as they were, on small databases and on one whose
    file is larger than one I/O buffer; an exception leaving a `with TinyFlux(...) as db:` block reaches the caller too; afterwards an insert
    appends to exactly the old contents"""
    from tinyflux.storages import MemoryStorage
    n = 0

    class Custom(Exception):
        pass
    for csv in (False, True):
        for auto in (True, False):
            for size in (5, 260):
                for exc in (StopIteration, KeyError, Custom):
                    for where in ("middle", "last"):
                        for kind in ("update_all fields callable", "update tags callable", "remove query test", "update_all time callable"):
                            if size == 260 and (kind != "update_all fields callable" and exc is not StopIteration):
                                continue
                            d = tempfile.mkdtemp(dir=str(ck.work))
                            db = tf.TinyFlux(os.path.join(d, "db.csv"), auto_index=auto) if csv else tf.TinyFlux(storage=MemoryStorage, auto_index=auto)
                            try:
                                if not csv and size == 5:
                                    # the FIRST stored point holds values a round trip through the row format would not give back (MemoryStorage keeps
                                    # objects, nothing is serialised): an int beyond 2**53, the tag value "_none", the empty measurement
                                    db.insert(tf.Point(time=T0 - timedelta(seconds=10), measurement="", tags={"k": "_none", "pad": "_none"}, fields={"a": 2 ** 53 + 1}))
                                db.insert_multiple([tf.Point(time=T0 + timedelta(seconds=i), measurement="m", tags={"k": str(i), "pad": "x" * 20}, fields={"a": float(i)})
                                                    for i in range(size)])
                                if not csv and size == 5:
                                    # a tag / field set may be any Mapping: one stored point carries sets that are no dicts (read-only views)
                                    db.remove(tf.TagQuery().k == "1")
                                    db.insert(tf.Point(time=T0 + timedelta(seconds=1), measurement="m", tags=ReadOnlyMapping({"k": "1", "pad": "x" * 20}),
                                                       fields=ReadOnlyMapping({"a": 1.0})))
                                    db.reindex()

                                before = snapshot(db)
                                at = size // 2 if where == "middle" else size
                                c = [0]

                                def boom(x, _c=c, _at=at, _exc=exc):
                                    _c[0] += 1
                                    if _c[0] >= _at:
                                        raise _exc("from user code")
                                    return {"z": 1} if kind.startswith("update_all fields") else ({"z": "1"} if "tags" in kind else (x if "time" in kind else False))
                                raised = None
                                try:
                                    if kind == "update_all fields callable":
                                        db.update_all(fields=boom)
                                    elif kind == "update tags callable":
                                        db.update(tf.FieldQuery().a >= 0, tags=boom)
                                    elif kind == "update_all time callable":
                                        db.update_all(time=boom)
                                    else:
                                        db.remove(tf.FieldQuery().a.test(boom))
                                except BaseException as e:  # noqa
                                    raised = type(e).__name__
                                n += 1
                                # half of the cases: the insert comes FIRST after the failed call, before any read has touched storage again
                                insert_first = (n % 2 == 0)
                                after = before if insert_first else snapshot(db)
                                why = None
                                if raised is None:
                                    why = f"{exc.__name__} raised by user code inside {kind} (at point {at} of {size}) did not reach the caller"
                                elif after != before:
                                    why = f"{kind} raised {raised} but changed the stored contents ({len(before)} -> {len(after)} points)"
                                else:
                                    db.insert(tf.Point(time=T0 + timedelta(seconds=size + 5), measurement="m", tags={"k": "new"}, fields={"a": -1.0}))
                                    try:
                                        again = snapshot(db)
                                    except Exception as e:  # noqa
                                        again = None
                                        why = f"after {kind} raised {raised} and an insert, the contents cannot be read any more ({type(e).__name__}: {e})"[:300]
                                    if again is None:
                                        pass
                                    elif again[:len(before)] != before or len(again) != len(before) + 1:
                                        why = f"after {kind} raised {raised}, an insert did not append to the old contents ({len(before)} -> {len(again)} points)"
                                    else:
                                        cc = consistent(tf, db)
                                        if cc:
                                            why = f"after {kind} raised {raised} and an insert, " + cc
                                        elif csv:
                                            db.close()
                                            db2 = tf.TinyFlux(os.path.join(d, "db.csv"))
                                            try:
                                                if snapshot(db2) != again:
                                                    why = f"after {kind} raised {raised} and an insert, the reopened file holds other contents"
                                            finally:
                                                db2.close()
                                if why:
                                    ck.violation({"kind": "failing-input", "property": pid, "config": {"csv": csv, "auto_index": auto}, "database_size": size,
                                                  "operation": kind, "exception_class": exc.__name__, "raised_at_point": at, "why": why})
                                    return n
                            finally:
                                try:
                                    db.close()
                                except Exception:  # noqa
                                    pass
            # an exception leaving a `with` block
            d = tempfile.mkdtemp(dir=str(ck.work))
            reached = None
            try:
                with (tf.TinyFlux(os.path.join(d, "db.csv"), auto_index=auto) if csv else tf.TinyFlux(storage=MemoryStorage, auto_index=auto)) as db:
                    db.insert(tf.Point(time=T0, fields={"a": 1.0}))
                    db.insert("not a point")
                reached = False
            except Exception as e:  # noqa
                reached = True
            n += 1
            if not reached:
                ck.violation({"kind": "failing-input", "property": pid, "config": {"csv": csv, "auto_index": auto},
                              "why": "insert(<not a Point>) raised inside a `with TinyFlux(...) as db:` block, but no exception left the block"})
                return n
    ck.notes.append(f"user-code exceptions inside rewriting operations checked directly: {n}")
    return n


def direct_warnings(ck, tf):
    """the same rule in a child process that turns warnings into errors (harness/c11_warnings.py): ordinary operations, late inserts above all"""
    import json
    import shutil as _shutil
    wdir = ck.work / "warnings"
    _shutil.rmtree(wdir, ignore_errors=True)
    wdir.mkdir(parents=True)
    rc, out = sh([PY, str(VERIF / "harness" / "c11_warnings.py"), str(wdir)], env=impl_env(), timeout=300)
    _shutil.rmtree(wdir, ignore_errors=True)
    try:
        found = json.loads([l for l in out.splitlines() if l.startswith("[")][-1])
    except Exception:  # noqa
        found = [{"step": "warnings-as-errors child", "why": f"the child did not finish: {out[-300:]}"}]
    for x in found[:1]:
        ck.violation({"kind": "failing-input", "process": "warnings are errors in this process (warnings.simplefilter('error'), as under python -W error)", **x})
    ck.notes.append(f"warnings-as-errors child: {len(found)} findings")


def main(tier, seed):
    return dbtie.db_check("C11", tier, seed, PROFILE, 800, 6000, "Prop_C11",
                          "user callables and re are an environment the theorems quantify over; the tie instantiates them with the twin table",
                          direct=lambda ck, tf: (direct(ck, tf), direct_exceptions(ck, tf), direct_warnings(ck, tf)), extra_cov={"extreme_values": "points at datetime.max / near datetime.min, field values +-10**400, nan, the largest float, "
                                                    "a 70000-character tag value, empty keys, updates to such values (static and from a callable failing on later points): "
                                                    "a call that raises leaves the contents as they were; afterwards len / count / getters agree with the contents; x {memory,csv} x {auto_index}"})
