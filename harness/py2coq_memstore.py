#!/usr/bin/env python3
"""Fail-closed translator: tinyflux/storages.py (class MemoryStorage, and Storage.read which it inherits) -> coq/gen/MemStoreGen.v

Every method of MemoryStorage is translated statement by statement into a function over MemSem.pymem - the object's two list attributes WITH the
fact whether they are bound to one list object (`self._memory = self._temp_memory` binds both names to one list; a list grows under every name
bound to it).  proofs/MemStoreGenP.v proves what the database layer relies on: appends extend the stored rows in order; the rewrite protocol of
database.py's temp_storage_op (init - staged appends - swap - cleanup) leaves exactly the staged rows, an empty scratch list and no sharing; without
the swap it leaves the rows as they were; and that the cleanup's REBINDING is what ends the sharing (an append between swap and cleanup shows
under both names).  harness/memtie.py runs random call sequences on the real class and on the generated functions and compares both lists and
their identity after every call.

Accepted statements: `super().__init__()`; `self.<attr> = [] | True | False | <list parameter> | self.<attr>` (also annotated); `del self.<attr>`
when the next statement binds that attribute again; `for x in <list parameter>: if <bool parameter>: self.A.append(x) else: self.B.append(x)`;
`self._write([..])`; `for p in self.<attr>: yield p`; `return len(self.<attr>)`; `return super().read()` (Storage.read's body is checked to be
`list(self._deserialize_storage_item(i) for i in iter(self))`); the three deserialisers / the serialiser returning their argument, its
`.measurement`, its `.time` (behind the `if not item.time: raise ValueError` guard - stored points carry a time).  Anything else: REFUSED (exit 3),
harness/MemStoreGen.fallback.v stands in.
Usage: py2coq_memstore.py <path/to/storages.py> <out.v>
"""
import ast
import os
import sys

FALLBACK_FILE = os.path.join(os.path.dirname(os.path.abspath(__file__)), "MemStoreGen.fallback.v")
ATTRS = {"_memory": "AMem", "_temp_memory": "ATmp"}


class Refuse(Exception):
    pass


def U(n):
    return ast.unparse(n)


def strip(body):
    return [s for s in body if not (isinstance(s, ast.Expr) and isinstance(s.value, ast.Constant) and isinstance(s.value.value, str))]


def self_attr(e):
    if isinstance(e, ast.Attribute) and isinstance(e.value, ast.Name) and e.value.id == "self":
        return e.attr
    return None


def assign(target, value, params):
    """one `self.<attr> = <value>` -> a state transformer (as Coq text applied to `self`)"""
    a = self_attr(target)
    if a == "_initially_empty" and isinstance(value, ast.Constant) and isinstance(value.value, bool):
        return f"m_set_initially_empty {'true' if value.value else 'false'}"
    if a in ATTRS:
        if isinstance(value, ast.List) and not value.elts:
            return f"m_bind {ATTRS[a]} []"
        if isinstance(value, ast.Name) and params.get(value.id) == "list":
            return f"m_bind {ATTRS[a]} {value.id}"          # TRUSTED: the caller does not keep and mutate the list it hands over
        b = self_attr(value)
        if b in ATTRS:
            return f"m_alias {ATTRS[a]} {ATTRS[b]}"
    raise Refuse(f"assignment `{U(target)} = {U(value)}`")


def method(fn):
    """-> (coq parameters text, coq result type, coq body)"""
    args = [a.arg for a in fn.args.args]
    if args[:1] != ["self"] or fn.args.kwonlyargs:
        raise Refuse(f"{fn.name}: signature")
    params = {}
    for a in fn.args.args[1:]:
        if a.arg == "point":
            a.arg = "pt"          # (`point` is the name of the Coq type)
            for n in ast.walk(fn):
                if isinstance(n, ast.Name) and n.id == "point":
                    n.id = "pt"
        ann = U(a.annotation) if a.annotation else ""
        if ann.startswith("List["):
            params[a.arg] = "list"
        elif ann == "bool":
            params[a.arg] = "bool"
        elif ann in ("MemStorageItem", "Point"):
            params[a.arg] = "point"
        else:
            raise Refuse(f"{fn.name}: parameter `{a.arg}: {ann}`")
    if fn.args.vararg or fn.args.kwarg:
        if fn.name != "_serialize_point":
            raise Refuse(f"{fn.name}: *args / **kwargs")
    ptxt = "".join(f" ({n} : {'list point' if k == 'list' else k})" for n, k in params.items())
    body = strip(fn.body)
    # value-returning methods, by shape
    if len(body) == 1 and isinstance(body[0], ast.Return) and body[0].value is not None:
        v = body[0].value
        if isinstance(v, ast.Call) and U(v.func) == "len" and len(v.args) == 1 and self_attr(v.args[0]) in ATTRS:
            return ptxt, "nat", f"length (m_read {ATTRS[self_attr(v.args[0])]} self)"
        if U(v) == "super().read()":
            return ptxt, "list point", "map (fun i => gen__deserialize_storage_item self i) (gen___iter__ self)"
        if isinstance(v, ast.Name) and params.get(v.id) == "point":
            return ptxt, "point", v.id
        if isinstance(v, ast.Attribute) and isinstance(v.value, ast.Name) and params.get(v.value.id) == "point" and v.attr == "measurement":
            return ptxt, "str", f"p_meas {v.value.id}"
        raise Refuse(f"{fn.name}: `{U(body[0])}`")
    if len(body) == 2 and isinstance(body[0], ast.If) and isinstance(body[1], ast.Return) and not body[0].orelse:
        g, r = body[0], body[1].value
        if isinstance(r, ast.Attribute) and isinstance(r.value, ast.Name) and params.get(r.value.id) == "point" and r.attr == "time" \
                and U(g.test) == f"not {r.value.id}.time" and [U(s) for s in g.body] == ["raise ValueError"]:
            return ptxt, "Z", f"p_time {r.value.id}"
        raise Refuse(f"{fn.name}: guarded return")
    if len(body) == 1 and isinstance(body[0], ast.For):
        f = body[0]
        if isinstance(f.target, ast.Name) and self_attr(f.iter) in ATTRS and not f.orelse and [U(s) for s in f.body] == [f"yield {f.target.id}"]:
            return ptxt, "list point", f"m_read {ATTRS[self_attr(f.iter)]} self"          # a generator function is what it yields, in order
    # state-changing methods: a sequence of transformers
    steps = []
    i = 0
    while i < len(body):
        s = body[i]
        if isinstance(s, ast.Return) and s.value is None:
            if i != len(body) - 1:
                raise Refuse(f"{fn.name}: statements after return")
        elif isinstance(s, ast.Expr) and U(s.value) == "super().__init__()" and fn.name == "__init__":
            pass          # Storage.__init__ is object.__init__: binds nothing
        elif isinstance(s, ast.Assign) and len(s.targets) == 1:
            steps.append(assign(s.targets[0], s.value, params))
        elif isinstance(s, ast.AnnAssign) and s.value is not None:
            steps.append(assign(s.target, s.value, params))
        elif isinstance(s, ast.Delete) and len(s.targets) == 1 and self_attr(s.targets[0]) in ATTRS:
            nxt = body[i + 1] if i + 1 < len(body) else None
            if not (isinstance(nxt, ast.Assign) and len(nxt.targets) == 1 and self_attr(nxt.targets[0]) == self_attr(s.targets[0])):
                raise Refuse(f"{fn.name}: `{U(s)}` not followed by a new binding of the attribute")
            # unbinding a name that is bound again by the next statement: only the binding changes, which the next statement describes
        elif isinstance(s, ast.Expr) and isinstance(s.value, ast.Call) and U(s.value.func) == "self._write" and len(s.value.args) == 1 \
                and isinstance(s.value.args[0], ast.List) and not s.value.args[0].elts and not s.value.keywords:
            steps.append("(fun s => gen__write s [])")
        elif isinstance(s, ast.For) and isinstance(s.target, ast.Name) and isinstance(s.iter, ast.Name) and params.get(s.iter.id) == "list" and not s.orelse \
                and len(s.body) == 1 and isinstance(s.body[0], ast.If) and isinstance(s.body[0].test, ast.Name) and params.get(s.body[0].test.id) == "bool" \
                and len(s.body[0].body) == 1 and len(s.body[0].orelse) == 1:
            x = s.target.id

            def app(st):
                if isinstance(st, ast.Expr) and isinstance(st.value, ast.Call) and isinstance(st.value.func, ast.Attribute) and st.value.func.attr == "append" \
                        and self_attr(st.value.func.value) in ATTRS and [U(a) for a in st.value.args] == [x] and not st.value.keywords:
                    return f"m_append {ATTRS[self_attr(st.value.func.value)]} {x} s"
                raise Refuse(f"{fn.name}: loop body `{U(st)}`")
            steps.append(f"(fun s0 => fold_left (fun s {x} => if {s.body[0].test.id} then {app(s.body[0].body[0])} else {app(s.body[0].orelse[0])}) {s.iter.id} s0)")
        else:
            raise Refuse(f"{fn.name}: statement `{U(s)[:60]}`")
        i += 1
    out = "self" if fn.name != "__init__" else "m_new"
    for st in steps:
        out = f"({st} {out})" if st.startswith("(fun") else f"({st} {out})"
    return ptxt, "pymem", out


ORDER = ["__init__", "__iter__", "__len__", "_write", "append", "_deserialize_measurement", "_deserialize_storage_item", "_deserialize_timestamp",
         "read", "reset", "_cleanup_temp_storage", "_init_temp_storage", "_serialize_point", "_swap_temp_with_primary"]


def translate(src):
    tree = ast.parse(src)
    classes = {n.name: n for n in tree.body if isinstance(n, ast.ClassDef)}
    if "MemoryStorage" not in classes or "Storage" not in classes:
        raise Refuse("class MemoryStorage / Storage not found")
    cls = classes["MemoryStorage"]
    if [U(b) for b in cls.bases] != ["Storage"]:
        raise Refuse("MemoryStorage does not derive from Storage alone")
    base_read = [n for n in classes["Storage"].body if isinstance(n, ast.FunctionDef) and n.name == "read"]
    if len(base_read) != 1 or [U(s) for s in strip(base_read[0].body)] != ["return list((self._deserialize_storage_item(i) for i in iter(self)))"]:
        raise Refuse("Storage.read is not `list(self._deserialize_storage_item(i) for i in iter(self))`")
    ann = {U(n.target): U(n.annotation) for n in cls.body if isinstance(n, ast.AnnAssign) and n.value is None}
    if ann != {"_initially_empty": "bool", "_memory": "List[MemStorageItem]", "_temp_memory": "List[MemStorageItem]"}:
        raise Refuse(f"class-level annotations {ann}")
    fns = {n.name: n for n in cls.body if isinstance(n, ast.FunctionDef)}
    if any(n.decorator_list for n in fns.values()):
        raise Refuse("a decorated method")
    if set(fns) != set(ORDER):
        raise Refuse(f"methods of MemoryStorage: {sorted(set(fns) ^ set(ORDER))} unexpected / missing")
    out = [HEADER, "Definition refused : bool := false.\n\n"]
    for name in ORDER:
        ptxt, rty, body = method(fns[name])
        selfp = "" if name == "__init__" else " (self : pymem)"
        out.append(f"Definition gen_{name}{selfp}{ptxt} : {rty} :=\n  {body}.\n\n")
    return "".join(out)


HEADER = """(* GENERATED on every run by harness/py2coq_memstore.py from tinyflux/storages.py (class MemoryStorage, Storage.read) - do not edit.
   proofs/MemStoreGenP.v proves what the database layer relies on. *)
From Coq Require Import List Bool ZArith.
From TF Require Import Base Query MemSem.
Import ListNotations.

"""


def main():
    src, out_path = sys.argv[1], sys.argv[2]
    refused = None
    try:
        text = translate(open(src).read())
    except (Refuse, SyntaxError, OSError) as r:
        refused = str(r)
        snap = open(FALLBACK_FILE).read().replace("Definition refused : bool := false.", "Definition refused : bool := true.")
        text = "(* REFUSED by the translator: " + refused[:140].replace("*", "x").replace("(", "[").replace(")", "]").replace('"', "'") + \
               " - the last verified translation (harness/MemStoreGen.fallback.v) stands in *)\n" + snap
    try:
        old = open(out_path).read()
    except FileNotFoundError:
        old = None
    if old != text:
        open(out_path, "w").write(text)
    if refused:
        print(f"REFUSED memory storage: {refused}")
    return 3 if refused else 0


if __name__ == "__main__":
    sys.exit(main())
