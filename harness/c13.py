"""C13: an I/O error during an operation is reported and corrupts nothing."""
import json
import random

from common import *  # noqa
import c12
import dbgen
import dbmodel as M
import dbimpl
import ioproxy
import iotie
import pyspec

KINDS = ["insert", "insert_multiple", "remove_some", "update_some", "drop", "remove_all", "remove_all_match", "handle_update", "update_nochange", "update_shrink", "remove_most"]


def battery(g):
    one = ("S", "fields", [("k", "n")], ("cmp", ">=", ("n", 1)))
    p = g.point(dbgen.T0 + 500 * dbgen.SEC)
    p["tags"]["after"] = "fault"
    return [("count", ("noop", "tags"), None), ("all", False), ("search", one, None, False), ("len",), ("get_tag_keys", None),
            ("insert", [p], None), ("all", False), ("count", ("noop", "tags"), None), ("get_timestamps", None),
            # a rewriting operation on the same live object, then reads: whatever the failed call left in its scratch state must not leak in
            ("update_all", {"tags": ("static", {"rewritten": "yes"})}), ("all", False), ("len",),
            ("remove", ("S", "tags", [("k", "after")], ("cmp", "==", ("s", "fault"))), None), ("all", False), ("count", ("noop", "tags"), None)]


def targeted(before, after):
    """reads that ask for exactly what the operation changed: a key / value of a point that differs between the contents before and after
    the fault-free call (an index that still describes the old contents answers these wrongly)"""
    out = []
    if not isinstance(before, list) or not isinstance(after, list):
        return out
    for b, a in zip(before, after):
        if b == a:
            continue
        for k, v in (a.get("tags") or {}).items():
            if (b.get("tags") or {}).get(k) != v and isinstance(v, str):
                out.append(("count", ("S", "tags", [("k", k)], ("cmp", "==", ("s", v))), None))
                break
        for k, v in (a.get("fields") or {}).items():
            if (b.get("fields") or {}).get(k) != v and isinstance(v, (int, float)) and not isinstance(v, bool) and v == v:
                out.append(("search", ("S", "fields", [("k", k)], ("cmp", "==", ("n", v))), None, False))
                break
        for k, v in (b.get("fields") or {}).items():
            if (a.get("fields") or {}).get(k) != v and isinstance(v, (int, float)) and not isinstance(v, bool) and v == v:
                out.append(("count", ("S", "fields", [("k", k)], ("cmp", "==", ("n", v))), None))
                break
        for k in (b.get("tags") or {}):
            if k not in (a.get("tags") or {}):
                out.append(("get_tag_keys", None))
                break
        if a.get("time") != b.get("time") and isinstance(a.get("time"), int):
            out.append(("count", ("S", "time", [], ("cmp", "==", ("t", a["time"]))), None))
        if a.get("meas") != b.get("meas"):
            out.append(("get_measurements",))
        break
    return out[:4]


def spec_out(disk, o):
    try:
        return pyspec.step([dict(x) for x in disk], o)[1]
    except Exception:
        return None


def main(tier, seed):
    ck = Check("C13", tier, seed)
    tf = use_impl()
    refused = []
    # the storage's I/O calls are regenerated from storages.py (symbolic execution) and proved equal to the model's scripts (proofs/IOGenP.v)
    b = ck.build_proofs("Prop_C13", pre=lambda: run_translator("py2coq_io.py", "tinyflux/storages.py", "gen/IOGen.v", refused), extra_targets=["Run.vo", "IO.vo"])
    n_cases = 18 if tier == "quick" else 150
    cases = iotie.io_cases(seed, n_cases, kinds=KINDS)
    # the very first writes into a fresh, empty database (its index starts out valid whatever auto_index says)
    g0 = dbgen.Gen(seed + 99, {})
    for auto0 in (False, True):
        cases.append(([], ("insert", [g0.point()], None), auto0, "first_insert"))
        cases.append(([], ("insert", [g0.point(), g0.point()], None, "multiple"), auto0, "first_insert_multiple"))
        cases.append(([("reindex",)], ("insert", [g0.point()], "m1"), auto0, "first_insert"))
    direct_bad, coq_cases, n_runs, by_call, outcomes = [], [], 0, {}, {"raised": 0, "not_injected": 0, "live_read_ok": 0, "live_raises": 0}
    for ci, (hist, op, auto, kind) in enumerate(cases):
        other = ci % 2 == 1
        iotie.HARDLINK = ci % 3 == 2       # every third case: the database file has a second hard link (a `cp -l` snapshot) when the operation starts
        skw = {"access_mode": "w+"} if ci % 4 == 3 else None      # every fourth case: the database was created with access mode w+ (reopening the handle must not empty it)
        rec = iotie.recorded_run(tf, str(ck.work / f"rec{ci}"), hist, op, auto, other_fs=other, storage_kwargs=skw)
        g = dbgen.Gen(seed + ci, {})
        g.ids = 50
        bat = battery(g)
        tq = targeted(rec["before"], rec["after"])
        bat = bat[:1] + tq + bat[1:]
        if ci % 2 == 1:
            # the insert comes FIRST, before any read has touched the handle again (a read seeks, and hides what the failed call left behind)
            ins = [o for o in bat if o[0] == "insert"][:1]
            bat = ins + [o for o in bat if o not in ins]
        def allowed(st, extra=()):
            """old, new, or old plus a prefix of the inserted points - followed by what follow-ups inserted since"""
            extra = list(extra)
            if st is None or isinstance(st, tuple) or len(st) < len(extra):
                return False
            if extra and not iotie.same_points(st[len(st) - len(extra):], extra):
                return False
            return c12.prefix_ok(st[:len(st) - len(extra)], rec["before"], rec["after"])
        for k in range(len(rec["events"])):
            tgt, call = rec["events"][k][1:3]
            for mode in ("fail_before", "fail_after"):
                if mode == "fail_after" and call not in ("flush", "fsync", "close"):
                    continue
                r = iotie.fault_run(tf, str(ck.work / "flt"), hist, op, k, mode, bat, auto, other_fs=other, storage_kwargs=skw)
                n_runs += 1
                by_call[f"{tgt}.{call}"] = by_call.get(f"{tgt}.{call}", 0) + 1
                if not r.get("injected"):
                    outcomes["not_injected"] += 1
                    continue
                why = None
                what = {"fault": mode, "at_call": k, "call": [tgt, call]}
                if r["out"][0] != "raise":
                    why = f"the I/O error did not reach the caller: the operation returned {r['out']}"
                elif r["out"][1] not in ("OSError", "IOError", "BlockingIOError", "InterruptedError", "TimeoutError", "PermissionError"):       # (Python names an OSError by its number)
                    why = f"the caller got {r['out'][1]} instead of the I/O error"
                else:
                    outcomes["raised"] += 1
                obs = [r["disk_after_fault"]]
                if why is None and not allowed(r["disk_after_fault"]):
                    why = "right after the failed call the file decodes to neither the old nor the new contents"
                # the live object: every follow-up either raises or answers consistently with its own storage
                extra, rewritten, prev = [], False, r["disk_after_fault"]
                for o, res, disk in r["follow"]:
                    if why:
                        break
                    if res[0] == "raise":
                        outcomes["live_raises"] += 1
                        prev = disk
                        continue
                    if disk is None:
                        why = f"after {o[0]} on the live object the file no longer decodes"
                        break
                    # generic: the answer and the new file contents are the documented meaning of the operation on what the file held before it
                    # (a read is judged on what the file holds AFTER it: a row still buffered when the call failed reaches the file with the
                    # first seek; a write is judged on what the file held after the previous follow-up, all of which seek)
                    is_write = o[0] in ("insert", "update_all", "update", "remove")
                    base = prev if is_write else disk
                    if is_write and o is r["follow"][0][0]:
                        base = None           # nothing has sought since the fault: a row still buffered may reach the file now (judged by allowed() below)
                    if base is not None and not isinstance(base, tuple):
                        try:
                            db2, want = pyspec.step([dict(x) for x in base], o)
                        except Exception:
                            db2 = want = None
                        if want is not None and not pyspec.same(want, res):
                            why = (f"after the failed operation {o[0]} answers {str(res)[:200]} while the object's own storage holds {len(base)} points "
                                   f"({str(want)[:200]} expected): a silently wrong answer")
                            what["follow_up"] = o
                            break
                        if db2 is not None and not iotie.same_points(disk, db2):
                            why = f"after the failed operation, {o[0]} on the live object left {len(disk)} points in the file where the documented meaning gives {len(db2)}"
                            what["follow_up"] = o
                            break
                    prev = disk
                    if o[0] in ("update_all", "update", "remove"):
                        rewritten = True
                        continue
                    if rewritten:
                        outcomes["live_read_ok"] += 1
                        continue
                    if o[0] == "insert":
                        extra = extra + list(o[1])
                        if not (res == ("nat", 1) and allowed(disk, extra)):
                            why = "an insert after the failed operation did not simply append to an allowed state"
                        continue
                    if not allowed(disk, extra):
                        why = f"after {o[0]} on the live object the file decodes to neither the old nor the new contents"
                        break
                    outcomes["live_read_ok"] += 1
                if rewritten:
                    if why is None and r["after_close"] is not None and isinstance(r["reopened"], list) and not iotie.same_points(r["reopened"], r["after_close"]):
                        why = "reopening the database after the fault does not give what the file holds"
                    if why is None and isinstance(r["reopened"], tuple):
                        why = f"the database cannot be reopened after the fault ({r['reopened'][1]})"
                    if why and len(direct_bad) < 4:
                        direct_bad.append({"kind": "failing-input", "why": why, **what, "history": hist, "op": op, "auto_index": auto, "database_file_has_a_second_hard_link": iotie.HARDLINK, "storage_kwargs": skw or {},
                                           "outcome": r["out"], "contents_before": rec["before"], "contents_after_without_fault": rec["after"],
                                           "file_right_after_fault": r["disk_after_fault"], "file_after_close": r["after_close"],
                                           "calls_of_op": [f"{t}.{c}" for _, t, c, _ in rec["events"]]})
                    coq_cases.append((auto, hist, op, [x if x is not None else c12.BAD for x in obs]))
                    continue
                if why is None and not allowed(r["after_close"], extra):
                    why = "after close the file decodes to neither the old nor the new contents"
                if why is None and r["after_close"] is not None and isinstance(r["reopened"], list) and not iotie.same_points(r["reopened"], r["after_close"]):
                    why = "reopening the database after the fault does not give what the file holds"
                if why is None and isinstance(r["reopened"], tuple):
                    why = f"the database cannot be reopened after the fault ({r['reopened'][1]})"
                if why and len(direct_bad) < 4:
                    direct_bad.append({"kind": "failing-input", "why": why, **what, "history": hist, "op": op, "auto_index": auto, "database_file_has_a_second_hard_link": iotie.HARDLINK, "storage_kwargs": skw or {},
                                       "outcome": r["out"], "contents_before": rec["before"], "contents_after_without_fault": rec["after"],
                                       "file_right_after_fault": r["disk_after_fault"], "file_after_close": r["after_close"],
                                       "calls_of_op": [f"{t}.{c}" for _, t, c, _ in rec["events"]]})
                coq_cases.append((auto, hist, op, [x if x is not None else c12.BAD for x in obs]))
    # "the call's error reaches the caller" - also when the database is used as `with TinyFlux(path) as db:` and the failing call is made
    # inside the block: the OSError leaves the block (fsync / write / flush failing once, at the first, a middle and the last insert)
    import tempfile as _tempfile
    import tinyflux.storages as _st
    with_runs = 0
    for call_name in ("fsync", "flush", "write"):
        for fail_at in (0, 1, 2):
            d = _tempfile.mkdtemp(dir=str(ck.work))
            path = os.path.join(d, "db.csv")
            h = ioproxy.IOHarness()
            h.primary = path
            undo = ioproxy.install(_st, h)
            reached, inside = None, []
            try:
                try:
                    with tf.TinyFlux(path) as db:
                        # per inserted row the storage makes six calls: seek, write, flush, fileno, fsync, truncate
                        h.arm("fail_before", fail_at * 6 + {"write": 1, "flush": 2, "fsync": 4}[call_name])
                        for i in range(3):
                            db.insert(tf.Point(time=dbimpl.dt_of(dbgen.T0 + i * 1000000), tags={"k": str(i)}, fields={"a": float(i)}))
                            inside.append(i)
                    reached = False
                except OSError:
                    reached = True
            finally:
                h.disarm()
                undo()
            with_runs += 1
            if h.injected and reached is False and len(direct_bad) < 4:
                direct_bad.append({"kind": "failing-input", "why": f"an OSError injected into {call_name} during insert number {fail_at} inside a `with TinyFlux(path) as db:` block "
                                   "did not reach the caller: the block ended normally", "inserts_that_returned_inside_the_block": inside})
    # tie: every file state seen right after a fault is one the model allows for that operation's plan
    f = ck.work / "cases_c13.v"
    head = iotie.COQ_HEAD + (
        "Definition allowed_b (old : list point) (p : plan) (d : list point) : bool :=\n"
        "  match p with\n"
        "  | PlAppend rows => existsb (fun j => rows_eqb d (old ++ firstn j rows)) (seq 0 (S (length rows)))\n"
        "  | PlRewrite n => rows_eqb d old || rows_eqb d n\n  | PlReset _ => rows_eqb d old || rows_eqb d []\n  | _ => rows_eqb d old end.\n"
        "Definition fault_ok (auto : bool) (hist : list op) (o : op) (obs : list (list point)) : bool :=\n"
        "  let s := before auto hist in let s' := fst (step twinE twinC csv_norm s o) in\n"
        "  forallb (allowed_b (st_rows s) (plan_of o (st_rows s) (st_rows s'))) obs.\n")
    uniq = {}
    for a, h, o, obs in coq_cases:
        key = json.dumps([a, h, o], default=str)
        uniq.setdefault(key, (a, h, o, []))[3].extend(x for x in obs if x not in uniq[key][3])
    ucases = list(uniq.values())
    lines = [head, "Definition results : list bool := ["]
    lines.append(";\n".join(f"fault_ok {M.cbool(a)} {M.clist(h, M.cop)} {M.cop(o)} {M.clist(obs, lambda ps: M.clist(ps, M.cpoint))}" for a, h, o, obs in ucases))
    lines.append("].\nEval vm_compute in map (fun b : bool => if b then 1 else 0) results.")
    f.write_text("\n".join(lines) + "\n")
    rc, out = coqc_file(f, timeout=1500)
    nums = parse_nat_list(out) if rc == 0 else None
    if not b["ok"]:
        ck.violation({"kind": "proof-broken", "what_no_longer_checks": f"Prop_C13.v {b['theorems']}", "log": b["log"][-1500:], "forbidden": b["forbidden"]}, no_input=True)
    if direct_bad:
        ck.violation(dict(direct_bad[0], more=direct_bad[1:]))
    elif nums is None:
        ck.violation({"kind": "model-evaluation-failed", "what_no_longer_checks": "cases_c13.v", "log": out[-800:]}, no_input=True)
    elif 0 in nums:
        a, h, o, obs = ucases[nums.index(0)]
        ck.violation({"kind": "correspondence-broken", "what_no_longer_checks": "I/O-script correspondence: file states right after an injected I/O error vs IO.v crash_allowed (theorems C13_*)",
                      "history": h, "op": o, "auto_index": a, "observed_sizes": [len(x) for x in obs]}, no_input=True)
    ck.cov = {
        "translator": dict(IO_TRANSLATOR_COV, refused=refused),
        "obligations": b["obligations"], "discharged": b["discharged"],
        "checker_cmd": "make -C /verif/coq Prop_C13.vo IO.vo Run.vo; Print Assumptions per theorem; allowed states evaluated with vm_compute",
        "trusted_base": TRUSTED_BASE_COMMON + [
            "hand model IO.v (I/O scripts; an error path consists of steps that do not write rows to, truncate or replace the primary) and DB.v, tied by correspondence",
            "run-time proxies harness/ioproxy.py raising OSError (its number varies with the boundary: EIO, ENOSPC, EAGAIN, EINTR, ETIMEDOUT, ESTALE, EDQUOT, EACCES) before the call takes effect, and for flush/fsync/close also after it",
            "Print Assumptions: " + json.dumps(b["assumptions"])],
        "theorems": b["theorems"], "forbidden_tokens_found": b["forbidden"],
        "evaluations": n_runs, "histories": len(cases),
        "distinct_nontrivial": len({json.dumps([h, o], default=str) for a, h, o, obs in ucases if len(obs) >= 1}),
        "rule": "sampled (history, operation) pairs on a CSV database; for EVERY call of the operation's recorded I/O schedule an OSError is injected before the call "
                "(and after it for flush/fsync/close); then reads, an insert, more reads on the live object, close and reopen. Checked directly: the error reaches the caller as "
                "OSError; the file decodes to old/new (insert: old + prefix) right after the fault and after close; every follow-up on the live object raises or agrees with the "
                "documented meaning evaluated on what its own file holds; the reopened database equals the file; distinct by (history, operation)",
        "injections_by_call": by_call, "outcomes": outcomes,
        "traces_validated_against_impl": sum(nums) if nums else 0,
        "samples": [{"op": ucases[0][2], "sizes_right_after_faults": [len(x) for x in ucases[0][3]]}] if ucases else [],
    }
    return ck.finish(level="proof", extra_assumptions=["a single failed call per operation; errors raised by the proxies stand for errors of the operating system"])
