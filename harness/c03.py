"""C03: decided on the database-level Coq model (DB.v) — theorems in coq/Prop_C03.v, tie by correspondence."""
from common import *  # noqa
import dbtie

PROFILE = {'scenario_also': ['torn_gap', 'raising_test_update', 'ne_writes'], 'scenario_pref': ['noop_match', 'tiny_float_change', 'big_ints', 'noop_match', 'zones', 'sparse_write', 'handle_unset', 'shared_maps', 'torn_update', 'zones', 'same_count', 'hash_twins'], 'p_write': 0.55, 'writes': {'insert': 2, 'insert_multiple': 1, 'remove': 1, 'update': 6, 'update_all': 2, 'reindex': 0.5, 'reopen': 0.5, 'handle': 1.5}}


def direct_subclass(ck, tf):
    """stored points that are instances of a SUBCLASS of Point (MemoryStorage keeps the caller's objects): the count an update returns is the number
    of points whose content changed, and an update applied twice changes nothing the second time"""
    from datetime import datetime, timedelta, timezone
    from tinyflux.storages import MemoryStorage

    class Reading(tf.Point):
        """a user's own Point subclass"""
    t0 = datetime(2020, 1, 1, tzinfo=timezone.utc)
    for auto in (True, False):
        db = tf.TinyFlux(storage=MemoryStorage, auto_index=auto)
        db.insert_multiple([Reading(time=t0 + timedelta(seconds=i), measurement="m", tags={"k": "x"}, fields={"a": float(i % 2)}) for i in range(5)])
        for desc, call, want in (("update(a >= 0, fields={'a': 1.0})", lambda: db.update(tf.FieldQuery().a >= 0, fields={"a": 1.0}), 3),
                                 ("the same update again", lambda: db.update(tf.FieldQuery().a >= 0, fields={"a": 1.0}), 0),
                                 ("update_all(tags={'k': 'x'})", lambda: db.update_all(tags={"k": "x"}), 0),
                                 ("update_all(measurement='m')", lambda: db.update_all(measurement="m"), 0)):
            got = call()
            if got != want:
                ck.violation({"kind": "failing-input", "config": {"csv": False, "auto_index": auto}, "why": f"five stored points of a Point subclass (fields a = 0,1,0,1,0): {desc} "
                              f"returned {got}; the number of points whose content changed is {want}"})
                return


def main(tier, seed):
    import c11
    # what an update decides around its per-point updater is regenerated from database.py (symbolic execution of _update_helper, with update, update_all
    # and - through py2coq_read.py - the read_op decorator) and proved equal to the model's update (proofs/UpdateGenP.v)
    refused = []

    def regen():
        run_translator("py2coq_read.py", "tinyflux", "gen/ReadGen.v", refused)
        run_translator("py2coq_update.py", "tinyflux", "gen/UpdateGen.v", refused)
        run_translator("py2coq_updater.py", "tinyflux/database.py", "gen/UpdaterGen.v", refused)          # the per-point updater, block by block (C03_source_updater_is_the_model)
        run_translator("py2coq_memstore.py", "tinyflux/storages.py", "gen/MemStoreGen.v", refused)          # class MemoryStorage (C03_source_memory_storage_update_stores_the_images)
    return dbtie.db_check("C03", tier, seed, PROFILE, 650, 6000, "Prop_C03",
                          "user callables and re are an environment the theorems quantify over; the tie instantiates them with the twin table",
                          direct=lambda ck, tf: (c11.direct_exceptions(ck, tf, "C03"), direct_subclass(ck, tf)),
                          pre=regen, extra_cov={"translator": {"source": "tinyflux/database.py: TinyFlux._update_helper (symbolic execution; its two rewrite loops, the except clause and the three statements after the "
                                                                         "rewrite recognised literally, in their order), update, update_all, read_op / reindex -> coq/gen/UpdateGen.v, coq/gen/ReadGen.v (regenerated on this run); "
                                                                         "the per-point updater _generate_updater stays with the hand model",
                                                               "refused": refused, "equivalence_theorem": "gen_update_helper_eq, gen_update_eq, gen_update_all_eq (C03_source_*_is_the_model, C03_source_update_exact, C03_source_update_all_exact)"}})
