"""C03: decided on the database-level Coq model (DB.v) — theorems in coq/Prop_C03.v, tie by correspondence."""
from common import *  # noqa
import dbtie

PROFILE = {'scenario_pref': ['zones', 'sparse_write', 'handle_unset', 'shared_maps', 'torn_update', 'zones', 'same_count'], 'p_write': 0.55, 'writes': {'insert': 2, 'insert_multiple': 1, 'remove': 1, 'update': 6, 'update_all': 2, 'reindex': 0.5, 'reopen': 0.5, 'handle': 1.5}}


def main(tier, seed):
    import c11
    return dbtie.db_check("C03", tier, seed, PROFILE, 650, 6000, "Prop_C03",
                          "user callables and re are an environment the theorems quantify over; the tie instantiates them with the twin table",
                          direct=lambda ck, tf: c11.direct_exceptions(ck, tf, "C03"))

