#!/usr/bin/env python3
"""Fail-closed translator: tinyflux/database.py (TinyFlux._update_helper, update, update_all) -> coq/gen/UpdateGen.v

What an update does around its per-point updater is decided by a few lines: is the index asked (never for update_all), with which query; nothing
named -> 0; everything named -> scan; the rewrite loop inside try / except (the copies put back, the exception re-raised); nothing changed -> 0
and nothing swapped in; otherwise the index is dropped, the staged rows are swapped in, and the index is rebuilt when automatic indexing is on.
The function body is executed symbolically (py2coq_read.py's machinery); the two loops, the except clause and the three statements of the tail
are recognised literally, in their order.  The per-point updater (_generate_updater) and the validation of the arguments stay with the hand model
(Valid.v / perform_update, tied by correspondence and the C14 translator).

    gen_update_helper s update_all q u m : state * out      _update_helper after the decorators, for valid arguments u
    gen_update s q u m, gen_update_all s u                  update / update_all: read_op's re-indexing, then the helper

proofs/UpdateGenP.v proves them equal to the model's update_helper / db_update / db_update_all for every state and argument.
Anything outside the fragment: REFUSED (exit 3), the last verified translation (harness/UpdateGen.fallback.v) stands in.
Usage: py2coq_update.py <path/to/tinyflux> <out.v>
"""
import ast
import os
import sys

sys.path.insert(0, os.path.dirname(os.path.abspath(__file__)))
from py2coq_read import Fn, Refuse, U, strip  # noqa: E402

FALLBACK_FILE = os.path.join(os.path.dirname(os.path.abspath(__file__)), "UpdateGen.fallback.v")

ARGS = ["self", "update_all", "query", "time", "measurement", "tags", "fields", "_measurement", "unset_fields", "unset_tags"]
UPDATER = ("perform_update = self._generate_updater(query=query, time=time, measurement=measurement, tags=tags, fields=fields, "
           "unset_fields=unset_fields, unset_tags=unset_tags)")
LOOP_INDEX = """for i, item in enumerate(self._storage):
    if j == len(index_rst.items) or i not in index_rst._items:
        self._storage.append([item], temporary=True)
        continue
    _point = self._storage._deserialize_storage_item(item)
    originals.append((_point, copy.deepcopy(_point)))
    u = perform_update(_point)
    if u:
        self._storage.append([self._storage._serialize_point(_point)], temporary=True)
        update_count += 1
        continue
    else:
        self._storage.append([item], temporary=True)
    j += 1"""
LOOP_SCAN = """for item in self._storage:
    if _measurement and self._storage._deserialize_measurement(item) != _measurement:
        self._storage.append([item], temporary=True)
        continue
    _point = self._storage._deserialize_storage_item(item)
    if update_all or query(_point):
        originals.append((_point, copy.deepcopy(_point)))
        u = perform_update(_point)
        if u:
            self._storage.append([self._storage._serialize_point(_point)], temporary=True)
            update_count += 1
            continue
    self._storage.append([item], temporary=True)"""
HANDLER = ["for changed, original in reversed(originals):\n    changed._time = original._time\n    changed._measurement = original._measurement\n"
           "    changed._tags = original._tags\n    changed._fields = original._fields", "raise"]
TAIL = ["self._index.invalidate()", "self._storage._swap_temp_with_primary()",
        "if self._auto_index:\n    self._index.build((self._storage._deserialize_storage_item(i) for i in self._storage))", "return update_count"]


class UpdateFn(Fn):
    def __init__(self, fn):
        self.fn = fn
        if [a.arg for a in fn.args.args] != ARGS or fn.decorator_list or fn.args.vararg or fn.args.kwarg:
            raise Refuse("_update_helper: unexpected signature or decorators")

    def cond(self, e, env):
        s = U(e)
        if s == "update_all":
            return "ua"
        if s == "_measurement":
            return "(m_truthy m)"
        if s == "measurement":
            raise Refuse("_update_helper: `measurement` (the new value) used as a condition")
        if s in ("not update_count", "update_count == 0"):
            if not env.get("looped"):
                raise Refuse("_update_helper: update_count read before the loops")
            return "(Nat.eqb n 0)"
        return super().cond(e, env)

    def query_expr(self, e, local):
        if U(e) == "MeasurementQuery() == _measurement":
            return "(meas_query m)"
        if U(e) == "MeasurementQuery() == measurement":
            raise Refuse("_update_helper: the new measurement value used as the filter")
        return super().query_expr(e, local)

    def loop_term(self, stmts, env):
        """the body of the try: one of the two loops, chosen by use_index -> coq term : (list point * nat) + list point"""
        stmts = strip(stmts)
        if len(stmts) == 1 and isinstance(stmts[0], ast.If) and U(stmts[0].test) == "use_index" and stmts[0].orelse:
            c = self.cond(stmts[0].test, env)
            a = self.one_loop(stmts[0].body, env, True)
            b = self.one_loop(stmts[0].orelse, env, False)
            return a if c == "true" else b if c == "false" else f"(if {c} then {a} else {b})"
        raise Refuse("_update_helper: unexpected try body")

    def one_loop(self, stmts, env, want_index):
        t = [U(x) for x in strip(stmts)]
        if want_index and t == ["j = 0", LOOP_INDEX]:
            if env.get("use_index") == "false":
                return "(inr (st_rows s))"      # unreachable branch
            return f"(loop_update_by_items E C norm u {self.items(env)} s)"
        if not want_index and t == [LOOP_SCAN]:
            return "(loop_update_by_scan E C norm u ua q m s)"
        raise Refuse("_update_helper: a rewrite loop is not the one the translator knows")

    def block(self, stmts, env):
        stmts = strip(stmts)
        if not stmts:
            raise Refuse("_update_helper: control falls off the end")
        st, rest = stmts[0], stmts[1:]
        s = U(st)
        if env.get("looped") and [U(x) for x in stmts] == TAIL:
            return "(swapped_rows rows' s (if (st_auto s) then ix_build rows' else ix_invalidate (st_idx s)), ONat n)"
        if isinstance(st, ast.Return):
            if U(st.value) == "0":
                return "(s, ONat 0)"
            raise Refuse(f"_update_helper: unsupported return `{s}`")
        if s == "update_count = 0" and not env.get("looped"):
            return self.block(rest, dict(env, inits=env["inits"] | {"update_count"}))
        if s in ("originals: List[Tuple[Point, Point]] = []", "originals = []") and not env.get("looped"):
            return self.block(rest, dict(env, inits=env["inits"] | {"originals"}))
        if s == UPDATER:
            return self.block(rest, dict(env, inits=env["inits"] | {"perform_update"}))
        if isinstance(st, ast.Assign) and U(st.targets[0]) == "use_index" and len(st.targets) == 1:
            return self.block(rest, dict(env, use_index=self.cond(st.value, env)))
        if self.is_search_if(st):
            e = f"(if {self.cond(st.test, env)} then {self.search_assign(st.body)} else {self.search_assign(st.orelse)})"
            return f"(match {e} with None => (s, ORaise) | Some items => {self.block(rest, dict(env, items=True))} end)"
        if isinstance(st, ast.Try):
            if env.get("looped"):
                raise Refuse("_update_helper: a second try statement (the statements after the rewrite are not the ones the translator knows)")
            if not {"update_count", "originals", "perform_update"} <= env["inits"]:
                raise Refuse("_update_helper: the rewrite runs on variables that are not freshly initialised")
            if st.orelse or st.finalbody or len(st.handlers) != 1 or U(st.handlers[0].type) != "Exception" or st.handlers[0].name \
                    or [U(x) for x in strip(st.handlers[0].body)] != HANDLER:
                raise Refuse("_update_helper: unexpected except clause (the copies are put back, the exception re-raised)")
            return (f"(match {self.loop_term(st.body, env)} with inr rows' => (left_behind rows' s, ORaise) | inl (rows', n) => "
                    f"{self.block(rest, dict(env, looped=True))} end)")
        if isinstance(st, ast.If):
            c = self.cond(st.test, env)
            on_flag = U(st.test) == "use_index"
            if c == "true":
                return self.block(list(st.body) + rest, env)
            if c == "false":
                return self.block(list(st.orelse) + rest, env)
            t = self.block(list(st.body) + rest, dict(env, use_index="true") if on_flag else env)
            f = self.block(list(st.orelse) + rest, dict(env, use_index="false") if on_flag else env)
            return f"(if {c}\n     then {t}\n     else {f})"
        raise Refuse(f"_update_helper: unsupported statement `{s[:70]}`")

    def run(self):
        return self.block(list(self.fn.body), {"use_index": None, "items": False, "acc": {}, "inits": frozenset(), "looped": False})


def wrappers(fns):
    decs = ["read_op", "write_op", "temp_storage_op"]
    up, ua = fns.get("update"), fns.get("update_all")
    kw = "time=time, measurement=measurement, tags=tags, fields=fields, _measurement={m}, unset_fields=unset_fields, unset_tags=unset_tags"
    if up is None or [U(d) for d in up.decorator_list] != decs \
            or [a.arg for a in up.args.args] != ["self", "query", "time", "measurement", "tags", "fields", "unset_fields", "unset_tags", "_measurement"] \
            or [U(x) for x in strip(up.body)] != [f"return self._update_helper(False, query, {kw.format(m='_measurement')})"]:
        raise Refuse("update: unexpected shape")
    if ua is None or [U(d) for d in ua.decorator_list] != decs \
            or [a.arg for a in ua.args.args] != ["self", "time", "measurement", "tags", "fields", "unset_fields", "unset_tags"] \
            or [U(x) for x in strip(ua.body)] != [f"return self._update_helper(True, TagQuery().noop(), {kw.format(m='None')})"]:
        raise Refuse("update_all: unexpected shape")
    return ("Definition gen_update (s : state) (q : query) (u : updspec) (m : option str) : state * out :=\n  gen_update_helper (gen_read_prelude s) false q u m.\n\n"
            "Definition gen_update_all (s : state) (u : updspec) : state * out :=\n  gen_update_helper (gen_read_prelude s) true (QNoop ATags) u None.\n\n")


def main():
    pkg, out_path = sys.argv[1], sys.argv[2]
    refused = None
    try:
        tree = ast.parse(open(os.path.join(pkg, "database.py")).read())
        cls = [n for n in tree.body if isinstance(n, ast.ClassDef) and n.name == "TinyFlux"]
        if len(cls) != 1:
            raise Refuse("class TinyFlux not found")
        fns = {n.name: n for n in cls[0].body if isinstance(n, ast.FunctionDef)}
        if "_update_helper" not in fns:
            raise Refuse("_update_helper not found")
        text = HEADER + "Definition refused : bool := false.\n\nSection Gen.\nVariable E : env.\nVariable C : cenv.\nVariable norm : point -> point.\n\n" + \
            f"Definition gen_update_helper (s : state) (ua : bool) (q : query) (u : updspec) (m : option str) : state * out :=\n  {UpdateFn(fns['_update_helper']).run()}.\n\n" + \
            wrappers(fns) + "End Gen.\n"
    except (Refuse, SyntaxError, OSError) as r:
        refused = str(r)
        snap = open(FALLBACK_FILE).read().replace("Definition refused : bool := false.", "Definition refused : bool := true.")
        text = "(* REFUSED by the translator: " + refused[:140].replace("*", "x").replace("(", "[").replace(")", "]").replace('"', "'") + \
               " - the last verified translation (harness/UpdateGen.fallback.v) stands in *)\n" + snap
    try:
        old = open(out_path).read()
    except FileNotFoundError:
        old = None
    if old != text:
        open(out_path, "w").write(text)
    if refused:
        print(f"REFUSED update path: {refused}")
    return 3 if refused else 0


HEADER = """(* GENERATED on every run by harness/py2coq_update.py from tinyflux/database.py (TinyFlux._update_helper, update, update_all) - do not edit.
   proofs/UpdateGenP.v proves each equal to the model's update_helper / db_update / db_update_all. *)
From Coq Require Import List ZArith Bool Arith.
From TF Require Import Base Query Index DB InsertSem ReadSem UpdateSem.
From TF Require Import gen.ReadGen.
Import ListNotations.

"""

if __name__ == "__main__":
    sys.exit(main())
