#!/usr/bin/env python3
"""Regenerate MANIFEST.json from the table below (kept in one place so it stays valid)."""
import json, sys
from pathlib import Path
V = Path(__file__).resolve().parent.parent
props = [json.loads(l) for l in open(V / "properties.jsonl")]

# property id -> (technique, level text, level note, design ref); only properties with a harness module are claimed
CLAIMS = json.loads((V / "harness" / "claims.json").read_text())

checks, na = [], []
for p in props:
    pid = p["id"]
    if pid in CLAIMS and (V / "harness" / f"{pid.lower()}.py").exists():
        c = CLAIMS[pid]
        checks.append({
            "property_id": pid,
            "quick_cmd": f"./check {pid} quick",
            "thorough_cmd": f"./check {pid} thorough",
            "evidence_file": f"/verif/evidence/{pid}.json",
            "replay_cmd_template": f"./check {pid} --replay {{path}}",
            "engine": "coq-model+correspondence",
            "level_claimed": {"category": "proof", "text": c["text"], "design_ref": c["design_ref"]},
            "level_note": c["note"],
            "technique": c["technique"],
        })
    else:
        na.append({"property_id": pid, "reason": CLAIMS.get(pid, {}).get("na_reason", "check not built yet in this development; no claim is made (the technique applies, see DESIGN.md section 6)")})
m = {
    "version": 1,
    "setup_cmd": "./setup.sh",
    "hooks": {"guard": "TINYFLUX_VERIF", "enable": "no source hooks: checks import /repo as it is and rebind I/O names inside tinyflux.storages at run time",
              "baseline_off_cmd": "cd /repo && /venv/bin/python -m pytest -ra -q -p no:cacheprovider --timeout=900 --continue-on-collection-errors",
              "source_commits": [], "add_only": True},
    "engines": [{"name": "coq-model+correspondence", "path": "/verif/coq + /verif/harness",
                 "serves_properties": [c["property_id"] for c in checks],
                 "kind_free_text": "Coq 8.16 development (model, spec, theorems per property) tied to /repo by a translator (utils.py) and by a correspondence harness that evaluates the model with vm_compute on the inputs/histories the implementation ran"}],
    "checks": checks,
    "not_applicable": na,
    "notes": "See DESIGN.md. known_findings.json lists defects repaired by fix: commits and those recorded as known findings.",
}
(V / "MANIFEST.json").write_text(json.dumps(m, indent=1))
print(f"claimed {len(checks)}; not claimed {len(na)}")
