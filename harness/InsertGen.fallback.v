(* GENERATED on every run by harness/py2coq_insert.py from tinyflux/database.py (TinyFlux._insert_helper) - do not edit.
   proofs/InsertGenP.v proves the insert loop assembled from these decisions equal to the model's DB.insert_loop. *)
From Coq Require Import List ZArith Bool Arith.
From TF Require Import Base Query Index DB InsertSem.
Import ListNotations.

Definition refused : bool := false.

Definition gen_rename (m : option str) (p : point) : point :=
  (if (andb (m_truthy m) (negb (meas_is p m))) then set_meas_o p m else p).

Definition gen_index_step (auto : bool) (ix : index) (p : point) : index :=
  (if (andb auto (ix_valid ix)) then (if (andb (negb (ix_is_empty ix)) (time_before p (ix_latest ix))) then (ix_invalidate ix) else (ix_insert ix p)) else (if (ix_valid ix) then (ix_invalidate ix) else ix)).

Definition gen_index_after_loop (count : nat) (auto : bool) (ix : index) : index :=
  (if (andb (negb (Nat.eqb count 0)) (andb (negb auto) (ix_valid ix))) then (ix_invalidate ix) else ix).
