(* GENERATED on every run by harness/py2coq_dbget.py from tinyflux/database.py (the getters of class TinyFlux) - do not edit.
   proofs/DbGetGenP.v proves them, with the read_op decorator, equal to the specification on the stored rows on both paths. *)
From Coq Require Import List ZArith Bool Arith.
From TF Require Import Base Query Index DB IndexSem DbSem.
From TF Require gen.IndexGen.
Import ListNotations.

Definition refused : bool := false.

Definition gen_db___len__ (self : pydb) : nat :=
  if (andb (db_auto self) (IndexGen.gen_valid (db_index self)))
  then ((IndexGen.gen___len__ (db_index self)))
  else ((length (db_rows self))).

Definition gen_db___iter__ (self : pydb) : list point :=
  let yielded := [] in
  let yielded := fold_left (fun yielded item =>
    let yielded := (yielded ++ [item]) in
  yielded)
    (db_rows self) yielded in
  yielded.

Definition gen_db_all (self : pydb) (sorted : bool) : list point :=
  let points := (db_rows self) in
  let points := (if sorted then (let points := (sort_points points) in
  points) else (points)) in
  points.

Definition gen_db_get_measurements (self : pydb) : list str :=
  if (IndexGen.gen_valid (db_index self))
  then ((sort_dedup (IndexGen.gen_get_measurements (db_index self))))
  else (let names := [] in
  let names := fold_left (fun names item =>
    let names := (set_add (p_meas item) names) in
  names)
    (db_rows self) names in
  (sort_dedup names)).

Definition gen_db_get_field_keys (self : pydb) (measurement : option str) : list str :=
  if (IndexGen.gen_valid (db_index self))
  then ((sort_dedup (IndexGen.gen_get_field_keys (db_index self) measurement)))
  else (let rst := [] in
  let rst := fold_left (fun rst item =>
    if (andb (opt_truthy measurement) (negb (pyeq (p_meas item) (opt_str measurement))))
  then (rst)
  else (let _point := item in
  let rst := fold_left (fun rst fk =>
    let rst := (set_add fk rst) in
  rst)
    (map fst (p_fields _point)) rst in
  rst))
    (db_rows self) rst in
  (sort_dedup rst)).

Definition gen_db_get_tag_keys (self : pydb) (measurement : option str) : list str :=
  if (IndexGen.gen_valid (db_index self))
  then ((sort_dedup (IndexGen.gen_get_tag_keys (db_index self) measurement)))
  else (let rst := [] in
  let rst := fold_left (fun rst item =>
    if (andb (opt_truthy measurement) (negb (pyeq (p_meas item) (opt_str measurement))))
  then (rst)
  else (let _point := item in
  let rst := fold_left (fun rst tk =>
    let rst := (set_add tk rst) in
  rst)
    (map fst (p_tags _point)) rst in
  rst))
    (db_rows self) rst in
  (sort_dedup rst)).

Definition gen_db_get_field_values (self : pydb) (field_key : str) (measurement : option str) : list (option num) :=
  if (IndexGen.gen_valid (db_index self))
  then ((IndexGen.gen_get_field_values (db_index self) field_key measurement))
  else (let rst := [] in
  let rst := fold_left (fun rst item =>
    if (andb (opt_truthy measurement) (negb (pyeq (p_meas item) (opt_str measurement))))
  then (rst)
  else (let _point := item in
  let rst := fold_left (fun rst '(fk, fv) =>
    let rst := (if (pyeq fk field_key) then (let rst := (rst ++ [fv]) in
  rst) else (rst)) in
  rst)
    (p_fields _point) rst in
  rst))
    (db_rows self) rst in
  rst).

Definition gen_db_get_timestamps (self : pydb) (measurement : option str) : list Z :=
  if (IndexGen.gen_valid (db_index self))
  then ((map (fun i => i) (IndexGen.gen_get_timestamps (db_index self) measurement)))
  else (let rst := [] in
  let rst := fold_left (fun rst item =>
    if (andb (opt_truthy measurement) (negb (pyeq (p_meas item) (opt_str measurement))))
  then (rst)
  else (let _time := (p_time item) in
  let rst := (rst ++ [_time]) in
  rst))
    (db_rows self) rst in
  rst).

Definition gen_db_get_tag_values (self : pydb) (tag_keys : list str) (measurement : option str) : list (str * list (option str)) :=
  if (IndexGen.gen_valid (db_index self))
  then (let rst := (IndexGen.gen_get_tag_values (db_index self) tag_keys measurement) in
  (fold_left (fun acc '(i, j) => d_set i (sort_none_last j) acc) rst []))
  else (let relevant_tags := tag_keys in
  let rst := (fold_left (fun acc i => d_set i [] acc) (sort_dedup relevant_tags) []) in
  let rst := fold_left (fun rst item =>
    if (andb (opt_truthy measurement) (negb (pyeq (p_meas item) (opt_str measurement))))
  then (rst)
  else (let _point := item in
  let rst := fold_left (fun rst '(tk, tv) =>
    if (andb (nonempty_list relevant_tags) (negb (set_mem tk relevant_tags)))
  then (rst)
  else (let rst := (d_set tk (if (d_has tk rst) then (set_union_s (d_get [] tk rst) [tv]) else [tv]) rst) in
  rst))
    (p_tags _point) rst in
  rst))
    (db_rows self) rst in
  (fold_left (fun acc '(i, j) => d_set i (sort_none_last j) acc) rst [])).

(* class Measurement (measurement.py): self._db is the database object, self._name the handle's name *)
Definition gen_meas___len__ (self : pydb) (name : str) : nat :=
  if (andb (db_auto self) (IndexGen.gen_valid (db_index self)))
  then (if (d_has name (_measurements (db_index self)))
  then ((length (d_get [] name (_measurements (db_index self)))))
  else (0))
  else (let count := 0 in
  let count := fold_left (fun count item =>
    let count := (if (pyeq (p_meas item) name) then (let count := (count + 1) in
  count) else (count)) in
  count)
    (db_rows self) count in
  count).

Definition gen_meas___iter__ (self : pydb) (name : str) : list point :=
  let yielded := [] in
  let yielded := fold_left (fun yielded item =>
    let _measurement := (p_meas item) in
  let yielded := (if (pyeq _measurement name) then (let yielded := (yielded ++ [item]) in
  yielded) else (yielded)) in
  yielded)
    (db_rows self) yielded in
  yielded.

