#!/usr/bin/env python3
"""Fail-closed translator: tinyflux/index.py (the MAINTENANCE of the index) -> coq/gen/IndexGen.v

A small compiler from a fragment of imperative Python to state-passing Gallina.  Every translated method of class Index becomes

    gen_<method> (self : pyindex) <parameters> : pyindex

over the record of the object's attributes (IndexSem.v: the source's attribute names and declared types; dicts as insertion-ordered
association lists, the tag map nested as in the source).  proofs/IndexGenP.v proves that, through the abstraction `abs` onto the model's
index, these functions ARE the model's ix_reset / ix_invalidate / ix_insert / ix_build / ix_remove / ix_renumber (the tag map up to the order of
its keys, which no answer depends on: `Rep` is invariant under it), so the theorems about incremental maintenance (C06) are about what
index.py does now.

The fragment (anything else: REFUSED, exit 3, the last verified translation harness/IndexGen.fallback.v stands in):
  statements   x = e | x: T = e | self._a = e | self._a += e | self._a -= e | x += e | P[k] = e (P a path self._a[..].. or a fresh local dict)
               | P.append(e) | self.<translated method>(args) | if / else | for T in <iter>: ... (continue allowed) | return (bare)
               | try: <body> except Exception: self.invalidate(); raise   (the body is translated: what happens when reading storage fails
                 is the fault checks' business) | `if not point.time: raise ValueError` (unreachable for stored points, skipped literally)
               | x.sort(key=lambda x: x[0]) on a local list of pairs
  iterables    enumerate(X) | zip(A, B) | D.items() | D.keys() | X
  expressions  names, int constants, [..], {}, {k: v}, (a, b), t[0] / t[1] on pairs, D[k] where k is known to be present, d[k] if k in d else e,
               len(X), a + b, list comprehensions with one for and at most one if, k in D / k not in D (dict), x in S / x not in S (set of ints),
               truth of a list / dict (non-empty), not, and, or, point.time.timestamp(), time.timestamp(), point.measurement / .tags / .fields
Value semantics are sound for the accepted programs because: lists and dicts stored in the object are only mutated through their full path from
`self` (mutation through a local alias is refused), an alias is never read after its source was written, and a dict that is being iterated is only
changed by replacing the value of the key being visited.

Usage: py2coq_index.py <path/to/index.py> <out.v>
"""
import ast
import os
import sys

FALLBACK_FILE = os.path.join(os.path.dirname(os.path.abspath(__file__)), "IndexGen.fallback.v")


class Refuse(Exception):
    pass


def U(n):
    return ast.unparse(n)


# the declared attribute types of class Index (checked against the class body) and their kinds
ANNOT = {
    "_num_items": "int",
    "_tags": "Dict[str, Dict[Union[None, str], List[int]]]",
    "_fields": "Dict[str, List[Tuple[int, Optional[float]]]]",
    "_measurements": "Dict[str, List[int]]",
    "_timestamps": "List[float]",
    "_valid": "bool",
    "_storage_pos_sorted_by_ts": "List[int]",
}
INT, STR, BOOL, TIME, POINT, UNK = ("int",), ("str",), ("bool",), ("time",), ("point",), ("unk",)


def L(e):
    return ("list", e)


def D(v):
    return ("dict", v)


def T(a, b):
    return ("tuple", a, b)


KINDS = {
    "_num_items": INT, "_tags": D(D(L(INT))), "_fields": D(L(T(INT, UNK))), "_measurements": D(L(INT)), "_timestamps": L(TIME),
    "_valid": BOOL, "_storage_pos_sorted_by_ts": L(INT),
}
PARAM_KINDS = {
    "int": (INT, "nat"), "str": (STR, "str"), "bool": (BOOL, "bool"), "datetime": (TIME, "Z"),
    "FieldSet": (D(UNK), "list (str * option num)"), "TagSet": (D(UNK), "list (str * option str)"),
    "Set[int]": (("set",), "list nat"), "Dict[int, int]": (D(INT), "pydict nat nat"),
    "List[Point]": (L(POINT), "list point"), "Iterable[Point]": (L(POINT), "list point"),
    "Optional[str]": (("ostr",), "option str"), "List[str]": (L(STR), "list str"),
}
# methods that only READ the object and return a value: (name, Coq result type, kind of the result)
GETTERS = [("__len__", "nat", INT), ("valid", "bool", BOOL), ("empty", "bool", BOOL), ("get_measurements", "list str", ("sset",)), ("get_field_keys", "list str", ("sset",)), ("get_tag_keys", "list str", ("sset",)), ("get_timestamps", "list Z", L(TIME)),
           ("get_field_values", "list (option num)", L(UNK)), ("get_tag_values", "list (str * list (option str))", D(("sset",)))]
METHODS = ["__init__", "_reset", "invalidate", "_insert_time", "_insert_measurements", "_insert_tags", "_insert_fields", "insert", "build",
           "_remove_timestamps", "_remove_measurements", "_remove_tags", "_remove_fields", "remove",
           "_update_timestamps", "_update_measurements", "_update_tags", "_update_fields", "update"]
SKIP_LITERAL = "if not point.time:\n    raise ValueError"
HANDLER = ["self.invalidate()", "raise"]


def strip(stmts):
    out = []
    for s in stmts:
        if isinstance(s, ast.Expr) and isinstance(s.value, ast.Constant) and isinstance(s.value.value, str):
            continue
        out.append(s)
    return out


class Env:
    """kinds: name -> kind; facts: set of (dict path text, key text) known present; alias: name -> source path text; stale: set of alias names;
    iters: list of (source path text, key variable) of the running dict iterations; fresh: local names holding containers built here"""

    def __init__(self, kinds, facts=frozenset(), alias=None, stale=frozenset(), iters=(), fresh=frozenset(), inited=None):
        self.kinds, self.facts, self.alias, self.stale, self.iters, self.fresh = dict(kinds), frozenset(facts), dict(alias or {}), frozenset(stale), tuple(iters), frozenset(fresh)
        self.inited = inited            # None, or the set of attributes assigned so far (__init__: nothing is read before it is written)
        self.assumed = ()               # (test, truth) of every enclosing branch: what a small propositional check may use

    def copy(self, **kw):
        e = Env(self.kinds, self.facts, self.alias, self.stale, self.iters, self.fresh, self.inited)
        e.assumed = self.assumed
        for k, v in kw.items():
            setattr(e, k, v)
        return e


def overlaps(a, b):
    return a == b or a.startswith(b + "[") or b.startswith(a + "[")


class Compiler:
    def __init__(self, cls):
        self.fns = {n.name: n for n in cls.body if isinstance(n, ast.FunctionDef)}
        self.sigs = {}          # method -> list of parameter names (translated so far)
        ann = {U(n.target): U(n.annotation) for n in cls.body if isinstance(n, ast.AnnAssign) and n.value is None}
        if ann != ANNOT:
            raise Refuse(f"class Index: attribute declarations are not the ones IndexSem.pyindex mirrors: {sorted(set(ann.items()) ^ set(ANNOT.items()))[:2]}")

    # ----- paths (l-values rooted at self._attr or at a fresh local) -----
    def path(self, e, env):
        """-> (read text, kind, writer: newval_text -> (target var, new value text), path text)"""
        if isinstance(e, ast.Attribute) and isinstance(e.value, ast.Name) and e.value.id == "self" and e.attr in KINDS:
            a = e.attr
            if env.inited is not None and a not in env.inited:
                raise Refuse(f"__init__ reads self.{a} before assigning it")
            return f"({a} self)", KINDS[a], (lambda nv, a=a: ("self", f"(set_{a} self {nv})")), U(e)
        if isinstance(e, ast.Name):
            if e.id not in env.kinds:
                raise Refuse(f"unknown name `{e.id}`")
            if e.id in env.stale:
                raise Refuse(f"`{e.id}` is read after the container it came from was changed")
            return e.id, env.kinds[e.id], (lambda nv, n=e.id: (n, nv)), e.id
        if isinstance(e, ast.Subscript):
            rt, rk, rw, rp = self.path(e.value, env)
            if rk[0] == "dict" or rk == UNK:
                rk = rk if rk[0] == "dict" else D(UNK)
                kt, _ = self.ex(e.slice, env)
                ptxt = f"{rp}[{U(e.slice)}]"

                def rd():
                    if (rp, U(e.slice)) not in env.facts:
                        raise Refuse(f"`{U(e)}` is read where `{U(e.slice)}` is not known to be a key of `{rp}` (KeyError is not modelled)")
                    return f"(d_get {'0' if rk[1] == INT else '[]'} {kt} {rt_force(rt)})"
                return LazyRead(rd), rk[1], (lambda nv: rw(f"(d_set {kt} {nv} {rt_force(rt)})")), ptxt
            raise Refuse(f"subscript on a non-dict in a path: `{U(e)}`")
        raise Refuse(f"unsupported path `{U(e)}`")

    # ----- expressions -----
    def ex(self, e, env):
        """-> (coq text, kind)"""
        if isinstance(e, ast.Constant):
            if isinstance(e.value, bool):
                return ("true" if e.value else "false"), BOOL
            if isinstance(e.value, int) and 0 <= e.value < 1000:
                return str(e.value), INT
            raise Refuse(f"constant `{U(e)}`")
        if isinstance(e, ast.Name):
            t, k, _, _ = self.path(e, env)
            if k == ("ostr",):
                if ("truthy", e.id) not in env.facts and not self.entails_truthy(env, e.id):
                    raise Refuse(f"`{e.id}` (an optional string) is used as a string where it is not known to be one")
                return f"(opt_str {t})", STR
            return t, k
        if isinstance(e, ast.Attribute):
            if isinstance(e.value, ast.Name) and e.value.id == "self":
                t, k, _, _ = self.path(e, env)
                return t, k
            if isinstance(e.value, ast.Name) and env.kinds.get(e.value.id) == POINT:
                m = {"measurement": ("p_meas", STR), "tags": ("p_tags", D(UNK)), "fields": ("p_fields", D(UNK)), "time": ("p_time", TIME)}
                if e.attr in m:
                    return f"({m[e.attr][0]} {e.value.id})", m[e.attr][1]
            raise Refuse(f"attribute `{U(e)}`")
        if isinstance(e, ast.Subscript):
            if isinstance(e.slice, ast.Constant) and e.slice.value in (0, 1) and isinstance(e.value, ast.Name):
                vt, vk = self.ex(e.value, env)
                if vk[0] == "tuple":
                    return f"({'fst' if e.slice.value == 0 else 'snd'} {vt})", vk[1 + e.slice.value]
                if vk == UNK:
                    raise Refuse(f"`{U(e)}`: projection of a value of unknown shape")
            if not self.is_pathlike(e.value):
                raise Refuse(f"subscript `{U(e)}`")
            t, k, _, _ = self.path(e, env)
            return rt_force(t), k
        if isinstance(e, ast.List):
            xs = [self.ex(x, env) for x in e.elts]
            return "[" + "; ".join(x[0] for x in xs) + "]", L(xs[0][1] if xs else UNK)
        if isinstance(e, ast.Dict):
            if not e.keys:
                return "[]", D(UNK)
            if len(e.keys) == 1 and e.keys[0] is not None:
                k, v = self.ex(e.keys[0], env), self.ex(e.values[0], env)
                return f"[({k[0]}, {v[0]})]", D(v[1])
            raise Refuse(f"dict display `{U(e)}`")
        if isinstance(e, ast.DictComp):
            if len(e.generators) != 1 or e.generators[0].ifs or e.generators[0].is_async:
                raise Refuse(f"dict comprehension `{U(e)}`")
            g = e.generators[0]
            it, bpat, env2 = self.iterable(g.iter, g.target, env)
            k, v = self.ex(e.key, env2), self.ex(e.value, env2)
            return f"(fold_left (fun acc {bpat} => d_set {k[0]} {v[0]} acc) {it} [])", D(v[1])          # later occurrences of a key overwrite in place
        if isinstance(e, ast.Tuple) and len(e.elts) == 2:
            a, b = self.ex(e.elts[0], env), self.ex(e.elts[1], env)
            return f"({a[0]}, {b[0]})", T(a[1], b[1])
        if isinstance(e, ast.IfExp):
            # d[k] if k in d else e
            t = e.test
            if isinstance(t, ast.Compare) and len(t.ops) == 1 and isinstance(t.ops[0], ast.In) and isinstance(e.body, ast.Subscript) \
                    and U(e.body.value) == U(t.comparators[0]) and U(e.body.slice) == U(t.left):
                dt, dk = self.ex(t.comparators[0], env)
                if dk[0] == "dict":
                    kt, _ = self.ex(t.left, env)
                    ot, _ = self.ex(e.orelse, env)
                    return f"(d_get {ot} {kt} {dt})", dk[1]
            c = self.cond(e.test, env)
            a, b = self.ex(e.body, self.assume(e.test, env, True)), self.ex(e.orelse, self.assume(e.test, env, False))
            return f"(if {c} then {a[0]} else {b[0]})", a[1]
        if isinstance(e, ast.BinOp) and isinstance(e.op, (ast.Add, ast.Sub)):
            a, b = self.ex(e.left, env), self.ex(e.right, env)
            if a[1] == INT and b[1] == INT:
                return f"({a[0]} {'+' if isinstance(e.op, ast.Add) else '-'} {b[0]})", INT
            raise Refuse(f"arithmetic on non-integers `{U(e)}`")
        if isinstance(e, ast.ListComp):
            if len(e.generators) != 1 or e.generators[0].is_async or len(e.generators[0].ifs) > 1:
                raise Refuse(f"comprehension `{U(e)}`")
            g = e.generators[0]
            it, pat, env2 = self.iterable(g.iter, g.target, env)
            src = it
            if g.ifs:
                src = f"(filter (fun {pat} => {self.cond(g.ifs[0], env2)}) {it})"
            el = self.ex(e.elt, env2)
            if isinstance(e.elt, ast.Name) and isinstance(g.target, ast.Name) and e.elt.id == g.target.id:
                return src, L(el[1])
            return f"(map (fun {pat} => {el[0]}) {src})", L(el[1])
        if isinstance(e, ast.Call):
            f = e.func
            if isinstance(f, ast.Name) and f.id == "len" and len(e.args) == 1 and not e.keywords:
                a = self.ex(e.args[0], env)
                if a[1][0] in ("list", "set", "dict"):
                    return f"(length {a[0]})", INT
            if isinstance(f, ast.Name) and f.id in ("set", "list") and len(e.args) == 1 and not e.keywords:
                if f.id == "set" and isinstance(e.args[0], ast.Dict) and not e.args[0].keys:
                    return "[]", ("eset",)          # set({}): an empty set, of strings or of positions
                a = self.ex(e.args[0], env)
                if a[1][0] in ("list", "set", "sset"):
                    if f.id == "list":
                        return a[0], L(STR if a[1][0] == "sset" else INT if a[1][0] == "set" else a[1][1])
                    el = a[1][1] if a[1][0] == "list" else None
                    return a[0], (("sset",) if (a[1][0] == "sset" or el in (STR, UNK)) else ("set",))       # a set is a list read through membership
                raise Refuse(f"call `{U(e)}`")
            if isinstance(f, ast.Attribute) and f.attr == "intersection" and len(e.args) == 1 and not e.keywords:
                a, b = self.ex(f.value, env), self.ex(e.args[0], env)
                if a[1] == ("set",) and b[1] == ("set",):
                    return f"(set_inter {a[0]} {b[0]})", ("set",)
                raise Refuse(f"`{U(e)}`: intersection of something other than two sets of positions")
            if isinstance(f, ast.Name) and f.id == "sorted" and len(e.args) == 1 and [U(k) for k in e.keywords] == ["key=lambda x: x[1]"]:
                a = self.ex(e.args[0], env)
                if a[1][0] == "list" and a[1][1][0] == "tuple" and a[1][1][2] == INT and a[1][1][1] == TIME:
                    return f"(sort_by_second {a[0]})", a[1]
                raise Refuse(f"`{U(e)}`: sorted by the second component of something that is not a list of (stamp, position) pairs")
            if isinstance(f, ast.Attribute) and f.attr == "keys" and not e.args and not e.keywords:
                a = self.ex(f.value, env)
                if a[1][0] == "dict":
                    return f"(map fst {a[0]})", L(STR)
                raise Refuse(f"call `{U(e)}`")
            if isinstance(f, ast.Attribute) and f.attr == "timestamp" and not e.args and not e.keywords:
                a = self.ex(f.value, env)
                if a[1] == TIME:
                    return a[0], TIME
            raise Refuse(f"call `{U(e)}`")
        if isinstance(e, (ast.Compare, ast.BoolOp, ast.UnaryOp)):
            return self.cond(e, env), BOOL
        raise Refuse(f"expression `{U(e)}`")

    def is_pathlike(self, e):
        while isinstance(e, ast.Subscript):
            e = e.value
        return (isinstance(e, ast.Attribute) and isinstance(e.value, ast.Name) and e.value.id == "self") or isinstance(e, ast.Name)

    def cond(self, e, env):
        if isinstance(e, ast.UnaryOp) and isinstance(e.op, ast.Not):
            return f"(negb {self.cond(e.operand, env)})"
        if isinstance(e, ast.BoolOp):
            parts, env2 = [], env
            for v in e.values:
                parts.append(self.cond(v, env2))
                env2 = self.assume(v, env2, isinstance(e.op, ast.And))
            op = "andb" if isinstance(e.op, ast.And) else "orb"
            out = parts[-1]
            for p in reversed(parts[:-1]):
                out = f"({op} {p} {out})"
            return out
        if isinstance(e, ast.Compare) and len(e.ops) == 1:
            op, a, b = e.ops[0], e.left, e.comparators[0]
            if isinstance(op, (ast.In, ast.NotIn)):
                bt, bk = self.ex(b, env)
                at, ak = self.ex(a, env)
                if bk[0] == "dict":
                    r = f"(d_has {at} {bt})"
                elif bk[0] == "set" and ak == INT:
                    r = f"(mem {at} {bt})"
                else:
                    raise Refuse(f"membership in something that is neither a dict nor a set of ints: `{U(e)}`")
                return r if isinstance(op, ast.In) else f"(negb {r})"
            if isinstance(op, (ast.Eq, ast.NotEq)):
                at, ak = self.ex(a, env)
                bt, bk = self.ex(b, env)
                if ak == INT and bk == INT:
                    r = f"(Nat.eqb {at} {bt})"
                    return r if isinstance(op, ast.Eq) else f"(negb {r})"
                if STR in (ak, bk) and ak in (STR, UNK) and bk in (STR, UNK):
                    r = f"(pyeq {at} {bt})"          # == on strings (Coq's type checker rejects a non-string operand)
                    return r if isinstance(op, ast.Eq) else f"(negb {r})"
            raise Refuse(f"comparison `{U(e)}`")
        if isinstance(e, ast.Name) and env.kinds.get(e.id) == ("ostr",):
            return f"(opt_truthy {e.id})"
        t, k = self.ex(e, env)
        if k == BOOL:
            return t
        if k[0] in ("list", "dict", "set", "sset"):
            return f"(nonempty_list {t})"
        if k == INT:
            return f"(negb (Nat.eqb {t} 0))"
        raise Refuse(f"truth value of `{U(e)}`")

    def assume(self, test, env, truth):
        """facts a test establishes in its true / false branch"""
        env = env.copy(assumed=env.assumed + ((test, truth),))
        if isinstance(test, ast.BoolOp) and ((isinstance(test.op, ast.And) and truth) or (isinstance(test.op, ast.Or) and not truth)):
            for v in test.values:
                env = self.assume(v, env, truth)
            return env
        return self._assume(test, env, truth)

    def entails_truthy(self, env, name):
        """do the conditions of the enclosing branches imply that the optional string `name` is truthy?  (atoms: the truthiness of names, anything
        else opaque; all assignments tried)"""
        atoms = []

        def collect(t):
            if isinstance(t, ast.BoolOp):
                for v in t.values:
                    collect(v)
            elif isinstance(t, ast.UnaryOp) and isinstance(t.op, ast.Not):
                collect(t.operand)
            elif U(t) not in atoms:
                atoms.append(U(t))

        def ev(t, a):
            if isinstance(t, ast.BoolOp):
                vs = [ev(v, a) for v in t.values]
                return all(vs) if isinstance(t.op, ast.And) else any(vs)
            if isinstance(t, ast.UnaryOp) and isinstance(t.op, ast.Not):
                return not ev(t.operand, a)
            return a[U(t)]
        for t, _ in env.assumed:
            collect(t)
        if name not in atoms or len(atoms) > 8:
            return False
        import itertools
        models = [dict(zip(atoms, bits)) for bits in itertools.product([False, True], repeat=len(atoms))]
        models = [a for a in models if all(ev(t, a) == truth for t, truth in env.assumed)]
        return bool(models) and all(a[name] for a in models)

    def _assume(self, test, env, truth):
        if isinstance(test, ast.UnaryOp) and isinstance(test.op, ast.Not):
            return self._assume(test.operand, env, not truth) if not isinstance(test.operand, ast.BoolOp) else self.assume(test.operand, env.copy(assumed=env.assumed[:-1]), not truth)
        if isinstance(test, ast.Name) and env.kinds.get(test.id) == ("ostr",) and truth:
            return env.copy(facts=env.facts | {("truthy", test.id)})
        if isinstance(test, ast.Compare) and len(test.ops) == 1 and isinstance(test.ops[0], (ast.In, ast.NotIn)):
            present = isinstance(test.ops[0], ast.In) == truth
            if present and self.is_pathlike(test.comparators[0]):
                try:
                    _, k, _, p = self.path(test.comparators[0], env)
                except Refuse:
                    return env
                if k[0] == "dict":
                    return env.copy(facts=env.facts | {(p, U(test.left))})
        return env

    # ----- iterables: -> (list text, binder pattern, env for the body) -----
    def iterable(self, it, target, env, loop=False):
        def names(t):
            if isinstance(t, ast.Name):
                return [t.id]
            if isinstance(t, ast.Tuple) and all(isinstance(x, ast.Name) for x in t.elts) and len(t.elts) == 2:
                return [x.id for x in t.elts]
            raise Refuse(f"loop target `{U(t)}`")
        ns = names(target)
        pat = ns[0] if len(ns) == 1 else f"'({ns[0]}, {ns[1]})"
        env2 = env.copy(kinds=dict(env.kinds), alias=dict(env.alias), stale=env.stale - set(ns), fresh=env.fresh - set(ns))
        for n in ns:
            env2.alias.pop(n, None)
        if isinstance(it, ast.Call) and isinstance(it.func, ast.Name) and it.func.id in ("enumerate", "zip") and not it.keywords:
            if it.func.id == "enumerate" and len(it.args) == 1 and len(ns) == 2:
                a = self.ex(it.args[0], env)
                if a[1][0] != "list":
                    raise Refuse(f"enumerate over a non-list `{U(it)}`")
                env2.kinds[ns[0]], env2.kinds[ns[1]] = INT, a[1][1]
                return f"(combine (seq 0 (length {a[0]})) {a[0]})", pat, env2
            if it.func.id == "zip" and len(it.args) == 2 and len(ns) == 2:
                a, b = self.ex(it.args[0], env), self.ex(it.args[1], env)
                if a[1][0] != "list" or b[1][0] != "list":
                    raise Refuse(f"zip over non-lists `{U(it)}`")
                env2.kinds[ns[0]], env2.kinds[ns[1]] = a[1][1], b[1][1]
                return f"(combine {a[0]} {b[0]})", pat, env2
            raise Refuse(f"iterable `{U(it)}`")
        if isinstance(it, ast.Call) and isinstance(it.func, ast.Attribute) and it.func.attr in ("items", "keys") and not it.args and not it.keywords:
            d = it.func.value
            dt, dk = self.ex(d, env)
            if dk[0] != "dict":
                raise Refuse(f"`{U(it)}` on a non-dict")
            src = None
            if self.is_pathlike(d):
                _, _, _, src = self.path(d, env)
                src = env.alias.get(src, src)
            if it.func.attr == "items" and len(ns) == 2:
                env2.kinds[ns[0]], env2.kinds[ns[1]] = UNK, dk[1]
                if src is not None:
                    env2.alias[ns[1]] = f"{src}[{ns[0]}]"
                    if self.is_pathlike(d):
                        env2.facts = env2.facts | {(self.path(d, env)[3], ns[0])}
                    if loop:
                        env2.iters = env2.iters + ((src, ns[0]),)
                return dt, pat, env2
            if it.func.attr == "keys" and len(ns) == 1:
                env2.kinds[ns[0]] = UNK
                if src is not None:
                    env2.facts = env2.facts | {(self.path(d, env)[3], ns[0])}
                    if loop:
                        env2.iters = env2.iters + ((src, ns[0]),)
                return f"(map fst {dt})", pat, env2
            raise Refuse(f"iterable `{U(it)}` with target `{U(target)}`")
        if isinstance(it, ast.Call) and isinstance(it.func, ast.Attribute) and it.func.attr == "values" and not it.args and not it.keywords and len(ns) == 1:
            dt, dk = self.ex(it.func.value, env)
            if dk[0] != "dict":
                raise Refuse(f"`{U(it)}` on a non-dict")
            env2.kinds[ns[0]] = dk[1]
            return f"(map snd {dt})", pat, env2
        a = self.ex(it, env)
        if a[1][0] == "dict" and len(ns) == 1:
            env2.kinds[ns[0]] = UNK          # iterating a dict yields its keys
            return f"(map fst {a[0]})", pat, env2
        if a[1][0] == "list" and len(ns) == 1:
            env2.kinds[ns[0]] = a[1][1]
            return a[0], pat, env2
        if a[1][0] == "list" and len(ns) == 2 and a[1][1][0] == "tuple":
            env2.kinds[ns[0]], env2.kinds[ns[1]] = a[1][1][1], a[1][1][2]
            return a[0], pat, env2
        raise Refuse(f"iterable `{U(it)}`")

    # ----- statements -----
    def written(self, stmts):
        """names (and 'self') a statement list may assign"""
        out = set()
        for s in stmts:
            for n in ast.walk(s):
                if isinstance(n, (ast.Assign, ast.AugAssign, ast.AnnAssign)):
                    for t in (n.targets if isinstance(n, ast.Assign) else [n.target]):
                        out.add(self.root(t))
                elif isinstance(n, ast.Expr) and isinstance(n.value, ast.Call) and isinstance(n.value.func, ast.Attribute):
                    out.add(self.root(n.value.func.value))
                elif isinstance(n, ast.Expr) and isinstance(n.value, ast.Yield):
                    out.add("yielded")
                elif isinstance(n, ast.For):
                    for x in ast.walk(n.target):
                        if isinstance(x, ast.Name):
                            out.add(x.id)
        return out

    def root(self, e):
        while isinstance(e, (ast.Subscript, ast.Attribute)):
            if isinstance(e, ast.Attribute) and isinstance(e.value, ast.Name) and e.value.id == "self":
                return "self"
            e = e.value
        return e.id if isinstance(e, ast.Name) else "?"

    def escapes(self, stmts):
        def walk(n):
            if isinstance(n, ast.AST) and not (isinstance(n, ast.If) and U(n) == SKIP_LITERAL):
                yield n
                for c in ast.iter_child_nodes(n):
                    yield from walk(c)
        return any(isinstance(n, (ast.Continue, ast.Return, ast.Raise, ast.Break)) for s in stmts for n in walk(s))

    def note_write(self, ptxt, env):
        """a container at path ptxt is changed: running iterations must allow it, aliases into it go stale, facts below a replaced value die"""
        for src, key in env.iters:
            if overlaps(src, ptxt) and not (ptxt == f"{src}[{key}]" or ptxt.startswith(f"{src}[{key}][")):
                raise Refuse(f"`{ptxt}` is changed while `{src}` is being iterated (only the value of the key being visited may be replaced)")
        stale = env.stale | {n for n, s in env.alias.items() if overlaps(s, ptxt)}
        return env.copy(stale=stale)

    def assign_path(self, target, value_text, value_kind, env, fresh_value):
        """target = value  ->  (var, new text, env')"""
        if isinstance(target, ast.Name):
            n = target.id
            if n == "self":
                raise Refuse("assignment to self")
            kinds = dict(env.kinds)
            kinds[n] = value_kind
            alias = dict(env.alias)
            alias.pop(n, None)
            facts = frozenset(f for f in env.facts if not overlaps(f[0], n) and f[1] != n)
            return n, value_text, env.copy(kinds=kinds, alias=alias, stale=env.stale - {n}, facts=facts,
                                          fresh=(env.fresh | {n}) if fresh_value else env.fresh - {n})
        if isinstance(target, ast.Attribute):
            if not (isinstance(target.value, ast.Name) and target.value.id == "self" and target.attr in KINDS):
                raise Refuse(f"assignment to `{U(target)}`")
            a = target.attr
            ptxt = U(target)
            if self.getter is not None:
                raise Refuse(f"a method that returns a value assigns self.{a}")
            env = self.note_write(ptxt, env)
            facts = frozenset(f for f in env.facts if not overlaps(f[0], ptxt))
            inited = None if env.inited is None else env.inited | {a}
            return "self", f"(set_{a} self {value_text})", env.copy(facts=facts, inited=inited)
        if isinstance(target, ast.Subscript):
            root = self.root(target)
            if root != "self" and root not in env.fresh:
                raise Refuse(f"`{U(target)}` is changed through a name that is not a container built here (mutation through an alias)")
            rt, rk, rw, rp = self.path(target.value, env)
            if rk[0] != "dict" and rk != UNK:
                raise Refuse(f"item assignment on a non-dict `{U(target)}`")
            kt, _ = self.ex(target.slice, env)
            ptxt = f"{rp}[{U(target.slice)}]"
            var, nv = rw(f"(d_set {kt} {value_text} {rt_force(rt)})")
            env = self.note_write(ptxt, env)
            facts = frozenset(f for f in env.facts if not (f[0] == ptxt or f[0].startswith(ptxt + "["))) | {(rp, U(target.slice))}
            return var, nv, env.copy(facts=facts)
        raise Refuse(f"assignment target `{U(target)}`")

    def blk(self, stmts, env, final, in_loop=False):
        stmts = strip(stmts)
        if not stmts:
            return final(env)
        st, rest = stmts[0], stmts[1:]
        s = U(st)

        def go(env2):
            return self.blk(rest, env2, final, in_loop)
        if s == SKIP_LITERAL:
            return go(env)
        if isinstance(st, ast.Expr) and isinstance(st.value, ast.Yield) and self.getter is not None and self.yields:
            if st.value.value is None:
                raise Refuse("a bare yield")
            vt, vk = self.ex(st.value.value, env)
            return f"let yielded := (yielded ++ [{vt}]) in\n  {go(env)}"
        if isinstance(st, ast.Return) and self.getter is not None:
            if st.value is None or in_loop:
                raise Refuse(f"`{s}` in a method that returns a value")
            t, k = self.ex(st.value, env)
            if not (k == self.getter or (k[0] == self.getter[0] and k[0] in ("list", "set")) or (self.getter == ("sset",) and k in (("eset",), ("sset",))) or (self.getter[0] == "dict" and k[0] == "dict")):
                raise Refuse(f"`{s}`: the value is a {k[0]}, the method returns a {self.getter[0]}")
            return t
        if isinstance(st, ast.Return):
            if st.value is not None and U(st.value) != "None":
                raise Refuse(f"`{s}`: only a bare return is translated")
            if in_loop:
                raise Refuse("return inside a loop")
            return self.fn_final(env)
        if isinstance(st, ast.Continue):
            if not in_loop:
                raise Refuse("continue outside a loop")
            return final(env)
        if isinstance(st, (ast.Assign, ast.AnnAssign)):
            if isinstance(st, ast.Assign) and len(st.targets) != 1:
                raise Refuse(f"`{s}`")
            if st.value is None:
                raise Refuse(f"`{s}`")
            target = st.targets[0] if isinstance(st, ast.Assign) else st.target
            vt, vk = self.ex(st.value, env)
            fresh = isinstance(st.value, (ast.List, ast.Dict, ast.ListComp, ast.DictComp)) or (isinstance(st.value, ast.Call) and U(st.value) in ("set({})", "set()"))
            var, nv, env2 = self.assign_path(target, vt, vk, env, fresh)
            return f"let {var} := {nv} in\n  {go(env2)}"
        if isinstance(st, ast.AugAssign) and isinstance(st.op, (ast.Add, ast.Sub)):
            cur = self.ex(st.target, env)
            vt, vk = self.ex(st.value, env)
            if cur[1] != INT or vk != INT:
                raise Refuse(f"`{s}`: augmented assignment on non-integers")
            var, nv, env2 = self.assign_path(st.target, f"({cur[0]} {'+' if isinstance(st.op, ast.Add) else '-'} {vt})", INT, env, False)
            return f"let {var} := {nv} in\n  {go(env2)}"
        if isinstance(st, ast.Expr) and isinstance(st.value, ast.Call):
            c = st.value
            f = c.func
            if isinstance(f, ast.Attribute) and isinstance(f.value, ast.Name) and f.value.id == "self":
                if f.attr not in self.sigs:
                    raise Refuse(f"call of `self.{f.attr}`, which is not a translated method")
                if c.keywords or len(c.args) != len(self.sigs[f.attr]):
                    raise Refuse(f"`{s}`: arguments do not match the signature")
                if env.inited is not None:
                    raise Refuse("__init__ calls a method")
                args = " ".join(self.ex(a, env)[0] for a in c.args)
                env2 = env
                for a in KINDS:
                    env2 = self.note_write(f"self.{a}", env2)
                env2 = env2.copy(facts=frozenset(f for f in env2.facts if not f[0].startswith("self.")))
                return f"let self := gen_{f.attr} self {args} in\n  {go(env2)}".replace("  in", " in")
            if isinstance(f, ast.Attribute) and f.attr == "append" and len(c.args) == 1 and not c.keywords:
                root = self.root(f.value)
                if root != "self" and root not in env.fresh:
                    raise Refuse(f"`{s}`: append through a name that is not a list built here (mutation through an alias)")
                rt, rk, rw, rp = self.path(f.value, env)
                if rk[0] != "list":
                    raise Refuse(f"`{s}`: append on a non-list")
                vt, vk = self.ex(c.args[0], env)
                var, nv = rw(f"({rt_force(rt)} ++ [{vt}])")
                env2 = self.note_write(rp, env)
                if var != "self":
                    kinds = dict(env2.kinds)
                    kinds[var] = L(vk) if rk[1] == UNK else rk
                    env2 = env2.copy(kinds=kinds)
                return f"let {var} := {nv} in\n  {go(env2)}"
            if isinstance(f, ast.Attribute) and f.attr == "add" and len(c.args) == 1 and not c.keywords and isinstance(f.value, ast.Name) and f.value.id in env.fresh:
                n = f.value.id
                if env.kinds[n] not in (("sset",), ("eset",)):
                    raise Refuse(f"`{s}`: add on something that is not a set of strings built here")
                vt, vk = self.ex(c.args[0], env)
                if vk not in (STR, UNK):
                    raise Refuse(f"`{s}`: adding a non-string")
                kinds = dict(env.kinds)
                kinds[n] = ("sset",)
                return f"let {n} := (set_add {vt} {n}) in\n  {go(env.copy(kinds=kinds))}"
            if isinstance(f, ast.Attribute) and f.attr == "add" and len(c.args) == 1 and not c.keywords and isinstance(f.value, ast.Subscript) \
                    and self.root(f.value) in env.fresh:
                rt, rk, rw, rp = self.path(f.value, env)
                if rk not in (("sset",), ("eset",), UNK):
                    raise Refuse(f"`{s}`: add on something that is not a set of strings")
                vt, vk = self.ex(c.args[0], env)
                var, nv = rw(f"(set_add {vt} {rt_force(rt)})")
                env2 = self.note_write(rp, env)
                return f"let {var} := {nv} in\n  {go(env2)}"
            if isinstance(f, ast.Attribute) and f.attr == "extend" and len(c.args) == 1 and not c.keywords and isinstance(f.value, ast.Name) \
                    and f.value.id in env.fresh and isinstance(c.args[0], (ast.GeneratorExp, ast.ListComp)):
                n = f.value.id
                if env.kinds[n][0] != "list":
                    raise Refuse(f"`{s}`: extend on a non-list")
                g = c.args[0]
                lc = ast.ListComp(elt=g.elt, generators=g.generators)
                vt, vk = self.ex(lc, env)
                kinds = dict(env.kinds)
                kinds[n] = vk if env.kinds[n][1] == UNK else env.kinds[n]
                return f"let {n} := ({n} ++ {vt}) in\n  {go(env.copy(kinds=kinds))}"
            if isinstance(f, ast.Attribute) and f.attr == "sort" and isinstance(f.value, ast.Name) and not c.args \
                    and [U(k) for k in c.keywords] == ["key=lambda x: x[0]"] and f.value.id in env.fresh:
                n = f.value.id
                k = env.kinds[n]
                if k[0] != "list" or k[1][0] != "tuple" or k[1][1] != TIME or k[1][2] != INT:
                    raise Refuse(f"`{s}`: sort of something that is not a list of (stamp, position) pairs")
                return f"let {n} := sort_by_first {n} in\n  {go(env)}"
            raise Refuse(f"statement `{s[:80]}`")
        if isinstance(st, ast.Try):
            if st.orelse or st.finalbody or len(st.handlers) != 1 or U(st.handlers[0].type) != "Exception" or st.handlers[0].name \
                    or [U(x) for x in strip(st.handlers[0].body)] != HANDLER or "invalidate" not in self.sigs:
                raise Refuse("try statement: only `except Exception: self.invalidate(); raise` is known")
            if self.escapes(st.body):
                raise Refuse("try body with continue / return / raise")
            return self.blk(list(st.body) + rest, env, final, in_loop)
        if isinstance(st, ast.If):
            c = self.cond(st.test, env)
            et, ef = self.assume(st.test, env, True), self.assume(st.test, env, False)
            if self.escapes(st.body) or self.escapes(st.orelse):
                a = self.blk(list(st.body) + rest, et, final, in_loop)
                b = self.blk(list(st.orelse) + rest, ef, final, in_loop)
                return f"if {c}\n  then ({a})\n  else ({b})"
            carried = sorted(v for v in self.written(list(st.body) + list(st.orelse)) if v == "self" or v in env.kinds)
            new_locals = self.written(list(st.body) + list(st.orelse)) - set(carried) - {"?"}
            if not carried:
                raise Refuse(f"`{s[:60]}`: an if that changes nothing that lives on")
            ends = []

            def fin(e2):
                ends.append(e2)
                return tup(carried)
            a = self.blk(list(st.body), et, fin)
            b = self.blk(list(st.orelse), ef, fin)
            env2 = self.join(env, ends, new_locals)
            return f"let {pat(carried)} := (if {c} then ({a}) else ({b})) in\n  {go(env2)}"
        if isinstance(st, ast.For):
            if st.orelse:
                raise Refuse("for ... else")
            if any(isinstance(n, (ast.Return, ast.Raise, ast.Break)) for x in st.body if U(x) != SKIP_LITERAL for n in ast.walk(x)):
                raise Refuse("return / raise / break inside a loop")
            it, bpat, env_b = self.iterable(st.iter, st.target, env, loop=True)
            body_written = self.written(st.body)
            carried = sorted(v for v in body_written if v == "self" or (v in env.kinds and v not in [x.id for x in ast.walk(st.target) if isinstance(x, ast.Name)]))
            new_locals = body_written - set(carried) - {"?"}
            if not carried:
                raise Refuse("a loop that changes nothing that lives on")
            # the body starts from ANY iteration's state: what is assumed at the loop head must survive the body (shrink until it does)
            tnames = {x.id for x in ast.walk(st.target) if isinstance(x, ast.Name)}

            def mentions(f):
                return any(ast.dump(ast.Name(id=t, ctx=ast.Load())) in ast.dump(ast.parse(f[0], mode="eval")) + ast.dump(ast.parse(f[1], mode="eval")) for t in tnames)
            facts = frozenset(f for f in env.facts if not mentions(f)) | (env_b.facts - env.facts)
            while True:
                ends = []

                def fin(e2):
                    ends.append(e2)
                    return tup(carried)
                head = env_b.copy(facts=facts)
                body = self.blk(list(st.body), head, fin, in_loop=True)
                kept = facts
                for e2 in ends:
                    kept = kept & (e2.facts | (env_b.facts - env.facts))
                if kept == facts:
                    break
                facts = kept
            env2 = self.join(env.copy(facts=facts & env.facts), ends, new_locals | tnames)
            env2 = env2.copy(facts=facts & env.facts & env2.facts | (facts & env.facts))
            env2 = env2.copy(iters=env.iters)
            return f"let {pat(carried)} := fold_left (fun {pat(carried, True)} {bpat} =>\n    {body})\n    {it} {tup(carried)} in\n  {go(env2)}"
        raise Refuse(f"statement `{s[:80]}`")

    def join(self, before, ends, dropped):
        """the environment after an if / a loop: kinds of what lived before, facts common to every end, names first bound inside are gone"""
        kinds = {n: k for n, k in before.kinds.items()}
        for e in ends:
            for n in kinds:
                if n in e.kinds and kinds[n] != e.kinds[n]:
                    kinds[n] = e.kinds[n] if kinds[n][-1] == UNK or kinds[n] == D(UNK) or kinds[n] == L(UNK) else kinds[n]
        facts = None
        for e in ends:
            facts = e.facts if facts is None else facts & e.facts
        facts = frozenset(f for f in (facts or frozenset()) if not any(f[1] == d or overlaps(f[0], d) for d in dropped))
        stale = frozenset().union(*[e.stale for e in ends]) if ends else before.stale
        fresh = before.fresh
        for e in ends:
            fresh = fresh & e.fresh
        inited = before.inited
        if inited is not None:
            for e in ends:
                inited = inited & e.inited
        for d in dropped:
            kinds.pop(d, None)
        return Env(kinds, facts, {n: s for n, s in before.alias.items()}, stale | before.stale, before.iters, fresh, inited)

    getter = None
    yields = False

    def fn_final(self, env):
        if self.getter is not None and self.yields:
            return "yielded"          # a generator function: what it yields, in order (the consumer is assumed to exhaust it)
        if self.getter is not None:
            raise Refuse("control falls off the end of a method that returns a value")
        return self._fn_final(env)

    def _fn_final(self, env):
        if env.inited is not None and env.inited != set(KINDS):
            raise Refuse(f"__init__ leaves attributes unassigned: {sorted(set(KINDS) - env.inited)}")
        return "self"

    def method(self, name, getter=None):
        fn = self.fns.get(name)
        if fn is None:
            raise Refuse(f"method `{name}` not found")
        self.getter = getter[1] if getter else None
        if getter and [U(d) for d in fn.decorator_list] == ["property"]:
            fn = ast.FunctionDef(name=fn.name, args=fn.args, body=fn.body, decorator_list=[], returns=fn.returns, lineno=fn.lineno)
        if fn.decorator_list or fn.args.vararg or fn.args.kwarg or fn.args.kwonlyargs or fn.args.posonlyargs:
            raise Refuse(f"`{name}`: unexpected signature")
        params, kinds = [], {}
        for a in fn.args.args[1:]:
            ann = U(a.annotation) if a.annotation is not None else None
            if ann not in PARAM_KINDS:
                raise Refuse(f"`{name}`: parameter `{a.arg}: {ann}`")
            kinds[a.arg] = PARAM_KINDS[ann][0]
            params.append((a.arg, PARAM_KINDS[ann][1]))
        if fn.args.args[0].arg != "self":
            raise Refuse(f"`{name}`: first parameter is not self")
        if name == "__init__":
            if [p[0] for p in params] != ["valid"]:
                raise Refuse("__init__: parameters")
            env = Env(kinds, inited=frozenset())
        else:
            env = Env(kinds)
        self.yields = bool(getter) and any(isinstance(n, ast.Yield) for x in fn.body for n in ast.walk(x))
        if self.yields:
            if any(isinstance(n, ast.Return) for x in fn.body for n in ast.walk(x)):
                raise Refuse(f"`{name}`: a generator function with a return")
            env.kinds["yielded"] = L(UNK)
            env = env.copy(fresh=env.fresh | {"yielded"})
        body = self.blk(list(fn.body), env, self.fn_final)
        if self.yields:
            body = "let yielded := [] in\n  " + body
            self.yields = False
        ps = "".join(f" ({n} : {t})" for n, t in params)
        if getter:
            self.getter = None
            return f"Definition gen_{name} (self : pyindex){ps} : {getter[0]} :=\n  {body}.\n\n"
        self.sigs[name] = [p[0] for p in params]
        return f"Definition gen_{name} (self : pyindex){ps} : pyindex :=\n  {body}.\n\n"


class LazyRead:
    """a dict read whose definedness is checked only if the value is actually read (a write path reads its parents, not its own slot)"""

    def __init__(self, f):
        self.f = f


def rt_force(t):
    return t.f() if isinstance(t, LazyRead) else t


def tup(names):
    return names[0] if len(names) == 1 else "(" + ", ".join(names) + ")"


def pat(names, binder=False):
    if len(names) == 1:
        return names[0]
    return "'(" + ", ".join(names) + ")"


HEADER = """(* GENERATED on every run by harness/py2coq_index.py from tinyflux/index.py (the maintenance methods of class Index) - do not edit.
   proofs/IndexGenP.v proves them, through IndexSem.abs, the model's ix_reset / ix_invalidate / ix_insert / ix_build / ix_remove / ix_renumber. *)
From Coq Require Import List ZArith Bool Arith.
From TF Require Import Base Query Index IndexSem.
Import ListNotations.

"""


def main():
    src, out_path = sys.argv[1], sys.argv[2]
    refused = None
    try:
        tree = ast.parse(open(src).read())
        cls = [n for n in tree.body if isinstance(n, ast.ClassDef) and n.name == "Index"]
        if len(cls) != 1:
            raise Refuse("class Index not found")
        c = Compiler(cls[0])
        text = HEADER + "Definition refused : bool := false.\n\n" + "".join(c.method(m) for m in METHODS) + \
            "(* methods that read the object and return a value *)\n" + "".join(c.method(n, (t, k)) for n, t, k in GETTERS)
    except (Refuse, SyntaxError, OSError, RecursionError) as r:
        refused = str(r)
        snap = open(FALLBACK_FILE).read().replace("Definition refused : bool := false.", "Definition refused : bool := true.")
        text = "(* REFUSED by the translator: " + refused[:140].replace("*", "x").replace("(", "[").replace(")", "]").replace('"', "'") + \
               " - the last verified translation (harness/IndexGen.fallback.v) stands in *)\n" + snap
    try:
        old = open(out_path).read()
    except FileNotFoundError:
        old = None
    if old != text:
        open(out_path, "w").write(text)
    if refused:
        print(f"REFUSED index maintenance: {refused}")
    return 3 if refused else 0


if __name__ == "__main__":
    sys.exit(main())
