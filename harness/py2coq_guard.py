#!/usr/bin/env python3
"""Fail-closed translator: tinyflux/database.py (index_is_exact) -> coq/gen/GuardGen.v

index_is_exact decides whether a query is answered by the index or by a scan of storage; it is a small
recursive function over the query object.  Exactly its fragment of Python is accepted (anything else is
refused, exit 3, and the hand model is used instead - reported by the check):

  * `isinstance(x, CompoundQuery|SimpleQuery)` -> q_isinst; `x.operator == operator.not_|and_|or_` -> opname_eqb;
    `x._point_attr == "_fields"|"_tags"|"_time"|"_measurement"` -> attr_name_eqb; `x._hash is None` -> q_hash_is_none;
    `x.query2 is None`; `x.query1` / `x.query2` as arguments of the recursive call; `and`, `or`, `not`;
  * statements: `if c: return <expr>`, nested `if` blocks ending in return, `return <expr>`, `name = <boolean expr>` (inlined);
  * recursion is translated with explicit fuel (the size of the query suffices: proofs/GuardGenP.v).

Usage: py2coq_guard.py <path/to/database.py> <out.v>
"""
import ast
import sys

FUNC = "index_is_exact"
ATTRS = {"_fields": "AFields", "_tags": "ATags", "_time": "ATime", "_measurement": "AMeas"}
OPS = {"not_": "ONot", "and_": "OAnd", "or_": "OOr"}
CLS = {"CompoundQuery": "KCompound", "SimpleQuery": "KSimple"}


class Refuse(Exception):
    pass


def _san(t):
    """a refusal reason inside a Coq comment: no comment brackets, no quotes (a quote starts a string even inside a comment)"""
    return t.replace("*", "x").replace("(", "[").replace(")", "]").replace('"', "'")


class Tr:
    def __init__(self, fn):
        self.fn = fn
        if len(fn.args.args) != 1 or fn.args.vararg or fn.args.kwarg or fn.args.kwonlyargs or fn.args.defaults:
            raise Refuse("unexpected signature")
        self.arg = fn.args.args[0].arg

    def obj(self, e):
        """an expression denoting a query object -> (coq term : query, is_optional)"""
        if isinstance(e, ast.Name) and e.id == self.arg:
            return self.arg, False
        if isinstance(e, ast.Attribute) and e.attr in ("query1", "query2"):
            base, opt = self.obj(e.value)
            if opt:
                raise Refuse("attribute of an optional object")
            return (f"(q_query1 {base})", False) if e.attr == "query1" else (f"(q_query2 {base})", True)
        raise Refuse(f"unsupported object expression {ast.dump(e)}")

    def expr(self, e):
        """boolean expression -> coq term : bool (rec is the recursive call with less fuel)"""
        if isinstance(e, ast.Name) and e.id in getattr(self, "locals_", {}):
            return self.locals_[e.id]                      # a local that names a boolean expression (assigned once, inlined)
        if isinstance(e, ast.Constant) and isinstance(e.value, bool):
            return "true" if e.value else "false"
        if isinstance(e, ast.UnaryOp) and isinstance(e.op, ast.Not):
            return f"(negb {self.expr(e.operand)})"
        if isinstance(e, ast.BoolOp):
            op = "andb" if isinstance(e.op, ast.And) else "orb"
            out = self.expr(e.values[-1])
            for v in reversed(e.values[:-1]):
                out = f"({op} {self.expr(v)} {out})"
            return out
        if isinstance(e, ast.Call) and isinstance(e.func, ast.Name) and not e.keywords:
            if e.func.id == "isinstance" and len(e.args) == 2 and isinstance(e.args[1], ast.Name) and e.args[1].id in CLS:
                o, opt = self.obj(e.args[0])
                if opt:
                    raise Refuse("isinstance of an optional object")
                return f"(q_isinst {CLS[e.args[1].id]} {o})"
            if e.func.id == FUNC and len(e.args) == 1:
                o, opt = self.obj(e.args[0])
                if opt:
                    # reached only after an `is None` test on the same attribute (checked by the proof, not here)
                    return f"(match {o} with Some q2 => rec q2 | None => true end)"
                return f"(rec {o})"
        if isinstance(e, ast.Compare) and len(e.ops) == 1:
            l, r, op = e.left, e.comparators[0], e.ops[0]
            if isinstance(op, (ast.Is, ast.IsNot)) and isinstance(r, ast.Constant) and r.value is None:
                if isinstance(l, ast.Attribute) and l.attr == "_hash":
                    o, opt = self.obj(l.value)
                    t = f"(q_hash_is_none {o})"
                elif isinstance(l, ast.Attribute) and l.attr == "query2":
                    o, opt = self.obj(l.value)
                    t = f"(match q_query2 {o} with None => true | Some _ => false end)"
                else:
                    raise Refuse(f"unsupported `is None` operand {ast.dump(l)}")
                return t if isinstance(op, ast.Is) else f"(negb {t})"
            if isinstance(op, (ast.Eq, ast.NotEq)):
                t = None
                if isinstance(l, ast.Attribute) and l.attr == "operator" and isinstance(r, ast.Attribute) and isinstance(r.value, ast.Name) \
                        and r.value.id == "operator" and r.attr in OPS:
                    o, _ = self.obj(l.value)
                    t = f"(opname_eqb (q_operator {o}) {OPS[r.attr]})"
                elif isinstance(l, ast.Attribute) and l.attr == "_point_attr" and isinstance(r, ast.Constant) and r.value in ATTRS:
                    o, _ = self.obj(l.value)
                    t = f"(attr_name_eqb (q_point_attr {o}) {ATTRS[r.value]})"
                if t:
                    return t if isinstance(op, ast.Eq) else f"(negb {t})"
        raise Refuse(f"unsupported expression {ast.dump(e)}")

    def block(self, stmts, rest_term=None):
        """statements -> coq term : bool ; rest_term = what follows the enclosing block (for an `if` that falls through)"""
        if not stmts:
            if rest_term is None:
                raise Refuse("control falls off the end of the function")
            return rest_term
        s, rest = stmts[0], stmts[1:]
        if isinstance(s, ast.Expr) and isinstance(s.value, ast.Constant) and isinstance(s.value.value, str):
            return self.block(rest, rest_term)
        if isinstance(s, ast.Return) and s.value is not None:
            return self.expr(s.value)
        if isinstance(s, ast.Assign) and len(s.targets) == 1 and isinstance(s.targets[0], ast.Name) and s.targets[0].id != self.arg:
            if not hasattr(self, "locals_"):
                self.locals_ = {}
            if s.targets[0].id in self.locals_:
                raise Refuse("a local is assigned twice")
            self.locals_[s.targets[0].id] = self.expr(s.value)
            out = self.block(rest, rest_term)
            del self.locals_[s.targets[0].id]
            return out
        if isinstance(s, ast.If) and not s.orelse:
            after = self.block(rest, rest_term)
            return f"(if {self.expr(s.test)}\n     then {self.block(list(s.body), after)}\n     else {after})"
        raise Refuse(f"unsupported statement {type(s).__name__}")

    def run(self):
        body = self.block(list(self.fn.body))
        return (f"Fixpoint {FUNC} (fuel : nat) ({self.arg} : query) : bool :=\n  match fuel with O => true | S fuel' =>\n"
                f"  let rec := {FUNC} fuel' in\n  {body}\n  end.\n")


HEADER = """(* GENERATED on every run by harness/py2coq_guard.py from tinyflux/database.py (index_is_exact) - do not edit.
   proofs/GuardGenP.v proves it equal, for every query and enough fuel, to the hand model DB.index_is_exact. *)
From Coq Require Import List Bool.
From TF Require Import Base Query QueryObj.
Import ListNotations.

"""


def main():
    src_path, out_path = sys.argv[1], sys.argv[2]
    tree = ast.parse(open(src_path).read())
    fns = {n.name: n for n in tree.body if isinstance(n, ast.FunctionDef)}
    refused = None
    try:
        if FUNC not in fns:
            raise Refuse("function not found")
        text = HEADER + Tr(fns[FUNC]).run()
    except Refuse as r:
        refused = str(r)
        text = HEADER + (f"(* REFUSED by the translator: {_san(refused[:100])} - the hand model stands in *)\nFrom TF Require Import Index DB.\n"
                         f"Definition {FUNC} (fuel : nat) (q : query) : bool := DB.index_is_exact q.\n")
    try:
        old = open(out_path).read()
    except FileNotFoundError:
        old = None
    if old != text:
        open(out_path, "w").write(text)
    if refused:
        print(f"REFUSED {FUNC}: {refused}")
    return 3 if refused else 0


if __name__ == "__main__":
    sys.exit(main())
