"""Neutral representation of points / queries / operations / outputs shared by the
implementation driver and the Coq case emitter.

  point  : dict(time=int microseconds since epoch | None, meas=str, tags={k: str|None}, fields={k: num|None})
  query  : ("S", attr, path, test) | ("noop", attr) | ("and", l, r) | ("or", l, r) | ("not", q)
           attr in time|meas|tags|fields ; path: list of ("k", key) | ("m", map_id)
           test: ("cmp", op, rhs) | ("exists",) | ("match", re, flags) | ("search", re, flags) | ("user", id)
           rhs : ("t", us) | ("s", str) | ("none",) | ("n", number)
  op     : tuples, see OPS below
  out    : canonical Python values, see canon_out
"""
import math
from datetime import datetime, timedelta, timezone

import twins

EPOCH = datetime(1970, 1, 1, tzinfo=timezone.utc)
BAD_TIME = 1 << 80      # marks a returned time that is not an aware UTC datetime


def dt_of(us):
    return EPOCH + timedelta(microseconds=us)


ZONES = [None, timezone(timedelta(hours=5, minutes=30)), timezone(timedelta(hours=-8)), "Europe/London", timezone(timedelta(hours=14))]
# "Europe/London": a tz-database zone whose offset is ZERO in winter without being UTC (arithmetic on such a datetime follows the wall clock)


def _fold_instants():
    """pairs of instants one repeated hour apart whose wall-clock reading in a tz-database zone is THE SAME (fold=0 / fold=1): as Python
    datetimes in that zone the two compare equal and hash alike, although they are different instants"""
    out = {}
    pairs = []
    for zone, (y, mo, d, h, mi) in (("America/New_York", (2021, 11, 7, 5, 30)), ("Europe/London", (2021, 10, 31, 0, 30)), ("Europe/London", (2022, 10, 30, 0, 15))):
        a = (datetime(y, mo, d, h, mi, tzinfo=timezone.utc) - EPOCH) // timedelta(microseconds=1)
        b = a + 3600 * 1000000
        out[a] = out[b] = zone
        pairs.append((a, b))
    return out, pairs


FOLD_ZONE, FOLD_PAIRS = _fold_instants()


def zoned_dt(us):
    """the instant `us` as an aware datetime in a zone chosen by the instant itself (UTC, +05:30, -08:00, +14:00; the instants of FOLD_PAIRS
    in their tz-database zone, where two of them share one wall-clock reading): what a caller hands in; equal instants in different zones
    must behave alike, different instants differently"""
    if us in FOLD_ZONE:
        from zoneinfo import ZoneInfo
        return dt_of(us).astimezone(ZoneInfo(FOLD_ZONE[us]))
    z = ZONES[(us // 1000000) % len(ZONES)]
    d = dt_of(us)
    if isinstance(z, str):
        from zoneinfo import ZoneInfo
        z = ZoneInfo(z)
    return d if z is None else d.astimezone(z)


def us_of(dt):
    if not isinstance(dt, datetime):
        return BAD_TIME + 1
    # "a timezone-aware UTC datetime": the fixed zone UTC, not a zone that merely has offset zero on that day
    if dt.tzinfo is None or dt.utcoffset() != timedelta(0) or not isinstance(dt.tzinfo, timezone):
        return BAD_TIME + ((dt.replace(tzinfo=timezone.utc) - EPOCH) // timedelta(microseconds=1)) % (1 << 60)
    return (dt - EPOCH) // timedelta(microseconds=1)


# ---- numbers ---------------------------------------------------------------------------
def num_parts(x):
    """number -> ('fin', m, e) canonical | ('pinf',) | ('ninf',) | ('nan',)"""
    if isinstance(x, bool):
        x = int(x)
    if isinstance(x, float):
        if math.isnan(x):
            return ("nan",)
        if math.isinf(x):
            return ("pinf",) if x > 0 else ("ninf",)
        n, d = x.as_integer_ratio()
    else:
        n, d = int(x), 1
    e = -(d.bit_length() - 1)
    if n == 0:
        return ("fin", 0, 0)
    while n % 2 == 0:
        n //= 2
        e += 1
    return ("fin", n, e)


def cz(n):
    return f"({n})%Z" if n < 0 else f"{n}%Z"


def cnum(x):
    p = num_parts(x)
    return {"pinf": "NPInf", "ninf": "NNInf", "nan": "NNaN"}.get(p[0]) or f"(NFin {cz(p[1])} {cz(p[2])})"


def cstr(s):
    return "(@nil N)" if not s else "[" + "; ".join(str(ord(c)) for c in s) + "]%N"


def copt(x, f):
    return "None" if x is None else f"(Some {f(x)})"


def clist(xs, f):
    return "[" + "; ".join(f(x) for x in xs) + "]"


def cbool(b):
    return "true" if b else "false"


# ---- points ----------------------------------------------------------------------------
def cpoint(p):
    tags = sorted(p["tags"].items())
    fields = sorted(p["fields"].items())
    return (f"(mkPoint {cz(p['time'] if p['time'] is not None else 0)} {cstr(p['meas'])} "
            f"{clist(tags, lambda kv: f'({cstr(kv[0])}, {copt(kv[1], cstr)})')} "
            f"{clist(fields, lambda kv: f'({cstr(kv[0])}, {copt(kv[1], cnum)})')})")


def real_point(tf, p, share=None):
    """share: a cache of mapping objects; points of one batch whose tags (or fields) are equal are then built from ONE dict
    object, as a caller writing `Point(tags=common)` in a loop does - the database must behave as if each had its own"""
    kw = {}
    if p["time"] is not None:
        kw["time"] = p.get("dt") or zoned_dt(p["time"])
    kw["measurement"] = p["meas"]
    kw["tags"] = dict(p["tags"])
    kw["fields"] = dict(p["fields"])
    if share is not None:
        for slot in ("tags", "fields"):
            try:
                key = (slot, repr(list(kw[slot].items())))
            except Exception:
                continue
            kw[slot] = share.setdefault(key, kw[slot])
    if "time" not in kw:
        # a point WITHOUT a time: only the bare constructor leaves the time unset (any keyword makes the constructor read the clock itself);
        # the database stamps such a point when it is inserted
        pt = tf.Point()
        pt.measurement, pt.tags, pt.fields = kw["measurement"], kw["tags"], kw["fields"]
        return pt
    return tf.Point(**kw)


def canon_point(pt):
    """tinyflux Point -> neutral point (what a caller can observe of it)"""
    return {"time": us_of(pt.time), "meas": pt.measurement if isinstance(pt.measurement, str) else "<bad>",
            "tags": {k: v for k, v in pt.tags.items()}, "fields": {k: v for k, v in pt.fields.items()}}


def point_wellformed(p):
    return (isinstance(p["meas"], str) and all(isinstance(k, str) and (v is None or isinstance(v, str)) for k, v in p["tags"].items())
            and all(isinstance(k, str) and (v is None or (isinstance(v, (int, float)) and not isinstance(v, bool))) for k, v in p["fields"].items()))


# ---- values / queries ------------------------------------------------------------------
ATTR = {"time": "ATime", "meas": "AMeas", "tags": "ATags", "fields": "AFields"}
CMP = {"==": "Ceq", "!=": "Cne", "<": "Clt", "<=": "Cle", ">": "Cgt", ">=": "Cge"}


def cvalue(v):
    k = v[0]
    if k == "t":
        return f"(VTime {cz(v[1])})"
    if k == "s":
        return f"(VStr {cstr(v[1])})"
    if k == "none":
        return "VNone"
    if k == "n":
        return f"(VNum {cnum(v[1])})"
    raise ValueError(v)


def real_value(v):
    k = v[0]
    return {"t": lambda: zoned_dt(v[1]) if len(v) < 3 else v[2], "s": lambda: v[1], "none": lambda: None, "n": lambda: v[1]}[k]()


def cpart(p):
    return f"(PKey {cstr(p[1])})" if p[0] == "k" else f"(PMap {p[1]}%N)"


def ctest(t):
    k = t[0]
    if k == "cmp":
        return f"(TCmp {CMP[t[1]]} {cvalue(t[2])})"
    if k == "exists":
        return "TExists"
    if k == "match":
        return f"(TMatch {t[1]}%N {twins.FLAGS[t[2]]}%N)"
    if k == "search":
        return f"(TSearch {t[1]}%N {twins.FLAGS[t[2]]}%N)"
    if k == "user":
        return f"(TUser {t[1]}%N)"
    raise ValueError(t)


def cquery(q):
    k = q[0]
    if k == "S":
        return f"(QS {ATTR[q[1]]} {clist(q[2], cpart)} {ctest(q[3])})"
    if k == "noop":
        return f"(QNoop {ATTR[q[1]]})"
    if k in ("and", "or"):
        return f"({'QAnd' if k == 'and' else 'QOr'} {cquery(q[1])} {cquery(q[2])})"
    if k == "not":
        return f"(QNot {cquery(q[1])})"
    raise ValueError(q)


def real_query(tf, q, builders=None):
    """builders: a cache of query BUILDER objects (TagQuery(), TagQuery().a, ...) shared by all queries built with it, the way a caller keeps
    `tags = TagQuery()` in a variable and derives many queries from it; deriving a query must not change what an earlier one means"""
    import operator as op
    k = q[0]
    if k == "S":
        cls = {"time": tf.TimeQuery, "meas": tf.MeasurementQuery, "tags": tf.TagQuery, "fields": tf.FieldQuery}[q[1]]
        if builders is None:
            base = cls()
            for part in q[2]:
                base = base[part[1]] if part[0] == "k" else base.map(twins.MAPS[part[1]])
        else:
            key = (q[1],)
            base = builders.get(key)
            if base is None:
                base = builders[key] = cls()
            for part in q[2]:
                key = key + ((part[0], part[1]),)
                nxt = builders.get(key)
                if nxt is None:
                    nxt = builders[key] = base[part[1]] if part[0] == "k" else base.map(twins.MAPS[part[1]])
                base = nxt
        t = q[3]
        if t[0] == "cmp":
            f = {"==": op.eq, "!=": op.ne, "<": op.lt, "<=": op.le, ">": op.gt, ">=": op.ge}[t[1]]
            return f(base, real_value(t[2]))
        if t[0] == "exists":
            return base.exists()
        if t[0] == "match":
            return base.matches(twins.PATTERNS[t[1]], flags=twins.FLAGS[t[2]])
        if t[0] == "search":
            return base.search(twins.PATTERNS[t[1]], flags=twins.FLAGS[t[2]])
        if t[0] == "user":
            fn, args = twins.TESTS[t[1]]
            return base.test(fn, *args)
    if k == "noop":
        base = {"time": tf.TimeQuery, "meas": tf.MeasurementQuery, "tags": tf.TagQuery, "fields": tf.FieldQuery}[q[1]]()
        for key in q[2:]:                    # ("noop", attr, key, ...): noop() called on a builder that already names keys - still "everything"
            base = base[key]
        return base.noop()
    if k == "and":
        return real_query(tf, q[1], builders) & real_query(tf, q[2], builders)
    if k == "or":
        return real_query(tf, q[1], builders) | real_query(tf, q[2], builders)
    if k == "not":
        return ~real_query(tf, q[1], builders)
    raise ValueError(q)


# ---- update arguments ------------------------------------------------------------------
# uarg: None | ("static", value) | ("call", id) ; updspec dict with time/meas/tags/fields/unset_fields/unset_tags
def cuarg(a, f):
    if a is None:
        return "UNone"
    if a[0] == "static":
        return f"(UStatic {f(a[1])})"
    return f"(UCall {a[1]}%N)"


def cupd(u):
    if u is None or u.get("invalid"):
        return "None"
    tags = lambda d: clist(sorted(d.items()), lambda kv: f"({cstr(kv[0])}, {copt(kv[1], cstr)})")
    fields = lambda d: clist(sorted(d.items()), lambda kv: f"({cstr(kv[0])}, {copt(kv[1], cnum)})")
    return (f"(Some (mkUpd {cuarg(u.get('time'), cz)} {cuarg(u.get('meas'), cstr)} {cuarg(u.get('tags'), tags)} "
            f"{cuarg(u.get('fields'), fields)} {clist(u.get('unset_fields', []), cstr)} {clist(u.get('unset_tags', []), cstr)}))")


def real_upd_kwargs(u):
    """-> dict of keyword arguments for TinyFlux.update / update_all"""
    kw = {}
    if u is None:
        return kw
    if u.get("invalid"):
        return dict(u["invalid"])
    tabs = {"time": twins.C_TIME, "meas": twins.C_MEAS, "tags": twins.C_TAGS, "fields": twins.C_FIELDS}
    names = {"time": "time", "meas": "measurement", "tags": "tags", "fields": "fields"}
    for k in ("time", "meas", "tags", "fields"):
        a = u.get(k)
        if a is None:
            continue
        if a[0] == "static":
            if k == "time" and u.get("naive_time"):
                kw["time"] = dt_of(a[1]).astimezone().replace(tzinfo=None)          # documented: a naive datetime means local time
                continue
            kw[names[k]] = (u.get("dt") or zoned_dt(a[1])) if k == "time" else (dict(a[1]) if isinstance(a[1], dict) else a[1])
        else:
            kw[names[k]] = tabs[k][a[1]]
    if u.get("unset_fields"):
        uf = u["unset_fields"]
        kw["unset_fields"] = uf[0] if len(uf) == 1 and u.get("unset_as_str") else list(uf)
        if len(uf) == 2 and not u.get("unset_as_str"):
            kw["unset_fields"] = (k for k in list(uf))          # documented as an iterable of keys: a one-shot generator is one
    if u.get("unset_tags"):
        ut = u["unset_tags"]
        kw["unset_tags"] = ut[0] if len(ut) == 1 and u.get("unset_as_str") else tuple(ut)
        if len(ut) == 2 and not u.get("unset_as_str"):
            kw["unset_tags"] = iter(tuple(ut))
    return kw


# ---- select keys -----------------------------------------------------------------------
def cselkeys(ks):
    """the raw key strings: the MODEL parses them (DB.parse_selkeys); None = the legacy marker of an invalid key list"""
    if ks is None:
        return "None"
    return f"(parse_selkeys {clist(ks, cstr)})"


def selkey_valid(k):
    return isinstance(k, str) and (k in ("time", "measurement") or (k.startswith("tags.") and len(k) > 5) or (k.startswith("fields.") and len(k) > 7))


# ---- operations ------------------------------------------------------------------------
def cpoints_opt(ps):
    return clist(ps, lambda p: "None" if p is None else f"(Some {cpoint(p)})")


def cmeas(m):
    return copt(m, cstr)


def chop(h):
    k = h[0]
    if k == "len":
        return "HLen"
    if k == "iter":
        return "HIter"
    if k == "all":
        return f"(HAll {cbool(h[1])})"
    if k in ("contains", "count", "get"):
        return f"({'H' + k.capitalize()} {cquery(h[1])})"
    if k == "search":
        return f"(HSearch {cquery(h[1])} {cbool(h[2])})"
    if k == "select":
        return f"(HSelect {cselkeys(h[1])} {cquery(h[2])})"
    if k == "get_field_keys":
        return "HGetFieldKeys"
    if k == "get_field_values":
        return f"(HGetFieldValues {cstr(h[1])})"
    if k == "get_tag_keys":
        return "HGetTagKeys"
    if k == "get_tag_values":
        return f"(HGetTagValues {clist(h[1], cstr)})"
    if k == "get_timestamps":
        return "HGetTimestamps"
    if k == "insert":
        return f"(HInsert {cpoints_opt(h[1])})"
    if k == "remove":
        return f"(HRemove {cquery(h[1])})"
    if k == "remove_all":
        return "HRemoveAll"
    if k == "update":
        return f"(HUpdate {cquery(h[1])} {cupd(h[2])})"
    if k == "update_all":
        return f"(HUpdateAll {cupd(h[1])})"
    raise ValueError(h)


def cop(o):
    k = o[0]
    if k == "insert":
        return f"(Insert {cpoints_opt(o[1])} {cmeas(o[2])})"
    if k == "remove":
        return f"(Remove {cquery(o[1])} {cmeas(o[2])})"
    if k == "drop":
        return f"(DropMeas {cstr(o[1])})"
    if k == "remove_all":
        return "RemoveAll"
    if k == "update":
        return f"(Update {cquery(o[1])} {cupd(o[2])} {cmeas(o[3])})"
    if k == "update_all":
        return f"(UpdateAll {cupd(o[1])})"
    if k == "search":
        return f"(Search {cquery(o[1])} {cmeas(o[2])} {cbool(o[3])})"
    if k in ("count", "contains", "get"):
        return f"({k.capitalize()} {cquery(o[1])} {cmeas(o[2])})"
    if k == "select":
        return f"(Select {cselkeys(o[1])} {cquery(o[2])} {cmeas(o[3])})"
    if k == "all":
        return f"(All {cbool(o[1])})"
    if k == "len":
        return "Len"
    if k in ("iter", "file"):
        return "Iter"                 # "file": the rows an independent reader decodes from the database file
    if k == "get_measurements":
        return "GetMeasurements"
    if k == "get_tag_keys":
        return f"(GetTagKeys {cmeas(o[1])})"
    if k == "get_tag_values":
        return f"(GetTagValues {clist(o[1], cstr)} {cmeas(o[2])})"
    if k == "get_field_keys":
        return f"(GetFieldKeys {cmeas(o[1])})"
    if k == "get_field_values":
        return f"(GetFieldValues {cstr(o[1])} {cmeas(o[2])})"
    if k == "get_timestamps":
        return f"(GetTimestamps {cmeas(o[1])})"
    if k == "reindex":
        return "Reindex"
    if k == "reopen":
        return f"(Reopen {cbool(o[1])})"
    if k == "index_valid":
        return "IndexValid"
    if k == "handle":
        return f"(Handle {cstr(o[1])} {chop(o[2])})"
    raise ValueError(o)


# ---- outputs ---------------------------------------------------------------------------
# canonical out: ("points", [point]) ("point", point|None) ("nat", n) ("bool", b) ("sel", [[value]])
#                ("strs", [str]) ("tagvals", [(k, [str|None])]) ("nums", [num|None]) ("times", [us]) ("unit",) ("raise", name)
def cval_any(x):
    if x is None:
        return "VNone"
    if isinstance(x, dict) and "__us__" in x:
        return f"(VTime {cz(x['__us__'])})"
    if isinstance(x, datetime):
        return f"(VTime {cz(us_of(x))})"
    if isinstance(x, str):
        return f"(VStr {cstr(x)})"
    if isinstance(x, (int, float)):
        return f"(VNum {cnum(x)})"
    return "(VOther 999%N)"


def cout(o):
    k = o[0]
    if k == "points":
        return f"(OPoints {clist(o[1], cpoint)})"
    if k == "point":
        return f"(OPoint {copt(o[1], cpoint)})"
    if k == "nat":
        return f"(ONat {o[1]})"
    if k == "bool":
        return f"(OBool {cbool(o[1])})"
    if k == "sel":
        return f"(OSel {clist(o[1], lambda row: clist(row, cval_any))})"
    if k == "strs":
        return f"(OStrs {clist(o[1], cstr)})"
    if k == "tagvals":
        return f"(OTagVals {clist(o[1], lambda kv: f'({cstr(kv[0])}, {clist(kv[1], lambda v: copt(v, cstr))})')})"
    if k == "nums":
        return f"(ONums {clist(o[1], lambda v: copt(v, cnum))})"
    if k == "times":
        return f"(OTimes {clist(o[1], cz)})"
    if k == "unit":
        return "OUnit"
    if k == "raise":
        return "ORaise"
    raise ValueError(o)
