#!/usr/bin/env python3
"""Fail-closed translator: tinyflux/database.py (the GETTERS of class TinyFlux: __len__, get_measurements, get_field_keys, get_tag_keys,
get_field_values, get_timestamps, get_tag_values) -> coq/gen/DbGetGen.v

The compiler of harness/py2coq_index.py, with another `self`: the database object as the pair of its stored rows and its index object (DbSem.v:
`pydb`), the index object's methods being the ones COMPILED from index.py (gen/IndexGen.v).  Each getter has two paths - answered by the index
when it is valid, by a scan of storage otherwise - and both are translated: `self._index.valid`, `self._index.get_x(..)`, `len(self._index)`
become calls of the compiled index methods; `for item in self._storage` iterates the rows; `_deserialize_measurement / _storage_item /
_timestamp` read a row.  The `read_op` decorator (re-index when automatic indexing is on and the index is not valid) is checked to be the
decorator of every getter but __len__ and applied in the theorems as DbSem.db_prelude (its own translation is harness/py2coq_read.py's).
proofs/DbGetGenP.v proves every compiled getter, decorator included, equal to the SPECIFICATION on the stored rows - on both paths - in every
state in which a valid index describes the rows.

Anything outside the fragment: REFUSED (exit 3), the last verified translation (harness/DbGetGen.fallback.v) stands in.
Usage: py2coq_dbget.py <path/to/tinyflux> <out.v>
"""
import ast
import os
import sys

sys.path.insert(0, os.path.dirname(os.path.abspath(__file__)))
import py2coq_index as PI  # noqa: E402
from py2coq_index import Refuse, U, INT, STR, BOOL, TIME, POINT, UNK, L, D  # noqa: E402

FALLBACK_FILE = os.path.join(os.path.dirname(os.path.abspath(__file__)), "DbGetGen.fallback.v")
ROW = ("row",)
INDEX_GETTERS = {"get_measurements": ("sset",), "get_field_keys": ("sset",), "get_tag_keys": ("sset",), "get_timestamps": L(TIME),
                 "get_field_values": L(UNK), "get_tag_values": D(("sset",))}
# (name, Coq result type, kind of the result, decorators)
GETTERS = [("__len__", "nat", INT, []), ("__iter__", "list point", L(POINT), []), ("all", "list point", L(POINT), ["read_op"]), ("get_measurements", "list str", L(STR), ["read_op"]), ("get_field_keys", "list str", L(STR), ["read_op"]),
           ("get_tag_keys", "list str", L(STR), ["read_op"]), ("get_field_values", "list (option num)", L(UNK), ["read_op"]),
           ("get_timestamps", "list Z", L(TIME), ["read_op"]), ("get_tag_values", "list (str * list (option str))", D(L(UNK)), ["read_op"])]


def is_self_attr(e, *chain):
    """e is self.<chain[0]>.<chain[1]>..."""
    for a in reversed(chain):
        if not (isinstance(e, ast.Attribute) and e.attr == a):
            return False
        e = e.value
    return isinstance(e, ast.Name) and e.id == "self"


class DbCompiler(PI.Compiler):
    def __init__(self, cls):
        self.fns = {n.name: n for n in cls.body if isinstance(n, ast.FunctionDef)}
        self.sigs = {}

    def path(self, e, env):
        if is_self_attr(e, "_auto_index"):
            return "(db_auto self)", BOOL, (lambda nv: (_ for _ in ()).throw(Refuse("a getter assigns self._auto_index"))), "self._auto_index"
        if isinstance(e, ast.Attribute) and isinstance(e.value, ast.Name) and e.value.id == "self":
            raise Refuse(f"attribute `{U(e)}` of the database object")
        return super().path(e, env)

    def ex(self, e, env):
        if is_self_attr(e, "_index", "valid"):
            return "(IndexGen.gen_valid (db_index self))", BOOL
        if is_self_attr(e, "_auto_index"):
            return "(db_auto self)", BOOL
        if isinstance(e, ast.Set) and len(e.elts) == 1:
            a = self.ex(e.elts[0], env)
            return f"[{a[0]}]", ("sset",)
        if isinstance(e, ast.Call):
            f = e.func
            if isinstance(f, ast.Attribute) and is_self_attr(f.value, "_index") and f.attr in INDEX_GETTERS and not e.keywords:
                args = []
                for a in e.args:
                    if isinstance(a, ast.Name) and env.kinds.get(a.id) == ("ostr",):
                        args.append(a.id)            # an Optional[str] handed on as it is
                    else:
                        args.append(self.ex(a, env)[0])
                return f"(IndexGen.gen_{f.attr} (db_index self){''.join(' ' + x for x in args)})", INDEX_GETTERS[f.attr]
            if isinstance(f, ast.Attribute) and f.attr == "read" and is_self_attr(f.value, "_storage") and not e.args and not e.keywords:
                return "(db_rows self)", L(POINT)          # Storage.read(): every stored point, in storage order, as a new list
            if isinstance(f, ast.Name) and f.id == "len" and len(e.args) == 1 and not e.keywords:
                if is_self_attr(e.args[0], "_index"):
                    return "(IndexGen.gen___len__ (db_index self))", INT
                if is_self_attr(e.args[0], "_storage"):
                    return "(length (db_rows self))", INT
            if isinstance(f, ast.Attribute) and is_self_attr(f.value, "_storage") and len(e.args) == 1 and not e.keywords \
                    and isinstance(e.args[0], ast.Name) and env.kinds.get(e.args[0].id) == ROW:
                item = e.args[0].id
                if f.attr == "_deserialize_measurement":
                    return f"(p_meas {item})", STR
                if f.attr == "_deserialize_storage_item":
                    return item, POINT
                if f.attr == "_deserialize_timestamp":
                    return f"(p_time {item})", TIME
            if isinstance(f, ast.Attribute) and f.attr == "replace" and not e.args and [U(k) for k in e.keywords] == ["tzinfo=timezone.utc"]:
                a = self.ex(f.value, env)
                if a[1] == TIME:
                    return a          # instants are carried in UTC: putting the zone on a naive UTC reading changes nothing
            if U(f) == "datetime.fromtimestamp" and len(e.args) == 2 and U(e.args[1]) == "timezone.utc" and not e.keywords:
                a = self.ex(e.args[0], env)
                if a[1] == TIME:
                    return a          # a stamp and the instant it stands for are one value (Stamp.v / C08)
            if isinstance(f, ast.Name) and f.id == "sorted" and len(e.args) == 1:
                a = self.ex(e.args[0], env)
                if not e.keywords and a[1] in (("sset",), ("eset",)):
                    return f"(sort_dedup {a[0]})", L(STR)
                if [U(k) for k in e.keywords] == ["key=lambda x: (x is None, x)"] and (a[1] in (("sset",), ("eset",), UNK) or a[1][0] == "list"):
                    return f"(sort_none_last {a[0]})", L(UNK)
            if isinstance(f, ast.Attribute) and f.attr == "union" and len(e.args) == 1 and not e.keywords:
                a, b = self.ex(f.value, env), self.ex(e.args[0], env)
                if a[1] in (("sset",), ("eset",), UNK) and b[1] == ("sset",):
                    return f"(set_union_s {a[0]} {b[0]})", ("sset",)
        return super().ex(e, env)

    def blk(self, stmts, env, final, in_loop=False):
        stmts2 = PI.strip(stmts)
        if stmts2:
            st = stmts2[0]
            if isinstance(st, ast.Assign) and len(st.targets) == 1 and isinstance(st.targets[0], ast.Name) and U(st.value) == "self._storage.read()":
                n = st.targets[0].id
                kinds = dict(env.kinds)
                kinds[n] = L(POINT)
                return f"let {n} := (db_rows self) in\n  {self.blk(stmts2[1:], env.copy(kinds=kinds, fresh=env.fresh | {n}), final, in_loop)}"
            if isinstance(st, ast.Expr) and isinstance(st.value, ast.Call) and isinstance(st.value.func, ast.Attribute) and st.value.func.attr == "sort" \
                    and isinstance(st.value.func.value, ast.Name) and st.value.func.value.id in env.fresh and env.kinds.get(st.value.func.value.id) == L(POINT) \
                    and not st.value.args and [U(k) for k in st.value.keywords] == ["key=lambda x: (x is None, x.time)"]:
                n = st.value.func.value.id
                return f"let {n} := (sort_points {n}) in\n  {self.blk(stmts2[1:], env, final, in_loop)}"          # a stable sort by time (stored points carry one)
        return super().blk(stmts, env, final, in_loop)

    def cond(self, e, env):
        if isinstance(e, ast.Compare) and len(e.ops) == 1 and isinstance(e.ops[0], (ast.In, ast.NotIn)):
            bt, bk = self.ex(e.comparators[0], env)
            if bk in (("sset",), ("eset",)):
                at, _ = self.ex(e.left, env)
                r = f"(set_mem {at} {bt})"
                return r if isinstance(e.ops[0], ast.In) else f"(negb {r})"
        if isinstance(e, ast.Compare) and len(e.ops) == 1 and isinstance(e.ops[0], (ast.Eq, ast.NotEq)):
            # a string against the (truthy) measurement argument, or two strings
            at, ak = self.ex(e.left, env)
            bt, bk = self.ex(e.comparators[0], env)
            if STR in (ak, bk) and ak in (STR, UNK) and bk in (STR, UNK):
                r = f"(pyeq {at} {bt})"
                return r if isinstance(e.ops[0], ast.Eq) else f"(negb {r})"
        return super().cond(e, env)

    def iterable(self, it, target, env, loop=False):
        if is_self_attr(it, "_storage") and isinstance(target, ast.Name):
            env2 = env.copy(kinds=dict(env.kinds), alias=dict(env.alias), stale=env.stale - {target.id}, fresh=env.fresh - {target.id})
            env2.kinds[target.id] = ROW
            return "(db_rows self)", target.id, env2
        return super().iterable(it, target, env, loop)

    def method(self, name, getter, decorators):
        fn = self.fns.get(name)
        if fn is None:
            raise Refuse(f"method `{name}` not found")
        if [U(d) for d in fn.decorator_list] != decorators:
            raise Refuse(f"`{name}`: decorators {[U(d) for d in fn.decorator_list]}, expected {decorators}")
        fn2 = ast.FunctionDef(name=fn.name, args=fn.args, body=fn.body, decorator_list=[], returns=fn.returns, lineno=fn.lineno)
        self.fns[name] = fn2
        try:
            text = super().method(name, getter)
        finally:
            self.fns[name] = fn
        return text.replace(f"Definition gen_{name} (self : pyindex)", f"Definition gen_db_{name} (self : pydb)")


class MeasCompiler(DbCompiler):
    """methods of class Measurement (measurement.py): `self._db` is the database object, `self._name` / `self.name` the handle's measurement name"""

    @staticmethod
    def rewrite(fn):
        class R(ast.NodeTransformer):
            def visit_Attribute(self, n):
                self.generic_visit(n)
                if isinstance(n.value, ast.Name) and n.value.id == "self" and n.attr == "_db":
                    return ast.copy_location(ast.Name(id="self", ctx=ast.Load()), n)
                if isinstance(n.value, ast.Name) and n.value.id == "self" and n.attr in ("_name", "name"):
                    return ast.copy_location(ast.Name(id="name", ctx=ast.Load()), n)
                return n
        fn2 = R().visit(ast.parse(ast.unparse(fn)).body[0])
        fn2.args.args.append(ast.arg(arg="name", annotation=ast.Name(id="str", ctx=ast.Load())))
        return ast.fix_missing_locations(fn2)

    def __init__(self, cls):
        self.fns = {n.name: self.rewrite(n) for n in cls.body if isinstance(n, ast.FunctionDef) and n.name in ("__len__", "__iter__")}
        self.sigs = {}

    def is_pathlike(self, e):
        x = e
        while isinstance(x, ast.Subscript):
            x = x.value
        return is_self_attr(x, "_index", "_measurements") or super().is_pathlike(e)

    def ex(self, e, env):
        if is_self_attr(e, "_index", "_measurements"):
            return "(_measurements (db_index self))", D(L(INT))
        return super().ex(e, env)

    def path(self, e, env):
        if is_self_attr(e, "_index", "_measurements"):
            return "(_measurements (db_index self))", D(L(INT)), (lambda nv: (_ for _ in ()).throw(Refuse("a getter assigns the index's maps"))), "self._index._measurements"
        return super().path(e, env)

    def method(self, name, getter, decorators):
        return super().method(name, getter, decorators).replace(f"Definition gen_db_{name} ", f"Definition gen_meas_{name} ")


HEADER = """(* GENERATED on every run by harness/py2coq_dbget.py from tinyflux/database.py (the getters of class TinyFlux) - do not edit.
   proofs/DbGetGenP.v proves them, with the read_op decorator, equal to the specification on the stored rows on both paths. *)
From Coq Require Import List ZArith Bool Arith.
From TF Require Import Base Query Index DB IndexSem DbSem.
From TF Require gen.IndexGen.
Import ListNotations.

"""


def main():
    pkg, out_path = sys.argv[1], sys.argv[2]
    refused = None
    try:
        tree = ast.parse(open(os.path.join(pkg, "database.py")).read())
        cls = [n for n in tree.body if isinstance(n, ast.ClassDef) and n.name == "TinyFlux"]
        if len(cls) != 1:
            raise Refuse("class TinyFlux not found")
        c = DbCompiler(cls[0])
        text = HEADER + "Definition refused : bool := false.\n\n" + "".join(c.method(n, (t, k), d) for n, t, k, d in GETTERS)
        mtree = ast.parse(open(os.path.join(pkg, "measurement.py")).read())
        mcls = [n for n in mtree.body if isinstance(n, ast.ClassDef) and n.name == "Measurement"]
        if len(mcls) != 1:
            raise Refuse("class Measurement not found")
        text += "(* class Measurement (measurement.py): self._db is the database object, self._name the handle's name *)\n" + MeasCompiler(mcls[0]).method("__len__", ("nat", INT), []) + \
            MeasCompiler(mcls[0]).method("__iter__", ("list point", L(POINT)), [])
    except (Refuse, SyntaxError, OSError, RecursionError) as r:
        refused = str(r)
        snap = open(FALLBACK_FILE).read().replace("Definition refused : bool := false.", "Definition refused : bool := true.")
        text = "(* REFUSED by the translator: " + refused[:140].replace("*", "x").replace("(", "[").replace(")", "]").replace('"', "'") + \
               " - the last verified translation (harness/DbGetGen.fallback.v) stands in *)\n" + snap
    try:
        old = open(out_path).read()
    except FileNotFoundError:
        old = None
    if old != text:
        open(out_path, "w").write(text)
    if refused:
        print(f"REFUSED database getters: {refused}")
    return 3 if refused else 0


if __name__ == "__main__":
    sys.exit(main())
