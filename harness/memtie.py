"""memtie.py - differential validation of the translation of class MemoryStorage (harness/py2coq_memstore.py -> gen/MemStoreGen.v) against the class itself.

Random sequences of method calls - append (stored / staged), reset, _write, _init_temp_storage, _swap_temp_with_primary, _cleanup_temp_storage, in ANY
order, not only the database's protocol - are run on a real tinyflux.storages.MemoryStorage and on the generated functions inside Coq.  After every call
are compared: the list under `_memory`, the list under `_temp_memory`, whether the two names are bound to ONE list object, len(), iteration and read().
Part of C02's check; skipped (and said so) when the translation was refused."""
import random
from datetime import datetime, timedelta, timezone

from common import *  # noqa

T0 = datetime(2021, 1, 1, tzinfo=timezone.utc)


def sequences(seed, n):
    rng = random.Random(seed * 7919 + 11)
    out = []
    for k in range(n):
        ops, nxt = [], 1
        for _ in range(rng.randrange(4, 14)):
            c = rng.random()
            if c < 0.45:
                m = rng.randrange(0, 4)
                ops.append(("append", list(range(nxt, nxt + m)), rng.random() < 0.5))
                nxt += m
            elif c < 0.55:
                ops.append(("reset",))
            elif c < 0.65:
                m = rng.randrange(0, 3)
                ops.append(("_write", list(range(nxt, nxt + m))))
                nxt += m
            elif c < 0.77:
                ops.append(("_init_temp_storage",))
            elif c < 0.9:
                ops.append(("_swap_temp_with_primary",))
            else:
                ops.append(("_cleanup_temp_storage",))
        if k % 3 == 0:
            # the database's own protocol, complete and abandoned
            ops += [("_init_temp_storage",), ("append", [nxt], True), ("append", [nxt + 1, nxt + 2], True)] + \
                   ([("_swap_temp_with_primary",)] if k % 2 == 0 else []) + [("_cleanup_temp_storage",), ("append", [nxt + 3], False)]
        out.append(ops)
    return out


def run_impl(tf, ops):
    st = tf.storages.MemoryStorage()
    pts = {}

    def pt(i):
        if i not in pts:
            pts[i] = tf.Point(time=T0 + timedelta(seconds=i), measurement="m")
        return pts[i]
    ident = lambda l: [int((p.time - T0).total_seconds()) for p in l]
    obs = []
    for op in [("new",)] + list(ops):
        if op[0] == "append":
            st.append([pt(i) for i in op[1]], temporary=op[2])
        elif op[0] == "_write":
            st._write([pt(i) for i in op[1]])
        elif op[0] != "new":
            getattr(st, op[0])()
        obs.append((ident(st._memory), ident(st._temp_memory), st._memory is st._temp_memory, len(st), ident(list(iter(st))), ident(st.read())))
    return obs


def cz(l):
    return "[" + "; ".join(str(i) for i in l) + "]%Z"


def check(ck, tf, refused):
    if any("memory storage" in r for r in refused):
        return {"translator_memory_storage_validation": "skipped: the translation was refused, the last verified translation stands in"}
    seqs = sequences(ck.seed, 60 if ck.tier == "quick" else 600)
    lines = ["From Coq Require Import List ZArith NArith Bool.", "From TF Require Import Base Query MemSem gen.MemStoreGen.", "Import ListNotations.",
             "Inductive op := OAppend (l : list Z) (t : bool) | OReset | OWrite (l : list Z) | OInit | OSwap | OCleanup.",
             "Definition pt (i : Z) : point := mkPoint i [109%N] [] [].",
             "Definition step (s : pymem) (o : op) : pymem := match o with OAppend l t => gen_append s (map pt l) t | OReset => gen_reset s | OWrite l => gen__write s (map pt l)",
             "  | OInit => gen__init_temp_storage s | OSwap => gen__swap_temp_with_primary s | OCleanup => gen__cleanup_temp_storage s end.",
             "Definition obs (s : pymem) := (map p_time (m_read AMem s), map p_time (m_read ATmp s), m_shared s, gen___len__ s, map p_time (gen___iter__ s), map p_time (gen_read s)).",
             "Fixpoint zl_eqb (a b : list Z) : bool := match a, b with [], [] => true | x :: a', y :: b' => Z.eqb x y && zl_eqb a' b' | _, _ => false end.",
             "Definition same (s : pymem) (e : list Z * list Z * bool * nat * list Z * list Z) : bool :=",
             "  match obs s, e with (a1, a2, a3, a4, a5, a6), (b1, b2, b3, b4, b5, b6) => zl_eqb a1 b1 && zl_eqb a2 b2 && Bool.eqb a3 b3 && Nat.eqb a4 b4 && zl_eqb a5 b5 && zl_eqb a6 b6 end.",
             "Fixpoint run (s : pymem) (os : list (op * (list Z * list Z * bool * nat * list Z * list Z))) : bool :=",
             "  match os with [] => true | (o, e) :: r => let s' := step s o in same s' e && run s' r end.",
             "Definition case_ok (e0 : list Z * list Z * bool * nat * list Z * list Z) os : bool := same gen___init__ e0 && run gen___init__ os.",
             "Definition results : list bool := ["]
    calls, rows = 0, []
    kinds = {}
    for ops in seqs:
        ob = run_impl(tf, ops)

        def ce(o):
            return f"({cz(o[0])}, {cz(o[1])}, {'true' if o[2] else 'false'}, {o[3]}%nat, {cz(o[4])}, {cz(o[5])})"

        def cop(op):
            kinds[op[0]] = kinds.get(op[0], 0) + 1
            if op[0] == "append":
                return f"OAppend {cz(op[1])} {'true' if op[2] else 'false'}"
            if op[0] == "_write":
                return f"OWrite {cz(op[1])}"
            return {"reset": "OReset", "_init_temp_storage": "OInit", "_swap_temp_with_primary": "OSwap", "_cleanup_temp_storage": "OCleanup"}[op[0]]
        rows.append(f"case_ok {ce(ob[0])} [" + "; ".join(f"({cop(op)}, {ce(o)})" for op, o in zip(ops, ob[1:])) + "]")
        calls += len(ops)
    lines.append(";\n".join(rows))
    lines.append("].\nEval vm_compute in map (fun b : bool => if b then 1 else 0) results.")
    f = ck.work / "cases_memstore.v"
    f.write_text("\n".join(lines) + "\n")
    rc, out = coqc_file(f, timeout=600)
    nums = parse_nat_list(out) if rc == 0 else None
    if nums is None:
        ck.violation({"kind": "model-evaluation-failed", "what_no_longer_checks": "cases_memstore.v (the functions generated from class MemoryStorage, run on the call sequences the class ran)",
                      "log": out[-800:]}, no_input=True)
        return {"translator_memory_storage_validation": "model evaluation failed"}
    bad = [i for i, v in enumerate(nums) if v != 1]
    if bad:
        ops = seqs[bad[0]]
        ck.violation({"kind": "correspondence-broken", "what_no_longer_checks": "gen/MemStoreGen.v (translated from class MemoryStorage; theorems C02_source_memory_storage_*) vs the class itself",
                      "calls": [list(o) for o in ops], "class_after_every_call (_memory, _temp_memory, same object, len, iteration, read)": [list(o) for o in run_impl(tf, ops)],
                      "disagreeing_sequences": len(bad)}, no_input=True)
    return {"translator_memory_storage_validation": {"sequences": len(seqs), "calls": calls, "agree": len(seqs) - len(bad), "calls_by_method": kinds,
                                                     "compared_after_every_call": "_memory, _temp_memory, whether they are one list object, len(), iteration, read()"}}
