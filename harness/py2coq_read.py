#!/usr/bin/env python3
"""Fail-closed translator: tinyflux/database.py (read_op, TinyFlux.reindex, TinyFlux.contains / count / get / search) -> coq/gen/ReadGen.v

What a query-driven read answers is decided by a few lines: is the index asked (it is valid and answers this query exactly)?  with which
query (the measurement argument folded in)?  what if it names no position, or every position?  and then by ONE storage loop - a scan that
filters by measurement and evaluates the query, or a walk that takes the rows the index named without evaluating anything.  The translator
executes each function body symbolically (straight-line code, if / else with early returns, reassignment of `use_index`) and recognises
each storage loop structurally by what its body does (source, measurement filter, candidate filter, guard, action):

    gen_read_prelude s           : state   the read_op decorator + reindex (automatic re-indexing before a read)
    gen_contains / gen_count / gen_get s q m, gen_search s q m srt : out

proofs/ReadGenP.v proves each equal to the model's db_contains / db_count / db_get / db_search for every state, query and argument.
Skeleton checked literally and not translated: the access-mode gate, the isinstance test on the query argument, the statements that
"put a timezone on" the result (a no-op: the value of `.replace` is dropped), the `j == len(items)` early exit of the candidate walk.
Anything outside the fragment: REFUSED (exit 3), the last verified translation (harness/ReadGen.fallback.v) stands in.
Usage: py2coq_read.py <path/to/tinyflux> <out.v>
"""
import ast
import os
import sys

FALLBACK_FILE = os.path.join(os.path.dirname(os.path.abspath(__file__)), "ReadGen.fallback.v")


class Refuse(Exception):
    pass


def U(n):
    return ast.unparse(n)


def strip(body):
    return [s for s in body if not (isinstance(s, ast.Expr) and isinstance(s.value, ast.Constant) and isinstance(s.value.value, str))]


VALIDATION = "if not isinstance(query, (SimpleQuery, CompoundQuery)):\n    raise ValueError('query must be a TinyFlux Query.')"
TZ_LIST = "for fp in found_points:\n    if not fp.time:\n        raise ValueError\n    fp.time.replace(tzinfo=timezone.utc)"
TZ_ONE = "if got_point:\n    if not got_point.time:\n        raise ValueError\n    got_point.time.replace(tzinfo=timezone.utc)"
SORT = "found_points.sort(key=lambda x: (x.time is None, x.time))"
GATE = "if not self._storage.can_read:\n    raise AssertionError"
DESER = "self._storage._deserialize_storage_item(item)"
MEAS_FILTERS = ("measurement and self._storage._deserialize_measurement(item) != measurement",
                "measurement and (not self._storage._deserialize_measurement(item) == measurement)")
ACC_INIT = {"count = 0": ("count", "nat", "0"), "contains = False": ("contains", "bool", "false"), "got_point = None": ("got_point", "opoint", "None"),
            "found_points: List[Point] = []": ("found_points", "points", "[]"), "found_points = []": ("found_points", "points", "[]"), "j = 0": ("j", "counter", "0")}
WRAP = {"nat": "ONat", "bool": "OBool", "opoint": "OPoint", "points": "OPoints"}


class Fn:
    def __init__(self, fn):
        self.fn = fn
        names = [a.arg for a in fn.args.args]
        want = ["self", "query", "measurement"] + (["sorted"] if fn.name == "search" else [])
        if names != want or fn.args.vararg or fn.args.kwarg or fn.args.kwonlyargs:
            raise Refuse(f"{fn.name}: unexpected signature {names}")
        if [U(d) for d in fn.decorator_list] != ["read_op"]:
            raise Refuse(f"{fn.name}: expected exactly the decorator @read_op")

    # ---- expressions ------------------------------------------------------------------------------------------------
    def cond(self, e, env):
        s = U(e)
        if s == "use_index":
            if env.get("use_index") is None:
                raise Refuse("use_index read before it is assigned")
            return env["use_index"]
        atoms = {"self._index.valid": "(ix_valid (st_idx s))", "index_is_exact(query)": "(index_is_exact q)", "sorted": "srt", "measurement": "(m_truthy m)",
                 "True": "true", "False": "false"}
        if s in atoms:
            if s == "sorted" and self.fn.name != "search":
                raise Refuse("`sorted` outside search")
            return atoms[s]
        if s in ("not index_rst._items", "len(index_rst._items) == 0"):
            return f"(negb (nonempty {self.items(env)}))"
        if s in ("len(index_rst._items) == len(self._index)", "len(self._index) == len(index_rst._items)"):
            return f"(Nat.eqb (length {self.items(env)}) (index_len s))"
        if isinstance(e, ast.UnaryOp) and isinstance(e.op, ast.Not):
            return f"(negb {self.cond(e.operand, env)})"
        if isinstance(e, ast.BoolOp):
            op = "andb" if isinstance(e.op, ast.And) else "orb"
            out = self.cond(e.values[-1], env)
            for v in reversed(e.values[:-1]):
                out = f"({op} {self.cond(v, env)} {out})"
            return out
        raise Refuse(f"{self.fn.name}: unsupported condition `{s}`")

    def items(self, env):
        if not env.get("items"):
            raise Refuse(f"{self.fn.name}: index_rst read where it is not assigned")
        return "items"

    def query_expr(self, e, local):
        s = U(e)
        if s == "query":
            return "q"
        if s in local:
            return local[s]
        if s == "MeasurementQuery() == measurement":
            return "(meas_query m)"
        if isinstance(e, ast.BinOp) and isinstance(e.op, (ast.BitAnd, ast.BitOr)):
            c = "QAnd" if isinstance(e.op, ast.BitAnd) else "QOr"
            return f"({c} {self.query_expr(e.left, local)} {self.query_expr(e.right, local)})"
        raise Refuse(f"{self.fn.name}: unsupported query expression `{s}`")

    def search_assign(self, stmts):
        """straight-line statements that end up assigning index_rst = self._index.search(<query expr>) -> coq term : option (list nat)"""
        local, out = {}, None
        for st in strip(stmts):
            if isinstance(st, ast.Assign) and len(st.targets) == 1 and isinstance(st.targets[0], ast.Name):
                name = st.targets[0].id
                v = st.value
                if name == "index_rst" and isinstance(v, ast.Call) and U(v.func) == "self._index.search" and len(v.args) == 1 and not v.keywords:
                    out = f"(index_items E s {self.query_expr(v.args[0], local)})"
                    continue
                if name not in ("index_rst", "use_index", "query", "measurement"):
                    local[name] = self.query_expr(v, local)
                    continue
            raise Refuse(f"{self.fn.name}: unsupported statement before the index search `{U(st)[:60]}`")
        if out is None:
            raise Refuse(f"{self.fn.name}: the branch does not assign index_rst")
        return out

    def is_search_if(self, st):
        def assigns(b):
            return any(isinstance(x, ast.Assign) and U(x.targets[0]) == "index_rst" for x in b)
        return isinstance(st, ast.If) and st.orelse and assigns(st.body) and assigns(st.orelse)

    # ---- loops ------------------------------------------------------------------------------------------------------
    def loop(self, st, rest, env):
        """one storage loop (and, for the candidate walk, the counter statements of its early exit) -> coq term : out, continuing with rest"""
        tgt, it = U(st.target), U(st.iter)
        if st.orelse:
            raise Refuse("for ... else")
        if (tgt, it) == ("item", "self._storage"):
            enum = False
        elif (tgt, it) == ("(i, item)", "enumerate(self._storage)"):
            enum = True
        else:
            raise Refuse(f"{self.fn.name}: unsupported loop `for {tgt} in {it}`")
        body = strip(st.body)
        mf = cand = False
        if body and isinstance(body[0], ast.If) and not body[0].orelse and U(body[0].test) in MEAS_FILTERS and [U(x) for x in body[0].body] == ["continue"]:
            mf, body = True, body[1:]
        if enum and body and U(body[0]) == "if i not in index_rst._items:\n    continue":
            self.items(env)
            cand, body = True, body[1:]
        alias = None
        if body and U(body[0]) == f"_point = {DESER}":
            alias, body = "_point", body[1:]
        if not body:
            raise Refuse(f"{self.fn.name}: a loop without an action")
        P = (alias, DESER) if alias else (DESER,)
        guard = False
        act = body
        if isinstance(body[0], ast.If) and not body[0].orelse and U(body[0].test) in [f"query({p})" for p in P]:
            if len(body) != 1:
                raise Refuse(f"{self.fn.name}: statements after the guarded action of a loop")
            guard, act = True, strip(body[0].body)
        a = [U(x) for x in act]
        kind = None
        if a == ["count += 1"]:
            kind, acc = "count", "count"
        elif a == ["contains = True", "break"]:
            kind, acc = "first_bool", "contains"
        elif len(a) == 2 and a[1] == "break" and a[0] in [f"got_point = {p}" for p in P]:
            kind, acc = "first_point", "got_point"
        elif a and a[0] in [f"found_points.append({p})" for p in P]:
            kind, acc = "all", "found_points"
            tail = a[1:]
            if tail and not (tail == ["j += 1", "if j == len(index_rst._items):\n    break"] and cand and not guard and env["acc"].get("j") == ("counter", "0")):
                raise Refuse(f"{self.fn.name}: unsupported statements after append in a loop: {tail}")
        else:
            raise Refuse(f"{self.fn.name}: unsupported loop action {a}")
        if acc not in env["acc"] or env["acc"][acc][1] not in ("0", "false", "None", "[]"):
            raise Refuse(f"{self.fn.name}: the loop accumulates into `{acc}`, which is not freshly initialised")
        env = dict(env, acc=dict(env["acc"]))
        ty = env["acc"][acc][0]
        mm = "m" if mf else "None"
        if not enum and not cand and guard:
            if kind in ("count", "all"):
                val = "(length l)" if kind == "count" else "l"
                env["acc"][acc] = (ty, val)
                return f"(match loop_scan_all E q {mm} s with None => ORaise | Some l => {self.block(rest, env)} end)"
            val = "(match o with Some _ => true | None => false end)" if kind == "first_bool" else "o"
            env["acc"][acc] = (ty, val)
            return f"(match loop_scan_first E q {mm} s with None => ORaise | Some o => {self.block(rest, env)} end)"
        if enum and cand and not guard and not mf and kind in ("first_point", "all"):
            env["acc"][acc] = (ty, f"(loop_pick_first items s)" if kind == "first_point" else "(loop_pick_all items s)")
            return self.block(rest, env)
        raise Refuse(f"{self.fn.name}: unsupported loop shape (enumerate={enum}, measurement filter={mf}, candidate filter={cand}, query evaluated={guard}, action={kind})")

    # ---- statements -------------------------------------------------------------------------------------------------
    def ret(self, e, env):
        s = U(e) if e is not None else "None"
        if s in env["acc"] and env["acc"][s][0] in WRAP:
            ty, v = env["acc"][s]
            return f"({WRAP[ty]} {v})"
        if s == "[]" and self.fn.name == "search":
            return "(OPoints [])"
        if s == "None" and self.fn.name == "get":
            return "(OPoint None)"
        if s == "len(index_rst._items)" and self.fn.name == "count":
            return f"(ONat (length {self.items(env)}))"
        if s in ("len(index_rst._items) > 0", "bool(index_rst._items)") and self.fn.name == "contains":
            return f"(OBool (nonempty {self.items(env)}))"
        if s in ("True", "False") and self.fn.name == "contains":
            return f"(OBool {s.lower()})"
        raise Refuse(f"{self.fn.name}: unsupported return value `{s}`")

    def block(self, stmts, env):
        stmts = strip(stmts)
        if not stmts:
            raise Refuse(f"{self.fn.name}: control falls off the end")
        st, rest = stmts[0], stmts[1:]
        s = U(st)
        if s in (VALIDATION, TZ_LIST, TZ_ONE):
            return self.block(rest, env)
        if isinstance(st, ast.Return):
            return self.ret(st.value, env)
        if s in ACC_INIT:
            name, ty, init = ACC_INIT[s]
            return self.block(rest, dict(env, acc=dict(env["acc"], **{name: (ty, init)})))
        if s == SORT:
            ty, v = env["acc"].get("found_points", (None, None))
            if ty != "points":
                raise Refuse("sort of an unknown list")
            return self.block(rest, dict(env, acc=dict(env["acc"], found_points=(ty, f"(sort_by_time {v})"))))
        if isinstance(st, ast.Assign) and U(st.targets[0]) == "use_index" and len(st.targets) == 1:
            return self.block(rest, dict(env, use_index=self.cond(st.value, env)))
        if self.is_search_if(st):
            e = f"(if {self.cond(st.test, env)} then {self.search_assign(st.body)} else {self.search_assign(st.orelse)})"
            return f"(match {e} with None => ORaise | Some items => {self.block(rest, dict(env, items=True))} end)"
        if isinstance(st, ast.Assign) and U(st.targets[0]) == "index_rst":
            return f"(match {self.search_assign([st])} with None => ORaise | Some items => {self.block(rest, dict(env, items=True))} end)"
        if isinstance(st, ast.For):
            return self.loop(st, rest, env)
        if isinstance(st, ast.If):
            c = self.cond(st.test, env)
            on_flag = U(st.test) == "use_index"
            if c == "true":
                return self.block(list(st.body) + rest, env)
            if c == "false":
                return self.block(list(st.orelse) + rest, env)
            t = self.block(list(st.body) + rest, dict(env, use_index="true") if on_flag else env)
            f = self.block(list(st.orelse) + rest, dict(env, use_index="false") if on_flag else env)
            return f"(if {c}\n     then {t}\n     else {f})"
        raise Refuse(f"{self.fn.name}: unsupported statement `{s[:70]}`")

    def run(self):
        return self.block(list(self.fn.body), {"use_index": None, "items": False, "acc": {}})


def prelude(tree, fns):
    ro = [n for n in tree.body if isinstance(n, ast.FunctionDef) and n.name == "read_op"]
    if len(ro) != 1:
        raise Refuse("read_op not found")
    body = strip(ro[0].body)
    if len(body) != 2 or not isinstance(body[0], ast.FunctionDef) or U(body[1]) != "return op" or [U(d) for d in body[0].decorator_list] != ["wraps(method)"]:
        raise Refuse("read_op: unexpected shape")
    op = strip(body[0].body)
    if len(op) != 3 or U(op[0]) != GATE or U(op[2]) != "return method(self, *args, **kwargs)":
        raise Refuse("read_op: expected the access gate, the re-index statement and the call of the method")
    ri = op[1]
    if not (isinstance(ri, ast.If) and not ri.orelse and [U(x) for x in ri.body] == ["self.reindex()"]):
        raise Refuse("read_op: unexpected re-index statement")
    atoms = {"self._auto_index": "(st_auto s)", "self._index.valid": "(ix_valid (st_idx s))"}

    def cond(e):
        if U(e) in atoms:
            return atoms[U(e)]
        if isinstance(e, ast.UnaryOp) and isinstance(e.op, ast.Not):
            return f"(negb {cond(e.operand)})"
        if isinstance(e, ast.BoolOp):
            o = "andb" if isinstance(e.op, ast.And) else "orb"
            out = cond(e.values[-1])
            for v in reversed(e.values[:-1]):
                out = f"({o} {cond(v)} {out})"
            return out
        raise Refuse(f"read_op: unsupported condition `{U(e)}`")
    c = cond(ri.test)
    rx = fns.get("reindex")
    if rx is None or rx.decorator_list:
        raise Refuse("reindex not found (or decorated)")
    rb = strip(rx.body)
    want_build = "self._index.build((self._storage._deserialize_storage_item(i) for i in self._storage))"
    if len(rb) != 4 or U(rb[0]) != GATE or U(rb[2]) != want_build or U(rb[3]) != "return":
        raise Refuse("reindex: unexpected shape")
    v = rb[1]
    if not (isinstance(v, ast.If) and not v.orelse and len(v.body) == 2 and U(v.body[0]).startswith("print(") and U(v.body[1]) == "return"):
        raise Refuse("reindex: unexpected early return")
    return (f"Definition gen_reindex (s : state) : state :=\n  (if {cond(v.test)} then s else rebuild s).\n\n"
            f"Definition gen_read_prelude (s : state) : state :=\n  (if {c} then gen_reindex s else s).\n\n")


def main():
    pkg, out_path = sys.argv[1], sys.argv[2]
    refused = None
    try:
        tree = ast.parse(open(os.path.join(pkg, "database.py")).read())
        cls = [n for n in tree.body if isinstance(n, ast.ClassDef) and n.name == "TinyFlux"]
        if len(cls) != 1:
            raise Refuse("class TinyFlux not found")
        fns = {n.name: n for n in cls[0].body if isinstance(n, ast.FunctionDef)}
        itree = ast.parse(open(os.path.join(pkg, "index.py")).read())
        icls = [n for n in itree.body if isinstance(n, ast.ClassDef) and n.name == "Index"]
        ilen = [n for n in (icls[0].body if icls else []) if isinstance(n, ast.FunctionDef) and n.name == "__len__"]
        if len(ilen) != 1 or [U(x) for x in strip(ilen[0].body)] != ["return self._num_items"]:
            raise Refuse("Index.__len__ is not `return self._num_items`")
        text = HEADER + "Definition refused : bool := false.\n\n" + prelude(tree, fns) + "Section Gen.\nVariable E : env.\n\n"
        for name in ("contains", "count", "get", "search"):
            if name not in fns:
                raise Refuse(f"{name} not found")
            sig = "(s : state) (q : query) (m : option str)" + (" (srt : bool)" if name == "search" else "")
            text += f"Definition gen_{name} {sig} : out :=\n  {Fn(fns[name]).run()}.\n\n"
        text += "End Gen.\n"
    except (Refuse, SyntaxError, OSError) as r:
        refused = str(r)
        snap = open(FALLBACK_FILE).read().replace("Definition refused : bool := false.", "Definition refused : bool := true.")
        text = "(* REFUSED by the translator: " + refused[:140].replace("*", "x").replace("(", "[").replace(")", "]").replace('"', "'") + \
               " - the last verified translation (harness/ReadGen.fallback.v) stands in *)\n" + snap
    try:
        old = open(out_path).read()
    except FileNotFoundError:
        old = None
    if old != text:
        open(out_path, "w").write(text)
    if refused:
        print(f"REFUSED read path: {refused}")
    return 3 if refused else 0


HEADER = """(* GENERATED on every run by harness/py2coq_read.py from tinyflux/database.py (read_op, TinyFlux.reindex, contains / count / get / search) - do not edit.
   proofs/ReadGenP.v proves each equal to the model's db_contains / db_count / db_get / db_search. *)
From Coq Require Import List ZArith Bool Arith.
From TF Require Import Base Query Index DB InsertSem ReadSem.
Import ListNotations.

"""

if __name__ == "__main__":
    sys.exit(main())
