"""C16: insert is append-only and its I/O cost does not depend on database size."""
import json
import random

from common import *  # noqa
import dbgen
import dbmodel as M
import iotie

# model label numbers (iotie.COQ_HEAD `lab`) that change nothing: PFileno, PTruncate (at end of file)
NOEFFECT = {3, 5}


def labels_of(events):
    """real calls of an insert -> model label numbers; unknown calls get 99 (so that they break the tie)"""
    out = []
    for _, target, call, detail in events:
        if target == "P":
            if call == "seek":
                out.append(0 if detail and len(detail) > 1 and detail[1] == 2 else 6)
            else:
                out.append({"write": 1, "flush": 2, "fileno": 3, "truncate": 5, "next": 7, "read": 7, "readline": 7, "close": 9, "open": 10,
                            "tell": 3}.get(call, 99))
        elif target == "os" and call == "fsync":
            out.append(4)
        else:
            out.append(99)
    return out


def is_read_call(ev):
    _, target, call, detail = ev
    if target != "P":
        return target.startswith("X:") or target in ("T", "copy")       # any other file being opened/created counts too
    if call in ("next", "read", "readline"):
        return True
    return call == "seek" and not (detail and len(detail) > 1 and detail[1] == 2)


def main(tier, seed):
    ck = Check("C16", tier, seed)
    tf = use_impl()
    rng = random.Random(seed)
    refused = []
    # the storage's I/O calls are regenerated from storages.py (symbolic execution) and proved equal to the model's scripts (proofs/IOGenP.v)
    b = ck.build_proofs("Prop_C16", pre=lambda: run_translator("py2coq_io.py", "tinyflux/storages.py", "gen/IOGen.v", refused), extra_targets=["Run.vo", "IO.vo"])
    sizes = [0, 1, 10, 100] if tier == "quick" else [0, 1, 2, 10, 100, 1000, 3000]
    cases, direct_bad, per_point, coq_cases = [], [], {}, []
    ci = 0
    for size in sizes:
        for auto in (True, False):
            for order in ("in", "out"):
                for pre in (None, "get", "contains", "len", "ooo", "remove", "update", "reopen", "reopen_get"):
                    for npts in (1, 3):
                        if tier == "quick" and size >= 100 and (pre == "len" or (npts == 3 and order == "out")):
                            continue
                        if pre in ("remove", "update") and size == 0:
                            continue
                        amode = "w+" if (ci % 3 == 2) else None
                        g = dbgen.Gen((seed << 12) + ci, {"p_selective": 1.0})
                        g.ids = 1
                        pts = g.points_batch(size, in_order=True) if size else []
                        hist = [("insert", pts, None, "multiple")] if pts else []
                        one = ("S", "tags", [("k", "id")], ("cmp", "==", ("s", "1")))
                        if pre == "get":
                            hist.append(("get", one, None))                 # stops at the first row: file position left mid-file
                        elif pre == "contains":
                            hist.append(("contains", one, None))
                        elif pre == "len":
                            hist.append(("len",))
                        elif pre == "ooo":
                            hist.append(("insert", [g.point(dbgen.T0 - 50 * dbgen.SEC)], None))      # leaves the index invalid
                        elif pre == "remove":
                            hist.append(("remove", one, None))                                         # rewrite: the handle is reopened at offset 0
                        elif pre == "reopen":
                            hist.append(("reopen", auto))                   # a populated file opened afresh: the first insert of the session
                        elif pre == "reopen_get":
                            hist += [("reopen", auto), ("get", one, None)]
                        elif pre == "update":
                            hist.append(("update", one, {"tags": ("static", {"u": "x"})}, None))
                        t_last = max([p["time"] for p in pts], default=dbgen.T0)
                        new = []
                        for j in range(npts):
                            p = g.point(t_last + (j + 1) * dbgen.SEC if order == "in" else dbgen.T0 - (j + 1) * dbgen.SEC)
                            p["tags"]["c"] = rng.choice(["x,y", "q\"uote", "line\r\nbreak", "é", "plain"])
                            if pre in ("ooo", "reopen", None) and order == "in" and (ci % 2 == 0):
                                p["time"] = None          # a point without a time: the database stamps it - by reading the clock, not the file
                            new.append(p)
                        op = ("insert", new, None, "multiple") if npts > 1 else ("insert", new, None)
                        rec = iotie.recorded_run(tf, str(ck.work / f"rec{ci}"), hist, op, auto, storage_kwargs={"access_mode": amode} if amode else None)
                        ci += 1
                        ev = rec["events"]
                        labs = labels_of(ev)
                        cases.append(dict(size=size, auto=auto, order=order, pre=pre, n=npts, calls=len(ev), access_mode=amode or "r+"))
                        key = (auto, order, npts)
                        per_point.setdefault(key, {})[size] = len(ev)
                        bb, ab = rec["before_bytes"] or b"", rec["after_bytes"] or b""
                        why = None
                        if rec["out"] != ("nat", npts):
                            why = f"insert returned {rec['out']}"
                        elif not (ab.startswith(bb) and len(ab) > len(bb)):
                            why = "the previous file content is not a byte-for-byte proper prefix of the new content"
                        elif any(is_read_call(e) for e in ev):
                            why = "insert read existing data / touched another file: " + str([f"{e[1]}.{e[2]}{e[3] or ''}" for e in ev if is_read_call(e)][:4])
                        elif rec["after"] is None or not iotie.same_points(rec["after"], (rec["before"] or []) + new):
                            why = "the file does not decode to the old contents followed by the inserted points"
                        if why and len(direct_bad) < 4:
                            direct_bad.append({"kind": "failing-input", "why": why, "database_size": size, "auto_index": auto, "order": order,
                                               "preceding_operation": pre, "access_mode": amode or "r+", "points_inserted": new, "calls": [f"{e[1]}.{e[2]}" for e in ev],
                                               "history": hist if size <= 10 else f"insert_multiple of {size} in-order points" + (f", then {pre}" if pre else ""),
                                               "op": op})
                        if size <= 10 and pre not in ("remove", "update"):
                            coq_cases.append((auto, hist, op, [l for l in labs if l not in NOEFFECT], rec["after"] or []))
    # (f) MILESTONE sizes: the insert that brings the database to 2**k items (256 ... 4096) and the one after it, in a live session and as the first
    # insert after a reopen - housekeeping that wakes up "every time the size has doubled" reads the file exactly there
    milestone_runs = 0
    for size in (255, 511, 1023, 2047, 4095):
        for pre in (None, "reopen"):
            g = dbgen.Gen((seed << 12) + 900000 + size, {"p_selective": 1.0})
            g.ids = 1
            pts = g.points_batch(size, in_order=True)
            hist = [("insert", pts, None, "multiple")] + ([("reopen", True)] if pre else [])
            t_last = max(p["time"] for p in pts)
            for step in (1, 2):
                newp = g.point(t_last + step * dbgen.SEC)
                op = ("insert", [newp], None)
                rec = iotie.recorded_run(tf, str(ck.work / f"mrec{milestone_runs}"), hist, op, True)
                milestone_runs += 1
                ev = rec["events"]
                bb, ab = rec["before_bytes"] or b"", rec["after_bytes"] or b""
                small = per_point.get((True, "in", 1), {}).get(10)
                why = None
                if rec["out"] != ("nat", 1):
                    why = f"insert returned {rec['out']}"
                elif not (ab.startswith(bb) and len(ab) > len(bb)):
                    why = "the previous file content is not a byte-for-byte proper prefix of the new content"
                elif any(is_read_call(e) for e in ev):
                    why = "insert read existing data / touched another file: " + str([f"{e[1]}.{e[2]}{e[3] or ''}" for e in ev if is_read_call(e)][:4])
                elif pre is None and small is not None and len(ev) != small:
                    why = f"the insert made {len(ev)} I/O calls where the same insert into a database of 10 points makes {small}"
                if why and len(direct_bad) < 4:
                    direct_bad.append({"kind": "failing-input", "why": why, "database_size": size + step - 1, "auto_index": True, "order": "in", "preceding_operation": pre,
                                       "history": f"insert_multiple of {size} in-order points" + (", then reopen" if pre else "") + (", then one more in-order insert" if step == 2 else ""),
                                       "op": op, "calls": [f"{e[1]}.{e[2]}" for e in ev][:40], "number_of_calls": len(ev)})
                hist = hist + [op]
    # inserts that RAISE part-way (a non-Point inside insert_multiple; a lone non-Point): whatever the call does about the points it had
    # already stored, the file only grows - the previous content stays a byte-for-byte prefix - and no existing data is read
    raising_runs = 0
    for pre in (None, "remove", "update", "reopen", "get", "remove_then_read"):
        for auto in (True, False):
            for size in (0, 6):
                if size == 0 and pre:
                    continue
                g = dbgen.Gen(seed + 7000 + raising_runs, {})
                g.ids = 1
                pts = g.points_batch(size, in_order=True) if size else []
                hist = [("insert", pts, None, "multiple")] if pts else []
                one = ("S", "tags", [("k", "id")], ("cmp", "==", ("s", "1")))
                if pre in ("remove", "remove_then_read"):
                    hist.append(("remove", one, None))
                if pre == "remove_then_read":
                    hist.append(("count", one, None))
                if pre == "update":
                    hist.append(("update", one, {"tags": ("static", {"u": "x"})}, None))
                if pre == "reopen":
                    hist.append(("reopen", auto))
                if pre == "get":
                    hist.append(("get", one, None))
                t_last = max([p["time"] for p in pts], default=dbgen.T0)
                good = [g.point(t_last + (j + 1) * dbgen.SEC) for j in range(3)]
                for bad_at in (1, 2, 0):
                    batch = list(good)
                    batch.insert(bad_at, None)
                    op = ("insert", batch, None, "multiple")
                    rec = iotie.recorded_run(tf, str(ck.work / f"rrec{raising_runs}"), hist, op, auto)
                    raising_runs += 1
                    bb, ab = rec["before_bytes"] or b"", rec["after_bytes"] or b""
                    ev = rec["events"]
                    why = None
                    if rec["out"][0] != "raise":
                        why = f"insert_multiple with a non-Point inside returned {rec['out']}"
                    elif not ab.startswith(bb):
                        why = "an insert that raised part-way left a file of which the previous content is not a byte-for-byte prefix"
                    elif any(is_read_call(e) for e in ev):
                        why = "insert read existing data / touched another file: " + str([f"{e[1]}.{e[2]}{e[3] or ''}" for e in ev if is_read_call(e)][:4])
                    if why and len(direct_bad) < 4:
                        direct_bad.append({"kind": "failing-input", "why": why, "database_size": size, "auto_index": auto, "preceding_operation": pre, "history": hist, "op": op,
                                           "bytes_before": len(bb), "bytes_after": len(ab), "calls": [f"{e[1]}.{e[2]}" for e in ev]})
    # (a) an insert made while a STARTED, unexhausted iteration over the same database is alive (it = iter(db); next(it)): still append-only,
    # nothing read, the same calls at every size; (b) insert_multiple fed by a GENERATOR that queries the database between its points (a get
    # that stops at the first match leaves the file position in the middle of a file larger than one I/O buffer)
    live_calls = {}
    for size in (20, 400):
        for auto in (True, False):
            g = dbgen.Gen(seed + 9000 + size, {})
            g.ids = 1
            pts = g.points_batch(size, in_order=True)
            for p in pts:
                p["tags"]["pad"] = "x" * 30
            hist = [("insert", pts, None, "multiple")]
            t_last = max(p["time"] for p in pts)
            newp = g.point(t_last + dbgen.SEC)

            def start_iter(s):
                it = iter(s.driver.db)
                return [it, next(it), next(it)]
            rec = iotie.recorded_run(tf, str(ck.work / f"live{size}{int(auto)}"), hist, ("insert", [newp], None), auto, pre_hook=start_iter)
            raising_runs += 1
            bb, ab, ev = rec["before_bytes"] or b"", rec["after_bytes"] or b"", rec["events"]
            live_calls.setdefault(auto, {})[size] = len(ev)
            why = None
            if rec["out"] != ("nat", 1):
                why = f"insert returned {rec['out']}"
            elif not (ab.startswith(bb) and len(ab) > len(bb)):
                why = "with a started iteration alive, the previous file content is not a byte-for-byte proper prefix of the new content"
            elif any(is_read_call(e) for e in ev):
                why = "with a started iteration alive, insert read existing data: " + str([f"{e[1]}.{e[2]}{e[3] or ''}" for e in ev if is_read_call(e)][:4])
            if why and len(direct_bad) < 4:
                direct_bad.append({"kind": "failing-input", "why": why, "database_size": size, "auto_index": auto, "state": "it = iter(db); next(it); next(it) - kept referenced",
                                   "op": ("insert", [newp], None), "calls": [f"{e[1]}.{e[2]}" for e in ev][:40]})
            # (b)
            news = [g.point(t_last + (j + 2) * dbgen.SEC) for j in range(3)]
            one = M.real_query(tf, ("S", "tags", [("k", "id")], ("cmp", "==", ("s", "1"))), {})

            def fed_by_generator(s, _news=news, _one=one):
                def gen():
                    for p in _news:
                        s.driver.db.get(_one)              # stops at the first stored row that matches
                        yield M.real_point(tf, p)
                return s.driver.db.insert_multiple(gen())
            rec = iotie.recorded_run(tf, str(ck.work / f"gen{size}{int(auto)}"), hist, None, auto, do_op=fed_by_generator)
            raising_runs += 1
            bb, ab = rec["before_bytes"] or b"", rec["after_bytes"] or b""
            why = None
            if rec["out"] != ("nat", 3):
                why = f"insert_multiple(<generator>) returned {rec['out']}"
            elif not (ab.startswith(bb) and len(ab) > len(bb)):
                why = "insert_multiple fed by a generator that reads the database between its points: the previous file content is not a byte-for-byte prefix of the new content"
            elif rec["after"] is None or not iotie.same_points(rec["after"], (rec["before"] or []) + news):
                why = "insert_multiple fed by a generator that reads the database between its points: the file does not decode to the old contents followed by the new points"
            if why and len(direct_bad) < 4:
                direct_bad.append({"kind": "failing-input", "why": why, "database_size": size, "auto_index": auto, "bytes_before": len(bb), "bytes_after": len(ab),
                                   "op": "db.insert_multiple(p for p in points, with db.get(TagQuery().id == '1') evaluated before each point is yielded)", "points_inserted": news})
    # (c) an insert through a Measurement HANDLE that was obtained before the measurement was emptied and obtained again (an older and a newer
    # handle object for one name), with the index unable to answer a length; (d) an insert whose fsync FAILS: whatever the library then does,
    # it reads no existing data and makes the same calls at every size
    handle_calls, fsync_calls = {}, {}
    for size in (30, 500):
        for auto in (False, True):
            g = dbgen.Gen(seed + 9500 + size, {})
            g.ids = 1
            pts = g.points_batch(size, in_order=True)
            for j, p in enumerate(pts):
                p["meas"] = "keep" if j % 3 else "m1"
            hist = [("insert", pts, None, "multiple")]
            newp = g.point(max(p["time"] for p in pts) + dbgen.SEC)

            def two_handles(s):
                db = s.driver.db
                old_h = db.measurement("m1")
                old_h.remove_all()
                new_h = db.measurement("m1")
                new_h.insert(M.real_point(tf, g.point(max(p["time"] for p in pts) - 5)))       # out of order: the index cannot answer len any more
                return [old_h, new_h]
            held = {}

            def via_old_handle(s, _held=held):
                return _held["h"][0].insert(M.real_point(tf, newp))

            def pre(s, _held=held):
                _held["h"] = two_handles(s)
                return _held["h"]
            rec = iotie.recorded_run(tf, str(ck.work / f"hnd{size}{int(auto)}"), hist, None, auto, pre_hook=pre, do_op=via_old_handle)
            raising_runs += 1
            bb, ab, ev = rec["before_bytes"] or b"", rec["after_bytes"] or b"", rec["events"]
            handle_calls.setdefault(auto, {})[size] = len(ev)
            why = None
            if rec["out"][0] == "raise":
                why = f"insert through a handle raised {rec['out']}"
            elif not (ab.startswith(bb) and len(ab) > len(bb)):
                why = "insert through an older handle object: the previous file content is not a byte-for-byte proper prefix of the new content"
            elif any(is_read_call(e) for e in ev):
                why = "insert through an older handle object read existing data: " + str([f"{e[1]}.{e[2]}{e[3] or ''}" for e in ev if is_read_call(e)][:4])
            if why and len(direct_bad) < 4:
                direct_bad.append({"kind": "failing-input", "why": why, "database_size": size, "auto_index": auto,
                                   "state": "h1 = db.measurement('m1'); h1.remove_all(); h2 = db.measurement('m1'); h2.insert(<an earlier point>); then h1.insert(point)",
                                   "calls": [f"{e[1]}.{e[2]}" for e in ev][:40]})
            # (d)
            def failing_fsync(s):
                real = s.st.os.fsync
                state = {"n": 0}

                def once(fd):
                    state["n"] += 1
                    if state["n"] == 1:
                        raise OSError(5, "injected: fsync failed")
                    return real(fd)
                s.st.os.fsync = once
                try:
                    return s.driver.db.insert(M.real_point(tf, newp))
                finally:
                    s.st.os.fsync = real
            rec = iotie.recorded_run(tf, str(ck.work / f"fsy{size}{int(auto)}"), hist, None, auto, do_op=failing_fsync)
            raising_runs += 1
            ev = rec["events"]
            fsync_calls.setdefault(auto, {})[size] = len(ev)
            why = None
            bb, ab = rec["before_bytes"] or b"", rec["after_bytes"] or b""
            if not ab.startswith(bb):
                why = "an insert whose fsync failed left a file of which the previous content is not a byte-for-byte prefix"
            elif any(is_read_call(e) for e in ev):
                why = "an insert whose fsync failed read existing data: " + str([f"{e[1]}.{e[2]}{e[3] or ''}" for e in ev if is_read_call(e)][:4])
            if why and len(direct_bad) < 4:
                direct_bad.append({"kind": "failing-input", "why": why, "database_size": size, "auto_index": auto, "outcome": rec["out"], "calls": [f"{e[1]}.{e[2]}" for e in ev][:40]})
    # (e) the file has GROWN behind this object's back - a second TinyFlux object on the same file (another session of the same user) appended rows
    # and was closed - and then this object inserts: still append-only, no existing data read, the same calls however many rows arrived
    foreign_calls = {}
    for grown in (3, 50, 600):
        for auto in (True, False):
            g = dbgen.Gen(seed + 9700 + grown, {})
            g.ids = 1
            pts = g.points_batch(5, in_order=True)
            hist = [("insert", pts, None, "multiple"), ("count", ("noop", "tags"), None)]
            t_last = max(p["time"] for p in pts)
            arrived = [g.point(t_last + (j + 1) * dbgen.SEC) for j in range(grown)]
            newp = g.point(t_last + (grown + 5) * dbgen.SEC)

            def foreign(s, _arrived=arrived):
                other = tf.TinyFlux(s.path, auto_index=False)
                other.insert_multiple([M.real_point(tf, p) for p in _arrived])
                other.close()
                return None
            rec = iotie.recorded_run(tf, str(ck.work / f"frn{grown}{int(auto)}"), hist, ("insert", [newp], None), auto, pre_hook=foreign)
            raising_runs += 1
            bb, ab, ev = rec["before_bytes"] or b"", rec["after_bytes"] or b"", rec["events"]
            foreign_calls.setdefault(auto, {})[grown] = len(ev)
            why = None
            if rec["out"] != ("nat", 1):
                why = f"insert returned {rec['out']}"
            elif not (ab.startswith(bb) and len(ab) > len(bb)):
                why = "after another object appended to the file, the previous file content is not a byte-for-byte proper prefix of the new content"
            elif any(is_read_call(e) for e in ev):
                why = "after another object appended to the file, insert read existing data: " + str([f"{e[1]}.{e[2]}{e[3] or ''}" for e in ev if is_read_call(e)][:4])
            if why and len(direct_bad) < 4:
                direct_bad.append({"kind": "failing-input", "why": why, "rows_appended_by_another_object": grown, "auto_index": auto,
                                   "state": "db holds 5 points and has answered a count; other = TinyFlux(same path); other.insert_multiple(rows); other.close(); then db.insert(point)",
                                   "calls": [f"{e[1]}.{e[2]}" for e in ev][:40]})
    for auto, dct in foreign_calls.items():
        if len(set(dct.values())) > 1 and len(direct_bad) < 4:
            direct_bad.append({"kind": "failing-input", "why": "the number of I/O calls of an insert depends on how many rows another object appended to the file before it",
                               "auto_index": auto, "calls_by_rows_appended": dct})
    for label, table in (("through an older handle object", handle_calls), ("whose fsync fails", fsync_calls)):
        for auto, dct in table.items():
            if len(set(dct.values())) > 1 and len(direct_bad) < 4:
                direct_bad.append({"kind": "failing-input", "why": f"the number of I/O calls of an insert {label} depends on how many points are stored", "auto_index": auto, "calls_by_database_size": dct})
    for auto, dct in live_calls.items():
        if len(set(dct.values())) > 1 and len(direct_bad) < 4:
            direct_bad.append({"kind": "failing-input", "why": "with a started iteration alive, the number of I/O calls of an insert depends on how many points are stored",
                               "auto_index": auto, "calls_by_database_size": dct})
    # the number of calls must not depend on the size
    for key, d in per_point.items():
        if len(set(d.values())) > 1 and len(direct_bad) < 4:
            direct_bad.append({"kind": "failing-input", "why": "the number of I/O calls of an insert depends on how many points are stored",
                               "auto_index": key[0], "order": key[1], "points_inserted": key[2], "calls_by_database_size": d})
    # tie: the recorded calls are the model's script (labels, no-effect calls dropped on both sides); the file is the model's disk
    f = ck.work / "cases_c16.v"
    lines = [iotie.COQ_HEAD,
             "Definition noeff (n : nat) : bool := Nat.eqb n 3 || Nat.eqb n 5.",
             "Definition ok (auto : bool) (hist : list op) (o : op) (labs : list nat) (after : list point) : bool :=",
             "  list_eqb Nat.eqb (filter (fun n => negb (noeff n)) (map lab (the_script auto hist o))) labs",
             "  && rows_eqb (w_disk (final_world auto hist o)) after.",
             "Definition results : list bool := ["]
    lines.append(";\n".join(f"ok {M.cbool(a)} {M.clist(h, M.cop)} {M.cop(o)} {M.clist(l, str)} {M.clist(after, M.cpoint)}"
                            for a, h, o, l, after in coq_cases))
    lines.append("].\nEval vm_compute in map (fun b : bool => if b then 1 else 0) results.")
    f.write_text("\n".join(lines) + "\n")
    rc, out = coqc_file(f, timeout=1200)
    nums = parse_nat_list(out) if rc == 0 else None
    if not b["ok"]:
        ck.violation({"kind": "proof-broken", "what_no_longer_checks": f"Prop_C16.v {b['theorems']}", "log": b["log"][-1500:],
                      "forbidden": b["forbidden"]}, no_input=True)
    if direct_bad:
        ck.violation(dict(direct_bad[0], more=direct_bad[1:]))
    elif nums is None:
        ck.violation({"kind": "model-evaluation-failed", "what_no_longer_checks": "cases_c16.v", "log": out[-800:]}, no_input=True)
    elif 0 in nums:
        i = nums.index(0)
        a, h, o, l, after = coq_cases[i]
        ck.violation({"kind": "correspondence-broken",
                      "what_no_longer_checks": "I/O-script correspondence: IO.v script of an insert (theorems C16_*) vs the calls recorded on the implementation",
                      "history": h, "op": o, "auto_index": a, "recorded_labels_without_noeffect_calls": l}, no_input=True)
    ck.cov = {
        "translator": dict(IO_TRANSLATOR_COV, refused=refused),
        "obligations": b["obligations"], "discharged": b["discharged"],
        "checker_cmd": "make -C /verif/coq Prop_C16.vo IO.vo Run.vo; Print Assumptions per theorem; scripts evaluated with vm_compute",
        "trusted_base": TRUSTED_BASE_COMMON + [
            "hand model IO.v (script of an insert: seek-end, write, flush, fileno, fsync, truncate per row) and DB.v, tied by correspondence",
            "run-time proxies harness/ioproxy.py on open/NamedTemporaryFile/shutil/os inside tinyflux.storages",
            "Print Assumptions: " + json.dumps(b["assumptions"])],
        "theorems": b["theorems"], "forbidden_tokens_found": b["forbidden"],
        "evaluations": len(cases) + raising_runs, "inserts_raising_part_way": raising_runs, "distinct_nontrivial": len({json.dumps(c, sort_keys=True) for c in cases if c["size"] > 0}),
        "milestone_size_inserts_recorded": milestone_runs, "rule": "one insert / insert_multiple(3) recorded through the proxies at database sizes " + str(sizes) + " x auto_index on/off x in-order/out-of-order "
                "x after an early-terminating get/contains or len; checked directly: byte prefix, no read-type call and no other file touched, same number "
                "of calls at every size, file decodes to old + new; non-trivial = the database is non-empty before the insert",
        "calls_by_configuration_and_size": {str(k): v for k, v in per_point.items()},
        "traces_validated_against_impl": sum(nums) if nums else 0, "model_cases": len(coq_cases),
        "samples": cases[:3],
    }
    return ck.finish(level="proof", extra_assumptions=["I/O calls are those made through the names open/NamedTemporaryFile/shutil/os in tinyflux.storages"])
