"""Correspondence for the csv model (Csv.v) against the standard library's csv module."""
import csv
import io
import random

from common import *  # noqa
import dbmodel as M

ALPHA = [",", '"', "\r", "\n", "\x00", "_", "t", "f", "a", " ", ";", "'", "\t", "é", "\U0001F600", "|", "0", "-", "."]
DIALECTS = [dict(), dict(delimiter=";"), dict(delimiter="\t"), dict(quotechar="'"), dict(quoting=csv.QUOTE_ALL),
            dict(delimiter="|", quotechar="'", quoting=csv.QUOTE_ALL)]


def cdialect(kw):
    return f"(mkDialect {ord(kw.get('delimiter', ','))}%N {ord(kw.get('quotechar', chr(34)))}%N {M.cbool(kw.get('quoting') == csv.QUOTE_ALL)})"


def rand_cell(rng):
    n = rng.choice([0, 0, 1, 1, 2, 3, 5, 9])
    return "".join(rng.choice(ALPHA) for _ in range(n))


def py_write(kw, rows):
    s = io.StringIO(newline="")
    w = csv.writer(s, **kw)
    for r in rows:
        w.writerow(r)
    return s.getvalue()


def py_read(kw, text):
    try:
        return [list(r) for r in csv.reader(io.StringIO(text, newline=""), **kw)]
    except csv.Error:
        return None


def gen_cases(rng, n_rows, n_raw):
    cases = []
    for _ in range(n_rows):
        kw = rng.choice(DIALECTS)
        rows = [[rand_cell(rng) for _ in range(rng.choice([1, 2, 2, 3, 5]))] for _ in range(rng.choice([0, 1, 2, 3]))]
        text = py_write(kw, rows)
        cases.append(("w", kw, rows, text, py_read(kw, text)))
    for _ in range(n_raw):
        kw = rng.choice(DIALECTS)
        text = "".join(rng.choice(ALPHA + [kw.get("delimiter", ","), kw.get("quotechar", '"'), "\r\n", "\r\n"]) for _ in range(rng.choice([0, 1, 3, 6, 12, 20])))
        cases.append(("r", kw, None, text, py_read(kw, text)))
    return cases


def crows(rows):
    return M.copt(rows, lambda rs: M.clist(rs, lambda r: M.clist(r, M.cstr)))


def emit(path, cases):
    lines = ["From Coq Require Import List ZArith NArith Bool.", "From TF Require Import Base Csv Run.", "Import ListNotations.",
             "Definition rows_eqb := opt_eqb (list_eqb (list_eqb str_eqb)).",
             "Definition chk (c : dialect * option (list (list str)) * str * option (list (list str))) : bool :=",
             "  let '(D, rows, text, parsed) := c in",
             "  match rows with Some rs => str_eqb (csv_write D rs) text | None => true end && rows_eqb (csv_read D text) parsed.",
             "Fixpoint bad (i : nat) (cs : list (dialect * option (list (list str)) * str * option (list (list str)))) : list nat :=",
             "  match cs with [] => [] | c :: r => if chk c then bad (S i) r else i :: bad (S i) r end.",
             "Definition cases : list (dialect * option (list (list str)) * str * option (list (list str))) := ["]
    lines.append(";\n".join(f"({cdialect(kw)}, {crows(rows)}, {M.cstr(text)}, {crows(parsed)})" for _, kw, rows, text, parsed in cases))
    lines.append("].\nEval vm_compute in (length cases, bad 0 cases).")
    path.write_text("\n".join(lines) + "\n")


def run(ck, rng, n_rows, n_raw):
    cases = gen_cases(rng, n_rows, n_raw)
    files = []
    shard = 400
    for i in range(0, len(cases), shard):
        f = ck.work / f"cases_csv_{i // shard}.v"
        emit(f, cases[i:i + shard])
        files.append((f, i))
    outs = ck.run_case_files([f for f, _ in files])
    bad, evaluated, failed = [], 0, []
    for f, base in files:
        rc, out = outs[f]
        nums = parse_nat_list(out) if rc == 0 else None
        if nums is None:
            failed.append((f.name, out[-500:]))
            continue
        evaluated += nums[0]
        bad += [cases[base + k] for k in nums[1:]]
    return dict(cases=cases, bad=bad, evaluated=evaluated, failed=failed)


if __name__ == "__main__":
    import sys
    ck = Check("SMOKECSV", "quick", 1)
    r = run(ck, random.Random(int(sys.argv[1]) if len(sys.argv) > 1 else 1), 1500, 1500)
    print("evaluated", r["evaluated"], "bad", len(r["bad"]), "failed", r["failed"][:1])
    for c in r["bad"][:8]:
        print(c)
