#!/usr/bin/env python3
"""revert_fixes.py: every `fix:` commit of /repo reverted in a scratch worktree must be reported by the checks of the
properties recorded for that finding (known_findings.json).  Prints one line per (finding, check)."""
import json, os, re, shutil, subprocess, sys
V = os.path.dirname(os.path.dirname(os.path.abspath(__file__)))
kf = json.load(open(f"{V}/known_findings.json"))["findings"]
only = set(sys.argv[1:])
for f in kf:
    if f.get("status") != "fixed" or (only and f["id"] not in only):
        continue
    wt = f"/tmp/vwt/revert-{f['id'].replace('/', '_')}"
    subprocess.run(["git", "-C", "/repo", "worktree", "add", "--detach", "-f", wt, "HEAD"], capture_output=True)
    try:
        r = subprocess.run(["git", "-C", wt, "revert", "-n", f["commit"]], capture_output=True, text=True)
        if r.returncode != 0:
            print(f["id"], f["commit"], "REVERT-CONFLICT (later fixes touch the same lines)", flush=True)
            continue
        suite = subprocess.run(["/venv/bin/python", "-m", "pytest", "-q", "-p", "no:cacheprovider", "-x"], cwd=wt, env=dict(os.environ, PYTHONPATH=wt),
                               capture_output=True, text=True).stdout.strip().splitlines()[-1:]
        for chk in f["properties"]:
            coqdir = f"{wt}-coq"                     # a private copy of the Coq development (generated files are rewritten from the tree under test)
            shutil.rmtree(coqdir, ignore_errors=True)
            shutil.copytree(f"{V}/coq", coqdir, symlinks=True)
            env = dict(os.environ, VERIF_REPO=wt, VERIF_EVIDENCE_DIR=f"{V}/.work/mut-evidence", VERIF_COQ_DIR=coqdir)
            p = subprocess.run([f"{V}/check", chk, "quick"], capture_output=True, text=True, cwd=V, env=env, timeout=3000)
            viol = [l for l in p.stdout.splitlines() if l.startswith("VIOLATION")]
            print(f["id"], f["commit"], chk, "exit", p.returncode, "CAUGHT" if viol else "missed", (viol[:1] or [""])[0][-40:], "suite:", suite, flush=True)
    finally:
        subprocess.run(["git", "-C", "/repo", "worktree", "remove", "--force", wt], capture_output=True)
        shutil.rmtree(wt, ignore_errors=True)
        shutil.rmtree(f"{wt}-coq", ignore_errors=True)
