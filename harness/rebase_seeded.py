#!/usr/bin/env python3
"""rebase_seeded.py <id>...: a seeded change whose patch no longer applies to /repo HEAD (a later `fix:` commit touched the same lines) is
re-applied with a 3-way merge in a scratch worktree; when that succeeds without conflict the patch is rewritten against HEAD (the old one is
kept as patch.<base>.diff).  Conflicts are left to be resolved by hand: the worktree path is printed.  Follow with revalidate_seeded.py."""
import json, os, subprocess, sys
V = os.path.dirname(os.path.dirname(os.path.abspath(__file__)))
head = subprocess.run(["git", "-C", "/repo", "rev-parse", "--short", "HEAD"], capture_output=True, text=True).stdout.strip()
for sid in sys.argv[1:]:
    d = f"{V}/seeded/{sid}"
    wt = f"/tmp/vwt/rebase-{sid}"
    subprocess.run(["git", "-C", "/repo", "worktree", "add", "--detach", "-f", wt, "HEAD"], check=True, capture_output=True)
    keep = False
    try:
        if subprocess.run(["git", "-C", wt, "apply", "--check", f"{d}/patch.diff"], capture_output=True).returncode == 0:
            print(sid, "applies as it is")
            continue
        r = subprocess.run(["git", "-C", wt, "apply", "-3", f"{d}/patch.diff"], capture_output=True, text=True)
        unmerged = subprocess.run(["git", "-C", wt, "diff", "--name-only", "--diff-filter=U"], capture_output=True, text=True).stdout.split()
        if r.returncode != 0 or unmerged:
            print(sid, "CONFLICT in", unmerged or r.stderr[-200:], "- resolve in", wt, "then: git -C", wt, "diff HEAD >", f"{d}/patch.diff")
            keep = True
            continue
        meta = json.load(open(f"{d}/meta.json"))
        os.replace(f"{d}/patch.diff", f"{d}/patch.{meta.get('base_commit', 'old')[:7]}.diff")
        diff = subprocess.run(["git", "-C", wt, "diff", "HEAD"], capture_output=True, text=True).stdout
        open(f"{d}/patch.diff", "w").write(diff)
        meta["rebased_from"] = meta.get("base_commit")
        meta["base_commit"] = head
        json.dump(meta, open(f"{d}/meta.json", "w"), indent=1)
        print(sid, "rebased onto", head)
    finally:
        if not keep:
            subprocess.run(["git", "-C", "/repo", "worktree", "remove", "--force", wt], capture_output=True)
