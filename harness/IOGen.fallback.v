(* GENERATED on every run by harness/py2coq_io.py from tinyflux/storages.py (CSVStorage: the I/O calls of its methods along their
   success path, the options its handles are opened with) - do not edit.  proofs/IOGenP.v proves these scripts equal to the model's. *)
From Coq Require Import List Bool.
From TF Require Import Base Query Index DB IO.
Import ListNotations.

Definition refused : bool := false.

(* CSVStorage.append(items, temporary): `flush` is self._flush_on_insert *)
Definition gen_append (temporary flush : bool) (items : list point) : list iostep :=
  if temporary then [TSeekEnd] ++ (map TWrite items) ++ (if flush then [TFlush] ++ [TFileno; TFsync] ++ [TTruncate] else (@nil iostep))
  else [PSeekEnd] ++ (map PWrite items) ++ (if flush then [PFlush] ++ [PFileno; PFsync] ++ [PTruncate] else (@nil iostep)).

(* CSVStorage.reset() = _write([]) *)
Definition gen_reset : list iostep :=
  [PSeek0] ++ [PTruncate0].

Definition gen_init_temp : list iostep :=
  [TCreate].

Definition gen_swap : list iostep :=
  [TFlush] ++ [PClose] ++ [CopyOpen; CopyMid; CopyDone] ++ [Replace] ++ [POpen].

Definition gen_cleanup : list iostep :=
  [TClose] ++ [TRemove].

(* CSVStorage.__iter__: rewind, then the csv reader pulls one record per step *)
Definition gen_iter_start : list iostep := [PSeek0].

Definition gen_close : list iostep := [PClose].

(* with which options the handles are opened: the temporary file and the handle reopened after a rewrite use the storage's text
   encoding; every handle is opened without newline translation by default (newline=""); the reopen never truncates *)
Definition temp_uses_storage_encoding : bool := true.
Definition temp_untranslated_newlines : bool := true.
Definition temp_kept_until_removed : bool := true.
Definition reopen_uses_storage_encoding : bool := true.
Definition reopen_uses_storage_newline : bool := true.
Definition reopen_never_truncates : bool := true.
Definition reopen_same_file : bool := true.
Definition open_uses_given_options : bool := true.
Definition newline_default_untranslated : bool := true.
