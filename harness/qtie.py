"""Query-level correspondence (C09, C17): vocabulary, finite point universe, evaluation of the
implementation, emission of Coq cases, direct property oracles."""
import itertools
import random

from common import *  # noqa
import dbmodel as M
import pyspec

T0 = 1577836800000000


def universe():
    """every combination of missing key / None / empty string / other strings, missing / None / zero /
    negative / positive / fractional / infinite field, two measurements, two adjacent instants"""
    pts = []
    for ta, tb, fa, meas, tm in itertools.product(
            ["<missing>", None, "", "x", "ab", "A", "b"], ["<missing>", "y"],
            ["<missing>", None, 0, -1, 1, 1.5, float("inf"), 2], ["m1", ""], [T0, T0 + 1]):
        tags = {}
        if ta != "<missing>":
            tags["a"] = ta
        if tb != "<missing>":
            tags["b"] = tb
        fields = {}
        if fa != "<missing>":
            fields["a"] = fa
        pts.append({"time": tm, "meas": meas, "tags": tags, "fields": fields})
    # a few points carrying keys spelled like the DSL's own builder attributes, and the hash-colliding numbers -1 / -2
    pts += [{"time": T0, "meas": "m1", "tags": {"test": "x", "exists": "y", "map": "z", "search": "a"}, "fields": {"noop": 1, "matches": 0, "a": -2}},
            {"time": T0 + 1, "meas": "m1", "tags": {"test": "q"}, "fields": {"noop": -1, "a": -1}},
            {"time": T0, "meas": "", "tags": {"map": "x"}, "fields": {"a": 2 ** 61 - 1}}]
    # points at instants that read the same on the wall clock of their zone (the two readings of a repeated hour)
    import dbmodel as _M
    for a, b in _M.FOLD_PAIRS:
        pts += [{"time": a, "meas": "m1", "tags": {"a": "x"}, "fields": {"a": 1}}, {"time": b, "meas": "m1", "tags": {"a": "x"}, "fields": {"a": 1}}]
    pts += [{"time": T0, "meas": "m1", "tags": {"a": " "}, "fields": {"a": 3}}, {"time": T0, "meas": "m1", "tags": {"a": " x"}, "fields": {"a": 3.0}},
            {"time": T0 + 1, "meas": "m1", "tags": {"a": "x y"}, "fields": {"a": 0.0}}, {"time": T0 + 1, "meas": " ", "tags": {"a": "\t"}, "fields": {"a": -0.0}}]
    return pts + far_points()


def vocabulary():
    """simple queries covering every operator of every query type, exists/regex/test/map/noop"""
    ops = ["==", "!=", "<", "<=", ">", ">="]
    v = []
    for op in ops:
        v.append(("S", "time", [], ("cmp", op, ("t", T0))))
        v.append(("S", "meas", [], ("cmp", op, ("s", "m1"))))
        v.append(("S", "tags", [("k", "a")], ("cmp", op, ("s", "ab"))))
        v.append(("S", "fields", [("k", "a")], ("cmp", op, ("n", 1))))
    v += [("S", "time", [], ("cmp", "==", ("t", T0 + 1))), ("S", "time", [], ("cmp", ">", ("t", T0 - 5))),
          ("S", "meas", [], ("cmp", "==", ("s", ""))), ("S", "meas", [], ("match", 0, 0)), ("S", "meas", [], ("search", 2, 1)),
          ("S", "meas", [("m", 1)], ("cmp", "==", ("s", "m"))), ("S", "meas", [("m", 3)], ("cmp", "==", ("s", "few"))),
          ("S", "meas", [], ("user", 3)),
          ("S", "tags", [("k", "a")], ("cmp", "==", ("none",))), ("S", "tags", [("k", "a")], ("cmp", "!=", ("none",))),
          ("S", "tags", [("k", "a")], ("cmp", "==", ("s", ""))), ("S", "tags", [("k", "a")], ("cmp", "<", ("s", "b"))),
          ("S", "tags", [("k", "a")], ("exists",)), ("S", "tags", [("k", "b")], ("exists",)), ("S", "tags", [("k", "zz")], ("exists",)),
          ("S", "tags", [("k", "a")], ("match", 0, 0)), ("S", "tags", [("k", "a")], ("match", 0, 1)),
          ("S", "tags", [("k", "a")], ("search", 2, 0)), ("S", "tags", [("k", "a")], ("search", 2, 1)),
          ("S", "tags", [("k", "a")], ("match", 1, 0)), ("S", "tags", [("k", "a")], ("match", 1, 1)),
          ("S", "tags", [("k", "a"), ("m", 1)], ("cmp", "==", ("s", "a"))), ("S", "tags", [("k", "a"), ("m", 3)], ("cmp", "==", ("s", "many"))),
          ("S", "tags", [("k", "a"), ("m", 5)], ("cmp", "==", ("none",))), ("S", "tags", [("m", 3)], ("cmp", "==", ("s", "many"))),
          ("S", "tags", [("k", "a")], ("user", 3)), ("S", "tags", [("k", "a")], ("user", 4)), ("S", "tags", [("k", "a")], ("user", 0)),
          ("S", "fields", [("k", "a")], ("cmp", "==", ("none",))), ("S", "fields", [("k", "a")], ("cmp", "!=", ("none",))),
          ("S", "fields", [("k", "a")], ("cmp", "==", ("n", 0))), ("S", "fields", [("k", "a")], ("cmp", "<", ("n", 0))),
          ("S", "fields", [("k", "a")], ("cmp", ">=", ("n", 1.5))), ("S", "fields", [("k", "a")], ("cmp", "<=", ("n", float("inf")))),
          ("S", "fields", [("k", "a")], ("cmp", "==", ("n", True))), ("S", "fields", [("k", "a")], ("cmp", "==", ("n", 1.0))),
          ("S", "fields", [("k", "a")], ("exists",)), ("S", "fields", [("k", "zz")], ("exists",)),
          ("S", "fields", [("k", "a"), ("m", 2)], ("cmp", ">", ("n", 0))), ("S", "fields", [("k", "a"), ("m", 0)], ("cmp", "==", ("n", 1))),
          ("S", "fields", [("k", "a")], ("user", 0)), ("S", "fields", [("k", "a")], ("user", 4)),
          ("S", "time", [], ("user", 4)), ("S", "time", [("m", 4)], ("cmp", "==", ("t", T0 + 10000000))),
          ("S", "fields", [("k", "a")], ("cmp", "==", ("n", -1))), ("S", "fields", [("k", "a")], ("cmp", "==", ("n", -2))),
          ("S", "fields", [("k", "a")], ("cmp", "<=", ("n", -2))), ("S", "fields", [("k", "a")], ("cmp", "==", ("n", 2 ** 61 - 1))),
          ("S", "tags", [("k", "test")], ("cmp", "==", ("s", "x"))), ("S", "tags", [("k", "exists")], ("exists",)),
          ("S", "tags", [("k", "map")], ("cmp", "!=", ("s", "x"))), ("S", "fields", [("k", "noop")], ("cmp", ">", ("n", 0))),
          ("S", "fields", [("k", "matches")], ("exists",)), ("S", "tags", [("k", "search")], ("match", 0, 0)),
          ("S", "tags", [("m", 6), ("k", "a")], ("cmp", "==", ("s", "ab"))), ("S", "tags", [("m", 6), ("k", "b")], ("exists",)),
          ("S", "fields", [("m", 6), ("k", "a")], ("cmp", ">=", ("n", 1))), ("S", "tags", [("m", 0), ("k", "a")], ("cmp", "!=", ("s", "ab"))),
          # two maps one after the other, in an order that matters (len-class then first letter / first letter then len-class; minus then None / None then minus)
          ("S", "tags", [("k", "a"), ("m", 3), ("m", 1)], ("cmp", "==", ("s", "m"))), ("S", "tags", [("k", "a"), ("m", 1), ("m", 3)], ("cmp", "==", ("s", "few"))),
          ("S", "tags", [("k", "a"), ("m", 3), ("m", 1)], ("cmp", "==", ("s", "f"))), ("S", "fields", [("k", "a"), ("m", 2), ("m", 5)], ("cmp", "==", ("none",))),
          ("S", "fields", [("k", "a"), ("m", 5), ("m", 2)], ("cmp", "==", ("none",))), ("S", "meas", [("m", 3), ("m", 1)], ("cmp", "==", ("s", "m"))),
          # patterns that differ only in the case of an escape letter, with and without IGNORECASE
          ("S", "tags", [("k", "a")], ("match", 3, 1)), ("S", "tags", [("k", "a")], ("match", 4, 1)), ("S", "tags", [("k", "a")], ("search", 3, 1)),
          ("S", "tags", [("k", "a")], ("search", 4, 1)), ("S", "tags", [("k", "a")], ("match", 3, 0)), ("S", "tags", [("k", "a")], ("match", 4, 0)),
          # a pattern that carries its own global flag, anchored and not
          ("S", "tags", [("k", "a")], ("match", 5, 0)), ("S", "tags", [("k", "a")], ("search", 5, 0)), ("S", "tags", [("k", "a")], ("match", 5, 1)), ("S", "meas", [], ("match", 5, 0)),
          ("noop", "tags"), ("noop", "fields"), ("noop", "meas"), ("noop", "time"),
          ("noop", "tags", "a"), ("noop", "tags", "zz"), ("noop", "fields", "a"), ("noop", "fields", "zz", "y")]
    import dbmodel as _M
    for a, b in _M.FOLD_PAIRS[:2]:
        for op in ("==", "!=", "<=", ">"):
            v += [("S", "time", [], ("cmp", op, ("t", a))), ("S", "time", [], ("cmp", op, ("t", b)))]
    # comparison FUNCTIONS of the operator module handed to test(func, *args): tests like any other, not comparisons against a right-hand side
    v += [("S", "fields", [("k", "a")], ("user", 8)), ("S", "tags", [("k", "a")], ("user", 8)), ("S", "time", [], ("user", 8)), ("S", "meas", [], ("user", 8)),
          ("S", "fields", [("k", "zz")], ("user", 8)), ("S", "fields", [("k", "a"), ("m", 5)], ("user", 8))]
    # test functions that raise on some value types: well-formedness (total test) fails, outcome "raise" is compared too
    raising = [("S", "tags", [("k", "a")], ("user", 1)), ("S", "fields", [("k", "a")], ("user", 1)), ("S", "fields", [("k", "a")], ("user", 2)),
               ("S", "fields", [("k", "a")], ("user", 7)), ("S", "tags", [("k", "a")], ("user", 7)),
               ("S", "fields", [("k", "a")], ("user", 5)), ("S", "fields", [("k", "a")], ("user", 6))]     # bound methods of two instances of one class
    return v, raising


FAR = [15000000000 * 1000000 + 999998, 15000000000 * 1000000 + 999999,            # year 2445: adjacent microseconds share one float stamp
       -9000000000 * 1000000 + 1, -9000000000 * 1000000 + 2,                         # year 1684
       253000000000 * 1000000 + 999998, 253000000000 * 1000000 + 999999]           # year 9987


def hash_twin_atoms():
    """simple queries whose comparison values (or keys) have colliding Python hashes while being different values: -1 / -2, 0 / 2**61-1,
    0.5 / 2**60, and instants one microsecond apart far from the present (their float stamps coincide)"""
    f = lambda op, v: ("S", "fields", [("k", "a")], ("cmp", op, ("n", v)))
    atoms = [f("==", -1), f("==", -2), f("<=", -2), f("<=", -1), f("==", 0), f("==", 2 ** 61 - 1), f("==", 0.5), f("==", 2 ** 60), f("!=", -1), f("!=", -2)]
    atoms += [("S", "time", [], ("cmp", op, ("t", t))) for op in ("==", "<=") for t in FAR]
    return atoms


def twin_compounds():
    """every ordered pair of hash-twin atoms under & and |, and their negations: a combinator that identifies its operands by hash() rather
    than by == silently drops or merges one of them"""
    a = hash_twin_atoms()
    out = list(a) + [("not", x) for x in a[:6]]
    for x in a:
        for y in a:
            if x is not y and x[1] == y[1]:
                out += [("and", x, y), ("or", x, y)]
    return out


def deep_chains(depths=(205, 230, 260, 320)):
    """queries composed operand by operand (`q = q & c`, `q = q | c`, now and then `q = ~q`): left spines some hundred levels deep, the way a caller
    folds a list of conditions into one query - every level's operator must be applied, whatever the levels below decided"""
    import random as _r
    v, _ = vocabulary()
    atoms = [q for q in v if q[0] == "S" and q[3][0] in ("cmp", "exists") and not any(p[0] == "m" for p in q[2])]
    out = []
    for d in depths:
        rng = _r.Random(d)
        q = rng.choice(atoms)
        for i in range(d):
            q = (rng.choice(["and", "or"]), q, rng.choice(atoms))
            if rng.random() < 0.08:
                q = ("not", q)
        out += [q, ("not", q), ("and", q, rng.choice(atoms)), ("or", rng.choice(atoms), q)]
    return out


def far_points():
    return [{"time": t, "meas": "m1", "tags": {"a": "x"}, "fields": {"a": [-1, -2, 0, 0.5, 2 ** 60, 2 ** 61 - 1][i]}} for i, t in enumerate(FAR)]


def wf(q):
    """documented domain of 'never raises': user test functions total on the values they can receive"""
    k = q[0]
    if k == "noop":
        return True
    if k in ("and", "or"):
        return wf(q[1]) and wf(q[2])
    if k == "not":
        return wf(q[1])
    if q[3][0] != "user":
        return True
    tid = q[3][1]
    return tid in (0, 4, 8) or (tid == 3 and q[1] == "meas" and not q[2])


def core(vocab):
    """a core of the vocabulary for the exhaustive depth-1 closure"""
    idx = [0, 2, 3, 8, 11, 14, 19, 24, 32, 36, 40, 44, 48, 52, 56, 60, 64, 66, 70, 72]
    return [vocab[i] for i in idx if i < len(vocab)]


def depth1(c):
    out = [("not", q) for q in c]
    for a in c:
        for b in c:
            out.append(("and", a, b))
            out.append(("or", a, b))
    return out


def random_expr(rng, base, depth):
    if depth == 0:
        return rng.choice(base)
    c = rng.random()
    if c < 0.3:
        return ("not", random_expr(rng, base, depth - 1))
    return (rng.choice(["and", "or"]), random_expr(rng, base, depth - 1), random_expr(rng, base, rng.randrange(depth)))


def impl_eval(tf, rq, rp):
    try:
        r = rq(rp)
    except Exception as e:  # noqa
        return 2
    return 1 if r is True else (0 if r is False else 3)


def emit_eval_cases(path, univ, qs, expected):
    lines = ["From Coq Require Import List ZArith NArith Bool.", "From TF Require Import Base Query Index DB Twins Run.",
             "Import ListNotations.", "Local Open Scope nat_scope.",
             "Definition code (r : res) : nat := match r with RB false => 0 | RB true => 1 | RRaise => 2 end.",
             "Fixpoint leqb (a b : list nat) : bool := match a, b with [], [] => true | x :: a', y :: b' => Nat.eqb x y && leqb a' b' | _, _ => false end.",
             f"Definition U : list point := {M.clist(univ, M.cpoint)}.",
             "Fixpoint bad (i : nat) (cs : list (query * list nat)) : list nat := match cs with [] => []",
             "  | (q, e) :: r => if leqb (map (fun p => code (eval twinE q p)) U) e then bad (S i) r else i :: bad (S i) r end.",
             "Definition cases : list (query * list nat) := ["]
    lines.append(";\n".join(f"({M.cquery(q)}, [{'; '.join(map(str, e))}])" for q, e in zip(qs, expected)))
    lines.append("].\nEval vm_compute in (length cases, bad 0 cases).")
    path.write_text("\n".join(lines) + "\n")


def emit_eq_cases(path, qs, eq_pairs, hashable):
    """model: all pairs (i, j) with qeq = true, and hashability per query, compared with the implementation's"""
    lines = ["From Coq Require Import List ZArith NArith Bool.", "From TF Require Import Base Query Index DB Twins Run.",
             "Import ListNotations.", "Local Open Scope nat_scope.",
             f"Definition qs : list query := [{(';' + chr(10)).join(M.cquery(q) for q in qs)}].",
             "Definition eqrow (i : nat) (q : query) : list nat := map fst (filter (fun jq => qeq q (snd jq)) (combine (seq 0 (length qs)) qs)).",
             "Definition model_pairs : list (list nat) := map (fun iq => eqrow (fst iq) (snd iq)) (combine (seq 0 (length qs)) qs).",
             "Fixpoint leqb (a b : list nat) : bool := match a, b with [], [] => true | x :: a', y :: b' => Nat.eqb x y && leqb a' b' | _, _ => false end.",
             "Fixpoint badrows (i : nat) (a b : list (list nat)) : list nat := match a, b with x :: a', y :: b' => if leqb x y then badrows (S i) a' b' else i :: badrows (S i) a' b' | [], [] => [] | _, _ => [i] end.",
             "Definition expected : list (list nat) := [" + "; ".join("[" + "; ".join(map(str, row)) + "]" for row in eq_pairs) + "].",
             "Definition hexp : list bool := [" + "; ".join(M.cbool(b) for b in hashable) + "].",
             "Definition hbad : list nat := map fst (filter (fun x => negb (Bool.eqb (is_hashable (fst (snd x))) (snd (snd x)))) (combine (seq 0 (length qs)) (combine qs hexp))).",
             "Eval vm_compute in (N.of_nat (length qs), map N.of_nat (badrows 0 model_pairs expected) ++ map (fun x => (1000000 + N.of_nat x)%N) hbad)."]
    path.write_text("\n".join(lines) + "\n")


def derived_check(tf, qs, univ, limit=60, step=7):
    """queries are VALUES: deriving a new query from one (`q & c`, `q | c`, `~q`, and the augmented forms `d = q; d &= c`, `e = q; e |= c`, which
    Python defines as `d = d & c` for a class without in-place operators) leaves q - and every query that has q as an operand - meaning what it
    meant, comparing and hashing as it did; and the derived query means AND / OR of what it was built from.  -> (failing inputs, number checked)"""
    bad, checked = [], 0
    terms = [("S", "tags", [("k", "a")], ("cmp", "==", ("s", "ab"))), ("S", "fields", [("k", "a")], ("cmp", ">", ("n", 0))),
             ("S", "meas", [], ("cmp", "==", ("s", "m1"))), ("not", ("S", "tags", [("k", "b")], ("exists",)))]
    pts = [M.real_point(tf, p) for p in univ[::max(1, len(univ) // 24)]]
    beh = lambda rq: tuple(impl_eval(tf, rq, rp) for rp in pts)
    picks = [q for q in qs[::step] if q[0] in ("and", "or", "not")][:limit] + [q for q in qs[::step] if q[0] == "S"][:10]
    for k, q in enumerate(picks):
        c, c2 = terms[k % 4], terms[(k + 1) % 4]
        try:
            rq, holder_and, fresh = M.real_query(tf, q, {}), None, M.real_query(tf, q, {})
            rc, rc2 = M.real_query(tf, c, {}), M.real_query(tf, c2, {})
        except Exception:  # noqa
            continue
        try:
            holder_and, holder_or, holder_not = rq & rc2, rc2 | rq, ~rq
            before = (beh(rq), beh(holder_and), beh(holder_or), beh(holder_not))
        except Exception as ex:  # noqa  (what was built is no query object: the evaluation part of the check reports that)
            if len(bad) < 3:
                bad.append({"query": q, "derived_with": c2, "why": f"combining a built query with & / | / ~ raised {type(ex).__name__}: {ex}"})
            continue
        try:
            ident_before = (rq == fresh, hash(rq) if rq.is_hashable() else None)
            d = rq
            d &= rc
            e = rq
            e |= rc
            want_d, want_e = beh(M.real_query(tf, ("and", q, c), {})), beh(M.real_query(tf, ("or", q, c), {}))
            after = (beh(rq), beh(holder_and), beh(holder_or), beh(holder_not))
            ident_after = (rq == fresh, hash(rq) if rq.is_hashable() else None)
            got_d, got_e = beh(d), beh(e)
        except Exception as ex:  # noqa
            bad.append({"query": q, "derived_with": c, "why": f"deriving a query with &= / |= raised {type(ex).__name__}: {ex}"})
            continue
        checked += 1
        why = None
        if after != before:
            why = "a query (or a query holding it as an operand: q & c2, c2 | q, ~q) answers differently after `d = q; d &= c; e = q; e |= c` than before"
        elif ident_after != ident_before:
            why = "q == <fresh equal query> or hash(q) changed after another query was derived from q with &= / |="
        elif got_d != want_d or got_e != want_e:
            why = "`d = q; d &= c` (or |=) does not mean what a freshly built q & c (q | c) means"
        if why and len(bad) < 3:
            bad.append({"query": q, "derived_with": c, "held_with": c2, "why": why, "q_before": before[0], "q_after": after[0],
                        "holders_before": before[1:], "holders_after": after[1:], "d": got_d, "fresh_q_and_c": want_d, "e": got_e, "fresh_q_or_c": want_e})
    return bad, checked


def edited_point_check(tf, qs, rqs, univ, limit=400, step=3):
    """the same query OBJECT asked again about a Point whose tags / fields mappings the caller edited in place in between (valid values only):
    it must answer as a freshly built equal query does, and as the documented meaning says - whatever a query object remembers about the
    last point it saw must not outlive the edit.  -> list of failing inputs"""
    bad, checked = [], 0
    picks = [i for i in range(0, len(qs), step) if rqs[i] is not None][:limit]
    pts = [j for j, p in enumerate(univ) if "a" in p["tags"] and "a" in p["fields"]][:6]
    for i in picks:
        for j in pts:
            neutral = {"time": univ[j]["time"], "meas": univ[j]["meas"], "tags": dict(univ[j]["tags"]), "fields": dict(univ[j]["fields"])}
            p = M.real_point(tf, neutral)
            r1 = impl_eval(tf, rqs[i], p)
            new_tag = "ab" if neutral["tags"]["a"] != "ab" else "x"
            new_field = 1 if neutral["fields"]["a"] != 1 else -2
            p.tags["a"] = new_tag                       # in place: the mapping object stays the same
            p.fields["a"] = new_field
            neutral["tags"]["a"], neutral["fields"]["a"] = new_tag, new_field
            r2 = impl_eval(tf, rqs[i], p)
            try:
                fresh = M.real_query(tf, qs[i], {})
            except Exception:  # noqa
                continue
            r3 = impl_eval(tf, fresh, M.real_point(tf, neutral))
            checked += 1
            if r2 != r3 and len(bad) < 3:
                bad.append({"query": qs[i], "point_before_edit": univ[j], "point_after_edit": neutral, "same_object_before": r1, "same_object_after": r2,
                            "fresh_equal_query_after": r3, "why": "a query object evaluated on a point, the point's mappings edited in place, the same "
                            "object evaluated again: it answers differently from a freshly built equal query"})
    return bad, checked
