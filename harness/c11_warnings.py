"""c11_warnings.py: the tree on PYTHONPATH used by a process that turns warnings into errors (`python -W error`, pytest's
`filterwarnings = error`): a library call that raises - for whatever reason, a warning category included - leaves the contents as they were,
the index still agrees with storage, and the next operations behave normally.  Ordinary operations only: in-order and late inserts, batches
with a late point, updates, removals, reindex, reads.  argv[1]: a scratch directory.  Prints a JSON list of findings."""
import json
import os
import sys
import tempfile
import warnings
from datetime import datetime, timedelta, timezone

import tinyflux as tf
from tinyflux.storages import MemoryStorage

T0 = datetime(2020, 1, 1, tzinfo=timezone.utc)
work = sys.argv[1]
tmpd = os.path.join(work, "tmp")
os.makedirs(tmpd, exist_ok=True)
tempfile.tempdir = tmpd
bad = []


def snapshot(db):
    return [(p.time, p.measurement, dict(p.tags), dict(p.fields)) for p in db.all(sorted=False)]


def consistent(db):
    pts = snapshot(db)
    got = {"len": len(db), "count(noop)": db.count(tf.TagQuery().noop()), "get_measurements": list(db.get_measurements()),
           "get_tag_keys": list(db.get_tag_keys()), "count(k == '1')": db.count(tf.TagQuery().k == "1"),
           "search(time >= T0+2s)": sorted(p.tags.get("k", "") for p in db.search(tf.TimeQuery() >= T0 + timedelta(seconds=2)))}
    want = {"len": len(pts), "count(noop)": len(pts), "get_measurements": sorted({p[1] for p in pts}),
            "get_tag_keys": sorted({k for p in pts for k in p[2]}), "count(k == '1')": sum(1 for p in pts if p[2].get("k") == "1"),
            "search(time >= T0+2s)": sorted(p[2].get("k", "") for p in pts if p[0] >= T0 + timedelta(seconds=2))}
    d = {k: (got[k], want[k]) for k in got if got[k] != want[k]}
    return None if not d else "answers (got, held): " + str(d)[:300]


def P(sec, k, **kw):
    return tf.Point(time=T0 + timedelta(seconds=sec), measurement=kw.get("m", "m"), tags={"k": k}, fields={"a": float(sec)})


STEPS = [
    ("insert in time order", lambda db: db.insert(P(10, "10"))),
    ("insert a point EARLIER than the newest one", lambda db: db.insert(P(1.5, "late"))),
    ("insert in time order again", lambda db: db.insert(P(20, "20"))),
    ("insert a batch whose second point is earlier than the first", lambda db: db.insert_multiple([P(30, "30"), P(0.5, "late2"), P(31, "31")])),
    ("reindex", lambda db: db.reindex()),
    ("insert at the newest instant itself", lambda db: db.insert(P(31, "tie"))),
    ("update the tag of one point", lambda db: db.update(tf.TagQuery().k == "1", tags={"seen": "y"})),
    ("update a time backwards", lambda db: db.update(tf.TagQuery().k == "20", time=T0 - timedelta(seconds=5))),
    ("remove one point", lambda db: db.remove(tf.TagQuery().k == "0")),
    ("insert an earlier point through a handle", lambda db: db.measurement("other").insert(P(2.5, "h"))),
    ("drop a measurement", lambda db: db.drop_measurement("other")),
    ("insert in time order at the end", lambda db: db.insert(P(40, "40"))),
]

for csv in (False, True):
    for auto in (True, False):
        d = tempfile.mkdtemp(dir=work)
        db = tf.TinyFlux(os.path.join(d, "db.csv"), auto_index=auto) if csv else tf.TinyFlux(storage=MemoryStorage, auto_index=auto)
        db.insert_multiple([P(i, str(i)) for i in range(4)])
        db.count(tf.TagQuery().noop())
        warnings.simplefilter("error")
        try:
            for desc, step in STEPS:
                before = snapshot(db)
                raised = None
                try:
                    step(db)
                except Exception as e:  # noqa
                    raised = f"{type(e).__name__}: {e}"[:160]
                try:
                    after = snapshot(db)
                    why = None
                    if raised and after != before and not ("batch" in desc and after[:len(before)] == before and len(after) == len(before) + 1):
                        why = f"the call raised ({raised}) but changed the stored contents ({len(before)} -> {len(after)} points)"
                    else:
                        c = consistent(db)
                        if c:
                            why = ("after the call raised (" + raised + "), " if raised else "after the call, ") + c
                except Exception as e:  # noqa
                    why = f"after the step the database cannot be read any more: {type(e).__name__}: {e}"[:200]
                if why:
                    bad.append({"config": {"csv": csv, "auto_index": auto}, "step": desc, "why": why})
                    break
        finally:
            warnings.resetwarnings()
            try:
                db.close()
            except Exception:  # noqa
                pass
print(json.dumps(bad))
