#!/usr/bin/env python3
"""revalidate_seeded.py [ids...]: for each seeded change, in a scratch worktree of /repo HEAD: the demonstration passes
without the change, the change applies, the suite passes with it, the demonstration fails with it."""
import json, os, subprocess, sys, shutil, glob
V = os.path.dirname(os.path.dirname(os.path.abspath(__file__)))
ids = sys.argv[1:] or sorted(os.path.basename(d) for d in glob.glob(f"{V}/seeded/C*"))
head = subprocess.run(["git", "-C", "/repo", "rev-parse", "--short", "HEAD"], capture_output=True, text=True).stdout.strip()
for sid in ids:
    wt = f"/tmp/vwt/reval-{sid}"
    subprocess.run(["git", "-C", "/repo", "worktree", "add", "--detach", "-f", wt, "HEAD"], capture_output=True)
    env = dict(os.environ, PYTHONPATH=wt, PYTHONDONTWRITEBYTECODE="1", TZ="UTC")
    try:
        demo = [f for f in os.listdir(f"{V}/seeded/{sid}") if f.startswith("demo")][0]
        clean = subprocess.run(["/venv/bin/python", f"{V}/seeded/{sid}/{demo}"], env=env, cwd=wt, capture_output=True, timeout=600).returncode
        ap = subprocess.run(["git", "-C", wt, "apply", f"{V}/seeded/{sid}/patch.diff"], capture_output=True).returncode
        suite = mut = None
        if ap == 0:
            r = subprocess.run(["/venv/bin/python", "-m", "pytest", "-q", "-p", "no:cacheprovider", "-x"], env=env, cwd=wt, capture_output=True, text=True, timeout=900)
            suite = r.stdout.strip().splitlines()[-1] if r.stdout.strip() else "?"
            mut = subprocess.run(["/venv/bin/python", f"{V}/seeded/{sid}/{demo}"], env=env, cwd=wt, capture_output=True, timeout=600).returncode
        ok = clean == 0 and ap == 0 and mut not in (0, None) and "passed" in (suite or "") and "failed" not in (suite or "")
        print(sid, "OK" if ok else "STALE", dict(demo_clean=clean, applies=ap == 0, suite=suite, demo_with_change=mut), flush=True)
        m = json.load(open(f"{V}/seeded/{sid}/meta.json"))
        m["revalidated"] = {"head": head, "valid": ok, "demo_clean": clean, "applies": ap == 0, "suite": suite, "demo_with_change": mut}
        json.dump(m, open(f"{V}/seeded/{sid}/meta.json", "w"), indent=1)
    finally:
        subprocess.run(["git", "-C", "/repo", "worktree", "remove", "--force", wt], capture_output=True)
        shutil.rmtree(wt, ignore_errors=True)
